//! javac-produced corpus: parse, validate, re-encode; parser never panics.

use refclass::*;
use std::path::{Path, PathBuf};

fn corpus() -> Vec<(PathBuf, Vec<u8>)> {
    fn walk(d: &Path, out: &mut Vec<PathBuf>) {
        let mut es: Vec<_> = std::fs::read_dir(d).unwrap().map(|e| e.unwrap().path()).collect();
        es.sort();
        for p in es {
            if p.is_dir() {
                walk(&p, out);
            } else if p.extension().map(|e| e == "class").unwrap_or(false) {
                out.push(p);
            }
        }
    }
    let root = Path::new(env!("CARGO_MANIFEST_DIR")).join("../corpus/classes");
    let mut v = Vec::new();
    walk(&root, &mut v);
    assert!(v.len() >= 60, "corpus too small: {}", v.len());
    v.into_iter().map(|p| { let b = std::fs::read(&p).unwrap(); (p, b) }).collect()
}

#[test]
fn corpus_parses_validates_reencodes() {
    let files = corpus();
    let mut n = 0;
    for (p, b) in &files {
        let sem = parse(b).unwrap_or_else(|e| panic!("{}: {}", p.display(), e));
        if let Err(v) = validate(b) {
            panic!("{}: {:#?}", p.display(), v);
        }
        let (s2, used) = parse_prefix(b).unwrap();
        assert_eq!(used, b.len());
        assert_eq!(sem, s2);
        // canonical layout and a few random ones
        let mut layouts = vec![Layout::default()];
        let mut rng = SplitMix::new(n as u64);
        for _ in 0..3 {
            layouts.push(gen_layout(&mut rng));
        }
        for l in &layouts {
            let enc = encode(&sem, l).unwrap_or_else(|e| panic!("{}: encode: {}", p.display(), e));
            let back = parse(&enc.bytes).unwrap_or_else(|e| panic!("{}: reparse: {}", p.display(), e));
            assert_eq!(sem.diff(&back), None, "{}", p.display());
            validate(&enc.bytes).unwrap_or_else(|e| panic!("{}: revalidate {:?}", p.display(), e));
        }
        // concatenated stream
        let mut two = b.clone();
        two.extend_from_slice(b);
        let (_, used) = parse_prefix(&two).unwrap();
        assert_eq!(used, b.len());
        assert!(parse(&two).is_err());
        n += 1;
    }
    eprintln!("corpus: {} class files", n);
}

#[test]
fn parser_never_panics() {
    let files = corpus();
    let mut rng = SplitMix::new(99);
    let mut runs = 0usize;
    // every 7th file: every truncation; single-byte mutations at every offset with 3 values
    for (i, (p, b)) in files.iter().enumerate() {
        let full = i % 7 == 0 && b.len() < 6000;
        let r = std::panic::catch_unwind(|| {
            let mut local = 0usize;
            if full {
                for cut in 0..b.len() {
                    assert!(parse(&b[..cut]).is_err(), "truncation at {} accepted", cut);
                    let _ = validate(&b[..cut]);
                    local += 1;
                }
            }
            local
        });
        runs += r.unwrap_or_else(|_| panic!("panic on truncation of {}", p.display()));
        let mut m = b.clone();
        let stride = if full { 1 } else { 13 };
        let mut off = (i * 5) % stride.max(1);
        while off < m.len() {
            let orig = m[off];
            for v in [orig ^ 0xFF, orig.wrapping_add(1), rng.below(256) as u8] {
                m[off] = v;
                let mm = &m;
                let r = std::panic::catch_unwind(|| {
                    let _ = parse(mm);
                    let _ = validate(mm);
                });
                assert!(r.is_ok(), "panic on {} with byte {} set to {}", p.display(), off, v);
                runs += 1;
            }
            m[off] = orig;
            off += stride;
        }
    }
    eprintln!("parser_never_panics: {} inputs", runs);
}

#[test]
fn mutated_generated_classes_never_panic() {
    let mut rng = SplitMix::new(4242);
    for seed in 0..300u64 {
        let mut g = SplitMix::new(seed);
        let sem = gen_class(&mut g, &GenCfg::default());
        let enc = encode(&sem, &gen_layout(&mut g)).unwrap();
        let mut b = enc.bytes.clone();
        // mutate exactly the fields the offset map names, to boundary values
        for _ in 0..200 {
            let s = &enc.map[rng.below(enc.map.len() as u64) as usize];
            if s.len == 0 || s.len > 4 {
                continue;
            }
            let save = b[s.start..s.start + s.len].to_vec();
            let val: u32 = [0u32, 1, 0x7f, 0x80, 0xff, 0x7fff, 0x8000, 0xffff, 0x7fffffff, 0xffffffff][rng.below(10) as usize];
            let bytes = val.to_be_bytes();
            b[s.start..s.start + s.len].copy_from_slice(&bytes[4 - s.len..]);
            let bb = &b;
            let r = std::panic::catch_unwind(|| {
                let _ = parse(bb);
                let _ = validate(bb);
            });
            assert!(r.is_ok(), "panic: seed {} span {:?} value {:#x}", seed, s, val);
            b[s.start..s.start + s.len].copy_from_slice(&save);
        }
    }
}
