//! The validator notices targeted damage, and agrees with the strict parser.

use refclass::sem::*;
use refclass::validate::prefix;
use refclass::*;

fn put(b: &mut [u8], s: &FieldSpan, v: u32) {
    let bytes = v.to_be_bytes();
    b[s.start..s.start + s.len].copy_from_slice(&bytes[4 - s.len..]);
}

fn prefixes(b: &[u8]) -> Vec<String> {
    match validate(b) {
        Ok(()) => vec![],
        Err(v) => v.iter().map(|m| prefix(m).to_string()).collect(),
    }
}

#[test]
fn parse_and_validate_agree() {
    // parse Err => validate Err ; validate Ok => parse Ok, on mutated inputs
    let mut rng = SplitMix::new(7);
    let mut rejected = 0;
    let mut total = 0;
    for seed in 0..400u64 {
        let mut g = SplitMix::new(seed);
        let sem = gen_class(&mut g, &GenCfg::default());
        let enc = encode(&sem, &gen_layout(&mut g)).unwrap();
        let mut b = enc.bytes.clone();
        for _ in 0..60 {
            let s = &enc.map[rng.below(enc.map.len() as u64) as usize];
            if s.len == 0 || s.len > 4 {
                continue;
            }
            let save = b[s.start..s.start + s.len].to_vec();
            let val = [0u32, 1, 2, 0x7f, 0xff, 0x100, 0x7fff, 0xffff, 0xffffffff][rng.below(9) as usize];
            put(&mut b, s, val);
            let p = parse(&b);
            let v = validate(&b);
            total += 1;
            if p.is_err() {
                rejected += 1;
                assert!(v.is_err(), "seed {}: parse rejects ({}) but validate accepts; span {:?}", seed, p.unwrap_err(), s);
            }
            if v.is_ok() {
                assert!(p.is_ok());
            }
            b[s.start..s.start + s.len].copy_from_slice(&save);
        }
    }
    assert!(rejected * 4 > total, "suspiciously few rejections: {}/{}", rejected, total);
}

#[test]
fn targeted_damage_is_reported_with_the_right_prefix() {
    let mut hits = std::collections::BTreeMap::<&str, usize>::new();
    for seed in 0..300u64 {
        let mut g = SplitMix::new(seed ^ 0x55);
        let sem = gen_class(&mut g, &GenCfg::default());
        let enc = encode(&sem, &Layout::default()).unwrap();
        let cp_count = u16::from_be_bytes([enc.bytes[8], enc.bytes[9]]) as u32;
        for s in &enc.map {
            let mut b = enc.bytes.clone();
            match &s.kind {
                SpanKind::CpIndex if s.len == 2 => {
                    put(&mut b, s, cp_count);
                    let p = prefixes(&b);
                    assert!(p.iter().any(|x| x == "cp-index-range"), "seed {} {}: {:?}", seed, s.path, p);
                    *hits.entry("cp-index-range").or_default() += 1;
                }
                SpanKind::Length if s.path.ends_with("attribute_length") => {
                    let old = u32::from_be_bytes([b[s.start], b[s.start + 1], b[s.start + 2], b[s.start + 3]]);
                    put(&mut b, s, old + 1);
                    let p = prefixes(&b);
                    assert!(!p.is_empty(), "seed {} {}: attribute_length+1 accepted", seed, s.path);
                    assert!(
                        p.iter().any(|x| x == "attr-length" || x == "truncated" || x == "opcode"),
                        "seed {} {}: {:?}",
                        seed,
                        s.path,
                        p
                    );
                    *hits.entry("attr-length").or_default() += 1;
                }
                SpanKind::Length if s.path.ends_with("code_length") => {
                    put(&mut b, s, 0);
                    assert!(prefixes(&b).iter().any(|x| x == "code-length"), "seed {} {}", seed, s.path);
                    put(&mut b, s, 65536);
                    assert!(!prefixes(&b).is_empty());
                    *hits.entry("code-length").or_default() += 1;
                }
                SpanKind::Tag if s.path.starts_with("cp[") && s.path.ends_with(".tag") => {
                    put(&mut b, s, 2);
                    assert!(prefixes(&b).iter().any(|x| x == "cp-tag"), "seed {} {}", seed, s.path);
                    *hits.entry("cp-tag").or_default() += 1;
                }
                _ => {}
            }
        }
        // magic
        let mut b = enc.bytes.clone();
        b[0] = 0xCB;
        assert_eq!(prefixes(&b), vec!["magic".to_string()]);
        // trailing bytes
        let mut b = enc.bytes.clone();
        b.push(0);
        assert_eq!(prefixes(&b), vec!["trailing-bytes".to_string()]);
    }
    for k in ["cp-index-range", "attr-length", "code-length", "cp-tag"] {
        assert!(hits.get(k).copied().unwrap_or(0) > 50, "{} exercised too rarely: {:?}", k, hits);
    }
}

/// Hand-built classes with one specific defect each.
#[test]
fn semantic_defects() {
    let base = || {
        let mut s = Sem { major: 52, access: 0x21, this_class: "A".into(), super_class: Some("java/lang/Object".into()), ..Sem::default() };
        s.methods.push(Method {
            access: 9,
            name: "m".into(),
            desc: "()V".into(),
            code: Some(Code { max_stack: 1, max_locals: 1, insns: vec![Insn::Goto(1), Insn::Simple(op::RETURN)], ..Code::default() }),
            ..Method::default()
        });
        s
    };
    let enc = |s: &Sem| encode(s, &Layout::default()).unwrap();
    assert_eq!(prefixes(&enc(&base()).bytes), Vec::<String>::new());

    // branch into the middle of an instruction
    let e = enc(&base());
    let mut b = e.bytes.clone();
    let s = e.map.iter().find(|s| s.kind == SpanKind::BranchOffset).unwrap();
    put(&mut b, s, 2);
    assert!(prefixes(&b).contains(&"branch-target".to_string()));
    assert!(parse(&b).unwrap_err().what.starts_with("branch-target"));

    // malformed descriptor: soft (parse ok, validate complains)
    let mut s = base();
    s.methods[0].desc = "(".into();
    let b = enc(&s).bytes;
    assert!(parse(&b).is_ok());
    assert!(prefixes(&b).contains(&"descriptor".to_string()));

    // invokevirtual on InterfaceMethodref: soft cp-index-kind
    let mut s = base();
    s.methods[0].code.as_mut().unwrap().insns[1] =
        Insn::Invoke(InvokeOp::Virtual, MemberRef { owner: "B".into(), name: "x".into(), desc: "()V".into(), is_interface: true });
    s.methods[0].code.as_mut().unwrap().insns.push(Insn::Simple(op::RETURN));
    let b = enc(&s).bytes;
    assert_eq!(parse(&b).unwrap(), s);
    assert!(prefixes(&b).contains(&"cp-index-kind".to_string()));

    // getfield pointing at a Methodref: hard cp-index-kind
    let mut s = base();
    s.methods[0].code.as_mut().unwrap().insns[1] =
        Insn::Invoke(InvokeOp::Static, MemberRef { owner: "B".into(), name: "x".into(), desc: "()V".into(), is_interface: false });
    let e = enc(&s);
    let mut b = e.bytes.clone();
    let opc = e.map.iter().find(|x| x.kind == SpanKind::Opcode && x.path.ends_with("insn[1].opcode")).unwrap();
    b[opc.start] = op::GETFIELD;
    assert!(parse(&b).unwrap_err().what.starts_with("cp-index-kind"));

    // duplicate unique attribute
    let mut s = base();
    s.source_file = Some("A.java".into());
    let e = enc(&s);
    let span = e.map.iter().find(|x| x.kind == SpanKind::Attribute { name: "SourceFile".into() }).unwrap();
    let mut b = e.bytes.clone();
    let attr = b[span.start..span.start + span.len].to_vec();
    b.extend_from_slice(&attr);
    let cnt = e.map.iter().rfind(|x| x.path == "attributes.count").unwrap();
    put(&mut b, cnt, 2);
    assert!(prefixes(&b).contains(&"attr-duplicate".to_string()));

    // exception range / line number / local var off an instruction boundary
    let mut s = base();
    {
        let c = s.methods[0].code.as_mut().unwrap();
        c.exceptions.push(ExceptionEntry { start: 0, end: 2, handler: 1, catch_type: None });
        c.line_numbers.push(LineNumber { at: 1, line: 5 });
        c.local_vars.push(LocalVar { start: 0, end: 2, name: "x".into(), desc: "I".into(), slot: 0 });
    }
    let e = enc(&s);
    for (path_end, want) in [("exception[0].end_pc", "exception-range"), ("entry[0].start_pc", "line-number"), ("entry[0].length", "local-var")] {
        let mut b = e.bytes.clone();
        let sp = e.map.iter().find(|x| x.path.ends_with(path_end) && (want != "line-number" || x.path.contains("LineNumberTable"))).unwrap();
        put(&mut b, sp, 1); // offset 1 is inside the 3-byte goto
        assert!(prefixes(&b).contains(&want.to_string()), "{} -> {:?}", path_end, prefixes(&b));
    }
}

#[test]
fn diff_paths() {
    let mut g = SplitMix::new(3);
    let a = loop {
        let s = gen_class(&mut g, &GenCfg::default());
        if s.methods.iter().any(|m| m.code.is_some()) && !s.fields.is_empty() {
            break s;
        }
    };
    assert_eq!(a.diff(&a), None);
    let mut b = a.clone();
    b.major += 1;
    assert_eq!(a.diff(&b).unwrap(), "major");
    let mut b = a.clone();
    b.fields[0].name = "zzz".into();
    assert_eq!(a.diff(&b).unwrap(), "field[0].name");
    let mi = a.methods.iter().position(|m| m.code.is_some()).unwrap();
    let mut b = a.clone();
    b.methods[mi].code.as_mut().unwrap().insns[0] = Insn::Goto(12345);
    let p = a.diff(&b).unwrap();
    assert!(p == format!("method[{}].code.insn[0].op", mi) || p == format!("method[{}].code.insn[0].target", mi), "{}", p);
    let mut b = a.clone();
    b.methods[mi].code.as_mut().unwrap().insns.push(Insn::Simple(0));
    assert_eq!(a.diff(&b).unwrap(), format!("method[{}].code.insn.len", mi));
    let mut b = a.clone();
    b.methods[mi].code = None;
    assert_eq!(a.diff(&b).unwrap(), format!("method[{}].code.present", mi));
    let mut b = a.clone();
    b.annotations.visible.push(Annotation { type_desc: "LA;".into(), pairs: vec![Pair { name: "v".into(), value: ElementValue::Int(1) }] });
    let mut c = b.clone();
    c.annotations.visible.last_mut().unwrap().pairs[0].value = ElementValue::Int(2);
    let n = b.annotations.visible.len() - 1;
    assert_eq!(b.diff(&c).unwrap(), format!("annotations.visible[{}].pairs[0].value", n));
    // frames_raw never matters
    let mut b = a.clone();
    b.methods[mi].code.as_mut().unwrap().frames_raw.0.push((0, RawFrame::Same));
    assert_eq!(a, b);
}
