//! parse(encode(gen(seed), layout(seed))) == gen(seed); validate ok; layout independence.

use refclass::gen::{gen_big_jump_method, BigJumpKind};
use refclass::*;

fn seeds() -> u64 {
    std::env::var("REFCLASS_SEEDS").ok().and_then(|s| s.parse().ok()).unwrap_or(20_000)
}

fn cfg_for(seed: u64) -> GenCfg {
    match seed % 10 {
        0 => GenCfg::large(),
        1..=4 => GenCfg::small(),
        _ => GenCfg::default(),
    }
}

fn check(seed: u64, sem: &Sem, layout: &Layout) -> Vec<u8> {
    let enc = match encode(sem, layout) {
        Ok(e) => e,
        Err(e) => panic!("seed {}: encode failed: {}", seed, e),
    };
    let back = match parse(&enc.bytes) {
        Ok(s) => s,
        Err(e) => panic!("seed {}: parse failed: {} layout {:?}", seed, e, layout),
    };
    if let Some(p) = sem.diff(&back) {
        panic!("seed {}: roundtrip differs at {} (layout {:?})", seed, p, layout);
    }
    if let Err(v) = validate(&enc.bytes) {
        panic!("seed {}: validator complains: {:#?}", seed, v);
    }
    enc.bytes
}

#[test]
fn roundtrip_seeds() {
    let n = seeds();
    let mut total = 0usize;
    for seed in 0..n {
        let mut rng = SplitMix::new(seed);
        let sem = gen_class(&mut rng, &cfg_for(seed));
        let mut layout = gen_layout(&mut rng);
        layout.emit_map = seed % 16 == 0;
        total += check(seed, &sem, &layout).len();
    }
    eprintln!("roundtrip_seeds: {} seeds, {} bytes total", n, total);
}

#[test]
fn layout_independence() {
    let n = seeds() / 5;
    for seed in 0..n {
        let mut rng = SplitMix::new(seed ^ 0xabcdef);
        let sem = gen_class(&mut rng, &cfg_for(seed));
        let mut distinct = std::collections::HashSet::new();
        let mut l0 = Layout::default();
        l0.emit_map = false;
        distinct.insert(check(seed, &sem, &l0));
        for _ in 0..5 {
            let mut layout = gen_layout(&mut rng);
            layout.emit_map = false;
            distinct.insert(check(seed, &sem, &layout));
        }
        let _ = distinct;
    }
}

#[test]
fn offset_map_is_consistent() {
    for seed in 0..500u64 {
        let mut rng = SplitMix::new(seed ^ 0x77);
        let sem = gen_class(&mut rng, &cfg_for(seed));
        let layout = gen_layout(&mut rng);
        let enc = encode(&sem, &layout).unwrap();
        let cp_count = u16::from_be_bytes([enc.bytes[8], enc.bytes[9]]);
        let mut covered = vec![false; enc.bytes.len()];
        for s in &enc.map {
            assert!(s.start + s.len <= enc.bytes.len(), "seed {} span {:?} out of range", seed, s);
            let prim = matches!(
                s.kind,
                SpanKind::Count | SpanKind::Length | SpanKind::CpIndex | SpanKind::BranchOffset | SpanKind::CodeOffset | SpanKind::Tag | SpanKind::Flags | SpanKind::Opcode | SpanKind::Other
            );
            if prim {
                for c in &mut covered[s.start..s.start + s.len] {
                    assert!(!*c, "seed {}: byte covered twice by primitive spans ({})", seed, s.path);
                    *c = true;
                }
            }
            if s.kind == SpanKind::CpIndex {
                let v = if s.len == 1 { enc.bytes[s.start] as u16 } else { u16::from_be_bytes([enc.bytes[s.start], enc.bytes[s.start + 1]]) };
                assert!(v < cp_count, "seed {}: cp index {} >= count at {}", seed, v, s.path);
            }
            if let SpanKind::Attribute { .. } = s.kind {
                let len = u32::from_be_bytes([enc.bytes[s.start + 2], enc.bytes[s.start + 3], enc.bytes[s.start + 4], enc.bytes[s.start + 5]]) as usize;
                assert_eq!(len + 6, s.len, "seed {}: attribute span {}", seed, s.path);
            }
        }
        assert!(covered.iter().all(|c| *c), "seed {}: some byte not covered by a primitive span", seed);
        // paths unique
        let mut paths: Vec<(&str, &SpanKind)> = enc.map.iter().map(|s| (s.path.as_str(), &s.kind)).collect();
        let n = paths.len();
        paths.sort_by(|a, b| a.0.cmp(b.0).then(format!("{:?}", a.1).cmp(&format!("{:?}", b.1))));
        paths.dedup();
        assert_eq!(n, paths.len(), "seed {}: duplicate (path, kind) in map", seed);
    }
}

#[test]
fn big_jumps() {
    for seed in 0..40u64 {
        for kind in BigJumpKind::ALL {
            let mut rng = SplitMix::new(seed);
            let bj = gen_big_jump_method(&mut rng, kind);
            let mut layout = if seed % 2 == 0 { Layout::default() } else { gen_layout(&mut rng) };
            layout.emit_map = false;
            match encode(&bj.sem, &layout) {
                Ok(enc) => {
                    assert!(!bj.needs_trampoline, "{:?} {} encoded although marked needs_trampoline", kind, bj.note);
                    let back = parse(&enc.bytes).unwrap_or_else(|e| panic!("{:?} {}: {}", kind, bj.note, e));
                    assert_eq!(bj.sem.diff(&back), None, "{:?} {}", kind, bj.note);
                    validate(&enc.bytes).unwrap_or_else(|e| panic!("{:?} {}: {:?}", kind, bj.note, e));
                }
                Err(e) => {
                    // only conditional far branches may be refused (or goto_w forced by the
                    // layout pushing code over 65535 bytes)
                    if e.starts_with("needs-trampoline") {
                        assert!(bj.needs_trampoline || layout != Layout { emit_map: false, ..Layout::default() }, "{:?} {}: {}", kind, bj.note, e);
                    } else {
                        assert!(e.starts_with("code_length") && seed % 2 == 1, "{:?} {}: {}", kind, bj.note, e);
                    }
                }
            }
        }
    }
}
