//! The generator reaches every feature it is supposed to reach.
use refclass::sem::*;
use refclass::*;
use std::collections::BTreeSet;

#[test]
fn generator_coverage() {
    let mut opcodes = BTreeSet::new(); // opcode bytes seen in encoded code (incl. wide forms)
    let mut cp_tags = BTreeSet::new();
    let mut frame_types = BTreeSet::new();
    let mut ev_tags = BTreeSet::new();
    let mut targets = BTreeSet::new();
    let mut pads = BTreeSet::new();
    let mut attrs = BTreeSet::new();
    let mut majors = BTreeSet::new();
    let mut vtypes = BTreeSet::new();
    let mut empty_lookup = false;
    let mut end_eq_code_end = false;
    for seed in 0..6000u64 {
        let mut rng = SplitMix::new(seed);
        let cfg = if seed % 3 == 0 { GenCfg::large() } else { GenCfg::default() };
        let sem = gen_class(&mut rng, &cfg);
        let layout = gen_layout(&mut rng);
        majors.insert(sem.major);
        let enc = encode(&sem, &layout).unwrap();
        for s in &enc.map {
            let b = enc.bytes[s.start];
            match &s.kind {
                SpanKind::Opcode => {
                    opcodes.insert(b);
                }
                SpanKind::Tag if s.path.starts_with("cp[") && s.path.ends_with(".tag") => {
                    cp_tags.insert(b);
                }
                SpanKind::Tag if s.path.ends_with(".frame_type") => {
                    frame_types.insert(match b {
                        0..=63 => "same",
                        64..=127 => "same1",
                        247 => "same1x",
                        248..=250 => "chop",
                        251 => "samex",
                        252..=254 => "append",
                        _ => "full",
                    });
                }
                SpanKind::Tag if s.path.ends_with("value.tag") || s.path.ends_with("].tag") && s.path.contains("value") => {
                    ev_tags.insert(b as char);
                }
                SpanKind::Tag if s.path.ends_with(".target_type") => {
                    targets.insert(b);
                }
                SpanKind::Other if s.path.ends_with(".padding") => {
                    pads.insert(s.len);
                }
                SpanKind::Attribute { name } => {
                    attrs.insert(name.clone());
                }
                _ => {}
            }
            if s.path.ends_with(".padding") {
                pads.insert(s.len);
            }
        }
        for m in &sem.methods {
            if let Some(c) = &m.code {
                for i in &c.insns {
                    if let Insn::LookupSwitch { pairs, .. } = i {
                        empty_lookup |= pairs.is_empty();
                    }
                    if matches!(i, Insn::TableSwitch { .. } | Insn::LookupSwitch { .. }) {
                        pads.insert(0); // zero-length padding emits no span; count below
                    }
                }
                end_eq_code_end |= c.exceptions.iter().any(|e| e.end == c.insns.len());
                for f in &c.frames {
                    for v in f.locals.iter().chain(f.stack.iter()) {
                        vtypes.insert(format!("{:?}", v).split(|c| c == '(').next().unwrap().to_string());
                    }
                }
            }
        }
    }
    let missing: Vec<u8> = (0u8..=201).filter(|o| !opcodes.contains(o)).collect();
    assert!(missing.is_empty(), "opcodes never generated: {:?}", missing);
    assert_eq!(cp_tags, [1u8, 3, 4, 5, 6, 7, 8, 9, 10, 11, 12, 15, 16, 17, 18, 19, 20].into_iter().collect());
    assert_eq!(frame_types.len(), 7, "{:?}", frame_types);
    assert_eq!(ev_tags.len(), 13, "{:?}", ev_tags);
    let want_targets: BTreeSet<u8> = [0x00u8, 0x01, 0x10, 0x11, 0x12, 0x13, 0x14, 0x15, 0x16, 0x17, 0x40, 0x41, 0x42, 0x43, 0x44, 0x45, 0x46, 0x47, 0x48, 0x49, 0x4A, 0x4B].into_iter().collect();
    assert_eq!(targets, want_targets);
    assert_eq!(pads, [0usize, 1, 2, 3].into_iter().collect());
    assert_eq!(majors.len(), 23);
    assert_eq!(vtypes.len(), 9);
    assert!(empty_lookup && end_eq_code_end);
    for a in [
        "SourceFile", "SourceDebugExtension", "InnerClasses", "EnclosingMethod", "Signature", "Synthetic", "Deprecated",
        "RuntimeVisibleAnnotations", "RuntimeInvisibleAnnotations", "RuntimeVisibleTypeAnnotations", "RuntimeInvisibleTypeAnnotations",
        "RuntimeVisibleParameterAnnotations", "RuntimeInvisibleParameterAnnotations", "AnnotationDefault", "MethodParameters",
        "NestHost", "NestMembers", "PermittedSubclasses", "Record", "Module", "ModulePackages", "ModuleMainClass", "BootstrapMethods",
        "ConstantValue", "Code", "Exceptions", "LineNumberTable", "LocalVariableTable", "LocalVariableTypeTable", "StackMapTable",
    ] {
        assert!(attrs.contains(a), "attribute {} never generated", a);
    }
    assert!(attrs.iter().any(|a| a.starts_with("x.")), "no unknown attributes");
}
