//! Encoder: `Sem` + `Layout` -> bytes + offset map.
//!
//! Everything that is *not* a fact of the class (constant-pool order,
//! duplicates, attribute order, instruction encoding variants, frame
//! encodings, table splitting) is controlled by [`Layout`]. The encoder emits
//! what the `Sem` says, without version gating (the generator is responsible
//! for only using features legal for the version).

mod emit;
mod pool;

use crate::sem::Sem;
use crate::{Choice, SplitMix};

/// Constant-pool ordering strategy.
#[derive(Debug, Clone, Copy, PartialEq, Eq)]
pub enum CpOrder {
    /// In order of first use while writing the class top to bottom.
    FirstUse,
    /// Reverse of `FirstUse`.
    Reversed,
    /// Shuffled by `Layout::seed`.
    Shuffled,
}

/// StackMapTable frame encoding strategy. All denote the same expanded frames.
#[derive(Debug, Clone, Copy, PartialEq, Eq)]
pub enum FrameEnc {
    /// same / same_locals_1 / chop / append where applicable.
    Compact,
    /// Always full_frame.
    Full,
    /// Random choice among the applicable encodings per frame.
    Mixed,
    /// The frames travel in the older CLDC `StackMap` attribute (absolute offsets, every entry a full frame,
    /// entries in DESCENDING offset order: the format promises no order). `parse` does not model that attribute
    /// (it comes back as an unknown one); the encoding exists for checks that compare a reader with the model.
    Cldc,
}

/// Everything about a class file that is not a fact. `Layout::default()` is
/// the canonical compact layout (first-use pool, no duplicates, fixed
/// javac-like attribute order, shortest instruction forms, compact frames).
#[derive(Debug, Clone, PartialEq, Eq)]
pub struct Layout {
    /// Seed for all random decisions below.
    pub seed: u64,
    pub cp_order: CpOrder,
    /// Number of duplicate constant-pool entries to insert (uses pick any copy).
    pub cp_duplicates: u32,
    /// Number of extra unused constant-pool entries.
    pub cp_unused: u32,
    /// Duplicate BootstrapMethods entries (only if at least one is used).
    pub bsm_duplicates: u32,
    /// Shuffle attribute order at every level (class/field/method/code/record
    /// component). Relative order of unknown attributes and of the parts of a
    /// split table is always preserved.
    pub shuffle_attrs: bool,
    /// Percent: use `ldc_w` although `ldc` would fit.
    pub p_ldc_w: u32,
    /// Percent: use `xload n` although `xload_n` exists (index <= 3).
    pub p_local_explicit: u32,
    /// Percent: use `wide xload/xstore/ret n` although index <= 255.
    pub p_local_wide: u32,
    /// Percent: use `wide iinc` although the short form fits.
    pub p_iinc_wide: u32,
    /// Percent: use `goto_w`/`jsr_w` although the offset fits in 16 bits.
    pub p_goto_w: u32,
    pub frames: FrameEnc,
    /// Percent: use same_frame_extended / same_locals_1_stack_item_frame_extended
    /// although offset_delta <= 63.
    pub p_frame_extended: u32,
    /// Maximum number of LineNumberTable attributes to split into (>= 1).
    pub split_line_numbers: u32,
    /// Maximum number of LocalVariableTable / LocalVariableTypeTable attributes.
    pub split_local_vars: u32,
    /// When not shuffling: emit LocalVariable(Type)Table before LineNumberTable.
    pub lvt_before_lnt: bool,
    /// Record the offset map (turn off for bulk runs).
    pub emit_map: bool,
}

impl Default for Layout {
    fn default() -> Layout {
        Layout {
            seed: 0,
            cp_order: CpOrder::FirstUse,
            cp_duplicates: 0,
            cp_unused: 0,
            bsm_duplicates: 0,
            shuffle_attrs: false,
            p_ldc_w: 0,
            p_local_explicit: 0,
            p_local_wide: 0,
            p_iinc_wide: 0,
            p_goto_w: 0,
            frames: FrameEnc::Compact,
            p_frame_extended: 0,
            split_line_numbers: 1,
            split_local_vars: 1,
            lvt_before_lnt: false,
            emit_map: true,
        }
    }
}

/// What a span in the offset map is.
#[derive(Debug, Clone, PartialEq, Eq, Hash)]
pub enum SpanKind {
    // --- primitive fields (u8/u16/u32) ---
    /// A count of following items (`*_count`, `number_of_*`, `num_*`, npairs...).
    Count,
    /// A byte length (`attribute_length`, `code_length`, Utf8 `length`).
    Length,
    /// A constant-pool index (including ldc's one-byte index; may be 0 where optional).
    CpIndex,
    /// A relative branch / switch offset inside an instruction (i16 or i32).
    BranchOffset,
    /// A bytecode offset or bytecode range length outside instructions
    /// (start_pc, end_pc, handler_pc, length of a local variable range,
    /// offset_delta, Uninitialized offset, type-annotation offsets).
    CodeOffset,
    /// A discriminating tag (cp tag, element_value tag, frame_type,
    /// verification type tag, target_type, type_path_kind, reference_kind).
    Tag,
    /// An access-flags mask.
    Flags,
    /// An opcode byte (including the `wide` prefix and the modified opcode).
    Opcode,
    /// Any other primitive (magic, versions, immediates, max_stack, indices
    /// that are not cp indices, raw payload bytes).
    Other,
    // --- coarse structure ---
    /// constant_pool_count plus all entries.
    ConstantPool,
    /// One constant-pool entry (tag through last byte).
    CpEntry(u16),
    /// field_info i
    Field(usize),
    /// method_info i
    Method(usize),
    /// The Code attribute (name index through last byte) of method i.
    CodeAttr(usize),
    /// The `code` array of method i.
    CodeBytes(usize),
    /// Any attribute_info (name index through last byte).
    Attribute { name: String },
}

/// One entry of the offset map.
#[derive(Debug, Clone, PartialEq, Eq)]
pub struct FieldSpan {
    pub start: usize,
    pub len: usize,
    pub kind: SpanKind,
    /// Dotted path, e.g. `method[1].attr[0].Code.insn[3].cp_index`.
    pub path: String,
}

#[derive(Debug, Clone, PartialEq, Eq)]
pub struct Encoded {
    pub bytes: Vec<u8>,
    /// Offset map, in order of emission (primitive spans ascending by start;
    /// a structure span is pushed when the structure ends).
    pub map: Vec<FieldSpan>,
}

/// Encodes `sem` under `layout`. `Err` if the class cannot be represented
/// (pool overflow, code > 65535 bytes, a conditional branch that needs more
/// than 16 bits — message starts with `needs-trampoline:` —, counts that do
/// not fit their field, frames not strictly increasing, ...).
pub fn encode(sem: &Sem, layout: &Layout) -> Result<Encoded, String> {
    emit::Enc::run(sem, layout)
}

/// Byte writer with span recording and a path stack.
pub(crate) struct W {
    pub buf: Vec<u8>,
    pub map: Vec<FieldSpan>,
    pub on: bool,
    pub path: String,
}

impl W {
    pub fn new(on: bool) -> W {
        W { buf: Vec::new(), map: Vec::new(), on, path: String::new() }
    }
    pub fn pos(&self) -> usize {
        self.buf.len()
    }
    /// Pushes `name` onto the path; returns the token for [`W::leave`].
    pub fn enter(&mut self, name: &str) -> usize {
        let l = self.path.len();
        if self.on {
            if !self.path.is_empty() {
                self.path.push('.');
            }
            self.path.push_str(name);
        }
        l
    }
    pub fn enter_i(&mut self, name: &str, i: usize) -> usize {
        let l = self.path.len();
        if self.on {
            if !self.path.is_empty() {
                self.path.push('.');
            }
            self.path.push_str(name);
            self.path.push('[');
            self.path.push_str(&i.to_string());
            self.path.push(']');
        }
        l
    }
    pub fn leave(&mut self, token: usize) {
        self.path.truncate(token);
    }
    fn rec(&mut self, start: usize, len: usize, kind: SpanKind, name: &str) {
        if self.on {
            let path = if name.is_empty() {
                self.path.clone()
            } else if self.path.is_empty() {
                name.to_string()
            } else {
                format!("{}.{}", self.path, name)
            };
            self.map.push(FieldSpan { start, len, kind, path });
        }
    }
    /// Records a structure span from `start` to the current position under
    /// the current path.
    pub fn span(&mut self, start: usize, kind: SpanKind) {
        let len = self.buf.len() - start;
        self.rec(start, len, kind, "");
    }
    pub fn u8(&mut self, kind: SpanKind, name: &str, v: u8) {
        let p = self.buf.len();
        self.buf.push(v);
        self.rec(p, 1, kind, name);
    }
    pub fn u16(&mut self, kind: SpanKind, name: &str, v: u16) {
        let p = self.buf.len();
        self.buf.extend_from_slice(&v.to_be_bytes());
        self.rec(p, 2, kind, name);
    }
    pub fn u32(&mut self, kind: SpanKind, name: &str, v: u32) {
        let p = self.buf.len();
        self.buf.extend_from_slice(&v.to_be_bytes());
        self.rec(p, 4, kind, name);
    }
    pub fn bytes(&mut self, kind: SpanKind, name: &str, b: &[u8]) {
        let p = self.buf.len();
        self.buf.extend_from_slice(b);
        if !b.is_empty() {
            self.rec(p, b.len(), kind, name);
        }
    }
    pub fn patch_u32(&mut self, at: usize, v: u32) {
        self.buf[at..at + 4].copy_from_slice(&v.to_be_bytes());
    }
}

pub(crate) fn roll(rng: &mut SplitMix, pct: u32) -> bool {
    pct > 0 && rng.below(100) < pct as u64
}

pub(crate) fn shuffle<T>(rng: &mut SplitMix, v: &mut [T]) {
    let n = v.len();
    for i in (1..n).rev() {
        let j = rng.below(i as u64 + 1) as usize;
        v.swap(i, j);
    }
}
