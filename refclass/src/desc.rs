//! Descriptor and name syntax (JVMS 4.2, 4.3).

/// A parsed field type: `dims` leading `[` then a base type.
#[derive(Debug, Clone, PartialEq, Eq)]
pub struct FieldTy {
    pub dims: usize,
    pub base: Base,
}

#[derive(Debug, Clone, PartialEq, Eq)]
pub enum Base {
    Byte,
    Char,
    Double,
    Float,
    Int,
    Long,
    Short,
    Boolean,
    /// Internal (slash separated) binary class name, raw MUTF-8 bytes.
    Object(Vec<u8>),
}

impl FieldTy {
    /// Number of local-variable / operand-stack slots (category).
    pub fn slots(&self) -> usize {
        if self.dims == 0 && matches!(self.base, Base::Long | Base::Double) {
            2
        } else {
            1
        }
    }
}

fn parse_one(b: &[u8], mut i: usize) -> Option<(FieldTy, usize)> {
    let mut dims = 0usize;
    while *b.get(i)? == b'[' {
        dims += 1;
        if dims > 255 {
            return None;
        }
        i += 1;
    }
    let base = match *b.get(i)? {
        b'B' => Base::Byte,
        b'C' => Base::Char,
        b'D' => Base::Double,
        b'F' => Base::Float,
        b'I' => Base::Int,
        b'J' => Base::Long,
        b'S' => Base::Short,
        b'Z' => Base::Boolean,
        b'L' => {
            let start = i + 1;
            let mut j = start;
            while *b.get(j)? != b';' {
                j += 1;
            }
            let name = &b[start..j];
            if !is_binary_class_name(name) {
                return None;
            }
            return Some((FieldTy { dims, base: Base::Object(name.to_vec()) }, j + 1));
        }
        _ => return None,
    };
    Some((FieldTy { dims, base }, i + 1))
}

/// Parses a complete field descriptor.
pub fn parse_field_desc(b: &[u8]) -> Option<FieldTy> {
    let (t, n) = parse_one(b, 0)?;
    if n == b.len() {
        Some(t)
    } else {
        None
    }
}

/// Parses a complete method descriptor; the return type is `None` for `V`.
pub fn parse_method_desc(b: &[u8]) -> Option<(Vec<FieldTy>, Option<FieldTy>)> {
    if *b.first()? != b'(' {
        return None;
    }
    let mut i = 1;
    let mut params = Vec::new();
    while *b.get(i)? != b')' {
        let (t, n) = parse_one(b, i)?;
        params.push(t);
        i = n;
    }
    i += 1;
    if b.get(i) == Some(&b'V') && i + 1 == b.len() {
        return Some((params, None));
    }
    let (t, n) = parse_one(b, i)?;
    if n != b.len() {
        return None;
    }
    Some((params, Some(t)))
}

/// Sum of parameter slots (longs and doubles count two), without `this`.
pub fn method_arg_slots(b: &[u8]) -> Option<usize> {
    let (p, _) = parse_method_desc(b)?;
    Some(p.iter().map(|t| t.slots()).sum())
}

/// Unqualified name (JVMS 4.2.2): non-empty, none of `. ; [ /`.
pub fn is_unqualified_name(b: &[u8]) -> bool {
    !b.is_empty() && !b.iter().any(|c| matches!(c, b'.' | b';' | b'[' | b'/'))
}

/// Method name: unqualified and additionally no `<` `>` unless it is
/// `<init>` or `<clinit>`.
pub fn is_method_name(b: &[u8]) -> bool {
    if b == b"<init>" || b == b"<clinit>" {
        return true;
    }
    is_unqualified_name(b) && !b.iter().any(|c| matches!(c, b'<' | b'>'))
}

/// Binary class or interface name in internal form: unqualified names
/// separated by `/`.
pub fn is_binary_class_name(b: &[u8]) -> bool {
    !b.is_empty() && b.split(|c| *c == b'/').all(is_unqualified_name)
}

/// What a `CONSTANT_Class_info` may name: a binary class name or an array
/// descriptor (at most 255 dimensions).
pub fn is_class_entry_name(b: &[u8]) -> bool {
    if b.first() == Some(&b'[') {
        parse_field_desc(b).is_some()
    } else {
        is_binary_class_name(b)
    }
}

/// Module name (JVMS 4.2.3): no code point in U+0000..U+001F; `\` escapes
/// `\`, `:` and `@`; unescaped `:` and `@` are forbidden. Non-empty.
pub fn is_module_name(b: &[u8]) -> bool {
    if b.is_empty() {
        return false;
    }
    let mut i = 0;
    while i < b.len() {
        let c = b[i];
        // NUL is C0 80 in MUTF-8
        if c < 0x20 || (c == 0xC0 && b.get(i + 1) == Some(&0x80)) {
            return false;
        }
        if c == b'\\' {
            match b.get(i + 1) {
                Some(b'\\') | Some(b':') | Some(b'@') => i += 2,
                _ => return false,
            }
            continue;
        }
        if c == b':' || c == b'@' {
            return false;
        }
        i += 1;
    }
    true
}

#[cfg(test)]
mod tests {
    use super::*;
    #[test]
    fn descs() {
        assert!(parse_field_desc(b"I").is_some());
        assert!(parse_field_desc(b"[[Ljava/lang/String;").is_some());
        assert!(parse_field_desc(b"Ljava/lang/String").is_none());
        assert!(parse_field_desc(b"L;").is_none());
        assert!(parse_field_desc(b"V").is_none());
        assert!(parse_field_desc(b"II").is_none());
        assert_eq!(method_arg_slots(b"(IJ[DLx;)V"), Some(5));
        assert!(parse_method_desc(b"()").is_none());
        assert!(parse_method_desc(b"(V)V").is_none());
        assert!(parse_method_desc(b"()[V").is_none());
        assert!(is_method_name(b"<init>"));
        assert!(!is_method_name(b"<x>"));
        assert!(is_class_entry_name(b"[I"));
        assert!(!is_class_entry_name(b"a//b"));
    }
}
