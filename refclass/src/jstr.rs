//! Class-file "modified UTF-8" strings (JVMS 4.4.7).
//!
//! A `JStr` stores the raw bytes of a `CONSTANT_Utf8_info` exactly as they are
//! in the class file. Well-formed MUTF-8 encodes a sequence of UTF-16 code
//! units: U+0000 as `C0 80`, U+0001..U+007F as one byte, U+0080..U+07FF as two
//! bytes, U+0800..U+FFFF (including every surrogate, paired or not) as three
//! bytes. Supplementary characters are therefore six bytes (a surrogate pair).

use std::fmt;

#[derive(Clone, PartialEq, Eq, Hash, PartialOrd, Ord, Default)]
pub struct JStr(pub Vec<u8>);

impl JStr {
    pub fn new() -> JStr {
        JStr(Vec::new())
    }

    /// Raw MUTF-8 bytes.
    pub fn as_bytes(&self) -> &[u8] {
        &self.0
    }

    pub fn from_bytes(b: &[u8]) -> JStr {
        JStr(b.to_vec())
    }

    /// Encodes a Rust string (NUL -> C0 80, supplementary -> surrogate pair).
    pub fn from_str(s: &str) -> JStr {
        let mut units = Vec::with_capacity(s.len());
        for ch in s.chars() {
            let mut buf = [0u16; 2];
            units.extend_from_slice(ch.encode_utf16(&mut buf));
        }
        JStr::from_utf16(&units)
    }

    /// Encodes arbitrary UTF-16 code units (unpaired surrogates survive).
    pub fn from_utf16(units: &[u16]) -> JStr {
        let mut out = Vec::with_capacity(units.len());
        for &u in units {
            push_unit(&mut out, u);
        }
        JStr(out)
    }

    /// Encodes a sequence of code points; values in D800..=DFFF are encoded
    /// as single (unpaired) surrogate units, values > 0xFFFF as a pair.
    /// Values above 0x10FFFF are rejected.
    pub fn from_code_points<I: IntoIterator<Item = u32>>(cps: I) -> Option<JStr> {
        let mut out = Vec::new();
        for cp in cps {
            if cp <= 0xFFFF {
                push_unit(&mut out, cp as u16);
            } else if cp <= 0x10FFFF {
                let v = cp - 0x10000;
                push_unit(&mut out, 0xD800 + (v >> 10) as u16);
                push_unit(&mut out, 0xDC00 + (v & 0x3FF) as u16);
            } else {
                return None;
            }
        }
        Some(JStr(out))
    }

    /// Decodes to UTF-16 code units. `None` if the bytes are not well-formed
    /// MUTF-8 (a zero byte, a byte in F0..FF, an overlong form other than
    /// C0 80, a truncated sequence, or a bad continuation byte).
    pub fn to_utf16(&self) -> Option<Vec<u16>> {
        let b = &self.0;
        let mut out = Vec::with_capacity(b.len());
        let mut i = 0;
        while i < b.len() {
            let x = b[i];
            if x == 0 || x >= 0xF0 {
                return None;
            }
            if x < 0x80 {
                out.push(x as u16);
                i += 1;
            } else if x & 0xE0 == 0xC0 {
                let y = *b.get(i + 1)?;
                if y & 0xC0 != 0x80 {
                    return None;
                }
                let v = (((x & 0x1F) as u16) << 6) | (y & 0x3F) as u16;
                if v < 0x80 && v != 0 {
                    return None; // overlong
                }
                out.push(v);
                i += 2;
            } else if x & 0xF0 == 0xE0 {
                let y = *b.get(i + 1)?;
                let z = *b.get(i + 2)?;
                if y & 0xC0 != 0x80 || z & 0xC0 != 0x80 {
                    return None;
                }
                let v = (((x & 0x0F) as u16) << 12) | (((y & 0x3F) as u16) << 6) | (z & 0x3F) as u16;
                if v < 0x800 {
                    return None; // overlong
                }
                out.push(v);
                i += 3;
            } else {
                return None; // stray continuation byte
            }
        }
        Some(out)
    }

    pub fn is_well_formed(&self) -> bool {
        self.to_utf16().is_some()
    }

    /// `Some` if the string decodes and contains no unpaired surrogates.
    pub fn to_str(&self) -> Option<String> {
        String::from_utf16(&self.to_utf16()?).ok()
    }

    /// Lossy, for debugging: unpaired surrogates and malformed bytes are
    /// shown as `\u{XXXX}` / `\xNN` escapes, NUL as `\0`.
    pub fn to_string_lossy(&self) -> String {
        let mut s = String::new();
        match self.to_utf16() {
            Some(units) => {
                for r in char::decode_utf16(units.iter().copied()) {
                    match r {
                        Ok('\0') => s.push_str("\\0"),
                        Ok('\\') => s.push_str("\\\\"),
                        Ok(c) if (c as u32) < 0x20 || c as u32 == 0x7F => {
                            s.push_str(&format!("\\u{{{:04X}}}", c as u32))
                        }
                        Ok(c) => s.push(c),
                        Err(e) => s.push_str(&format!("\\u{{{:04X}}}", e.unpaired_surrogate())),
                    }
                }
            }
            None => {
                for &b in &self.0 {
                    if (0x20..0x7F).contains(&b) && b != b'\\' {
                        s.push(b as char);
                    } else {
                        s.push_str(&format!("\\x{:02X}", b));
                    }
                }
            }
        }
        s
    }

    pub fn len(&self) -> usize {
        self.0.len()
    }
    pub fn is_empty(&self) -> bool {
        self.0.is_empty()
    }
}

fn push_unit(out: &mut Vec<u8>, u: u16) {
    if u != 0 && u < 0x80 {
        out.push(u as u8);
    } else if u < 0x800 {
        out.push(0xC0 | (u >> 6) as u8);
        out.push(0x80 | (u & 0x3F) as u8);
    } else {
        out.push(0xE0 | (u >> 12) as u8);
        out.push(0x80 | ((u >> 6) & 0x3F) as u8);
        out.push(0x80 | (u & 0x3F) as u8);
    }
}

impl fmt::Display for JStr {
    fn fmt(&self, f: &mut fmt::Formatter<'_>) -> fmt::Result {
        f.write_str(&self.to_string_lossy())
    }
}

impl fmt::Debug for JStr {
    fn fmt(&self, f: &mut fmt::Formatter<'_>) -> fmt::Result {
        write!(f, "j\"{}\"", self.to_string_lossy())
    }
}

impl From<&str> for JStr {
    fn from(s: &str) -> JStr {
        JStr::from_str(s)
    }
}

#[cfg(test)]
mod tests {
    use super::*;

    #[test]
    fn roundtrip() {
        let s = "a\0\u{7f}\u{80}\u{7ff}\u{800}\u{ffff}\u{10000}\u{10ffff}$";
        let j = JStr::from_str(s);
        assert_eq!(j.to_str().unwrap(), s);
        assert!(!j.0.contains(&0));
        assert_eq!(&j.0[1..3], &[0xC0, 0x80]);
    }

    #[test]
    fn lone_surrogate() {
        let j = JStr::from_utf16(&[0x41, 0xD800, 0x42]);
        assert_eq!(j.to_utf16().unwrap(), vec![0x41, 0xD800, 0x42]);
        assert!(j.to_str().is_none());
        assert_eq!(j.to_string_lossy(), "A\\u{D800}B");
    }

    #[test]
    fn malformed() {
        assert!(!JStr(vec![0]).is_well_formed());
        assert!(!JStr(vec![0xF0, 0x90, 0x80, 0x80]).is_well_formed());
        assert!(!JStr(vec![0xC1, 0x80]).is_well_formed());
        assert!(!JStr(vec![0xE0, 0x80, 0x80]).is_well_formed());
        assert!(!JStr(vec![0xE1, 0x80]).is_well_formed());
        assert!(!JStr(vec![0x80]).is_well_formed());
    }
}
