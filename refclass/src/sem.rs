//! The semantic model: exactly the *facts* a class file states, independent of
//! constant-pool layout, attribute order and instruction-encoding variants.
//!
//! Conventions
//! * Every bytecode offset is an **instruction index** into `Code::insns`;
//!   `insns.len()` denotes "end of code" where JVMS allows `code_length`.
//! * Floats/doubles are raw IEEE bit patterns (`u32` / `u64`) so NaN payloads
//!   and -0.0 are preserved and `Eq`/`Hash` are exact.
//! * Access flags are raw `u16` masks.
//! * List-valued attributes that JVMS allows at most once are `Option<Vec<_>>`
//!   where presence-with-zero-entries differs observably from absence
//!   (InnerClasses, NestMembers, PermittedSubclasses, Record, Exceptions,
//!   MethodParameters, ModulePackages, parameter annotations). Annotation /
//!   type-annotation lists, LineNumberTable, LocalVariable(Type)Table,
//!   StackMapTable and the exception table are plain `Vec`s: an attribute with
//!   zero entries is the same fact as no attribute.

use crate::desc;
use crate::jstr::JStr;
use crate::op;

/// Wrapper whose `PartialEq`/`Hash` ignore the content. Used for
/// `Code::frames_raw`, which is informational only.
#[derive(Debug, Clone, Default)]
pub struct NotCompared<T>(pub T);
impl<T> PartialEq for NotCompared<T> {
    fn eq(&self, _: &Self) -> bool {
        true
    }
}
impl<T> Eq for NotCompared<T> {}
impl<T> std::hash::Hash for NotCompared<T> {
    fn hash<H: std::hash::Hasher>(&self, _: &mut H) {}
}

#[derive(Debug, Clone, PartialEq, Eq, Hash, Default)]
pub struct Sem {
    pub minor: u16,
    pub major: u16,
    pub access: u16,
    pub this_class: JStr,
    pub super_class: Option<JStr>,
    pub interfaces: Vec<JStr>,
    pub fields: Vec<Field>,
    pub methods: Vec<Method>,

    pub source_file: Option<JStr>,
    pub source_debug_extension: Option<Vec<u8>>,
    pub inner_classes: Option<Vec<InnerClass>>,
    pub enclosing_method: Option<EnclosingMethod>,
    pub signature: Option<JStr>,
    pub synthetic: bool,
    pub deprecated: bool,
    pub annotations: Annotations,
    pub type_annotations: TypeAnnotations,
    pub nest_host: Option<JStr>,
    pub nest_members: Option<Vec<JStr>>,
    pub permitted_subclasses: Option<Vec<JStr>>,
    pub record: Option<Vec<RecordComponent>>,
    pub module: Option<Module>,
    pub module_packages: Option<Vec<JStr>>,
    pub module_main_class: Option<JStr>,
    /// Attributes not recognised at class level, in file order.
    pub unknown: Vec<UnknownAttr>,
}

#[derive(Debug, Clone, PartialEq, Eq, Hash, Default)]
pub struct UnknownAttr {
    pub name: JStr,
    pub bytes: Vec<u8>,
}

#[derive(Debug, Clone, PartialEq, Eq, Hash, Default)]
pub struct Annotations {
    /// RuntimeVisibleAnnotations
    pub visible: Vec<Annotation>,
    /// RuntimeInvisibleAnnotations
    pub invisible: Vec<Annotation>,
}

#[derive(Debug, Clone, PartialEq, Eq, Hash, Default)]
pub struct TypeAnnotations {
    /// RuntimeVisibleTypeAnnotations
    pub visible: Vec<TypeAnnotation>,
    /// RuntimeInvisibleTypeAnnotations
    pub invisible: Vec<TypeAnnotation>,
}

#[derive(Debug, Clone, PartialEq, Eq, Hash, Default)]
pub struct ParamAnnotations {
    /// RuntimeVisibleParameterAnnotations: one list per parameter.
    pub visible: Option<Vec<Vec<Annotation>>>,
    /// RuntimeInvisibleParameterAnnotations
    pub invisible: Option<Vec<Vec<Annotation>>>,
}

#[derive(Debug, Clone, PartialEq, Eq, Hash, Default)]
pub struct Field {
    pub access: u16,
    pub name: JStr,
    pub desc: JStr,
    pub constant_value: Option<ConstValue>,
    pub signature: Option<JStr>,
    pub synthetic: bool,
    pub deprecated: bool,
    pub annotations: Annotations,
    pub type_annotations: TypeAnnotations,
    pub unknown: Vec<UnknownAttr>,
}

/// ConstantValue attribute, typed by the constant-pool tag it refers to.
#[derive(Debug, Clone, PartialEq, Eq, Hash)]
pub enum ConstValue {
    Int(i32),
    Float(u32),
    Long(i64),
    Double(u64),
    String(JStr),
}

#[derive(Debug, Clone, PartialEq, Eq, Hash, Default)]
pub struct Method {
    pub access: u16,
    pub name: JStr,
    pub desc: JStr,
    pub code: Option<Code>,
    /// Exceptions attribute (class names).
    pub exceptions: Option<Vec<JStr>>,
    pub method_parameters: Option<Vec<MethodParameter>>,
    pub annotation_default: Option<ElementValue>,
    pub parameter_annotations: ParamAnnotations,
    pub annotations: Annotations,
    pub type_annotations: TypeAnnotations,
    pub signature: Option<JStr>,
    pub synthetic: bool,
    pub deprecated: bool,
    pub unknown: Vec<UnknownAttr>,
}

#[derive(Debug, Clone, PartialEq, Eq, Hash, Default)]
pub struct MethodParameter {
    /// `None` when name_index is 0.
    pub name: Option<JStr>,
    pub access: u16,
}

#[derive(Debug, Clone, PartialEq, Eq, Hash, Default)]
pub struct Code {
    pub max_stack: u16,
    pub max_locals: u16,
    pub insns: Vec<Insn>,
    pub exceptions: Vec<ExceptionEntry>,
    /// Concatenation of all LineNumberTable attributes in file order.
    pub line_numbers: Vec<LineNumber>,
    /// Concatenation of all LocalVariableTable attributes in file order.
    pub local_vars: Vec<LocalVar>,
    /// Concatenation of all LocalVariableTypeTable attributes in file order
    /// (`desc` holds the signature).
    pub local_var_types: Vec<LocalVar>,
    /// StackMapTable, expanded: every frame lists its complete locals and
    /// stack. Expansion starts from the method's *real* initial frame
    /// ([`initial_locals`]); if the method descriptor is malformed the
    /// initial locals are taken as empty.
    pub frames: Vec<Frame>,
    /// The frames as encoded (delta level). Never compared.
    pub frames_raw: NotCompared<Vec<(usize, RawFrame)>>,
    pub type_annotations: TypeAnnotations,
    pub unknown: Vec<UnknownAttr>,
}

#[derive(Debug, Clone, PartialEq, Eq, Hash, Default)]
pub struct ExceptionEntry {
    pub start: usize,
    /// May equal `insns.len()`.
    pub end: usize,
    pub handler: usize,
    /// `None` = catch_type 0 (any).
    pub catch_type: Option<JStr>,
}

#[derive(Debug, Clone, PartialEq, Eq, Hash, Default)]
pub struct LineNumber {
    pub at: usize,
    pub line: u16,
}

#[derive(Debug, Clone, PartialEq, Eq, Hash, Default)]
pub struct LocalVar {
    pub start: usize,
    /// Exclusive; may equal `insns.len()`. (`start_pc + length` in the file.)
    pub end: usize,
    pub name: JStr,
    /// Descriptor (LocalVariableTable) or signature (LocalVariableTypeTable).
    pub desc: JStr,
    pub slot: u16,
}

#[derive(Debug, Clone, PartialEq, Eq, Hash)]
pub enum VType {
    Top,
    Integer,
    Float,
    Long,
    Double,
    Null,
    UninitializedThis,
    Object(JStr),
    /// Instruction index of the `new` that created the object.
    Uninitialized(usize),
}

#[derive(Debug, Clone, PartialEq, Eq, Hash, Default)]
pub struct Frame {
    pub at: usize,
    pub locals: Vec<VType>,
    pub stack: Vec<VType>,
}

/// Frame as encoded. `same_frame` / `same_frame_extended` are both `Same`;
/// `same_locals_1_stack_item_frame(_extended)` are both `SameLocals1`.
#[derive(Debug, Clone, PartialEq, Eq, Hash)]
pub enum RawFrame {
    Same,
    SameLocals1(VType),
    /// k in 1..=3
    Chop(u8),
    /// 1..=3 additional locals
    Append(Vec<VType>),
    Full { locals: Vec<VType>, stack: Vec<VType> },
}

/// Local-variable type kind of `xload`/`xstore`.
#[derive(Debug, Clone, Copy, PartialEq, Eq, Hash)]
pub enum LocalKind {
    I,
    L,
    F,
    D,
    A,
}

impl LocalKind {
    pub const ALL: [LocalKind; 5] = [LocalKind::I, LocalKind::L, LocalKind::F, LocalKind::D, LocalKind::A];
    pub fn ordinal(self) -> u8 {
        match self {
            LocalKind::I => 0,
            LocalKind::L => 1,
            LocalKind::F => 2,
            LocalKind::D => 3,
            LocalKind::A => 4,
        }
    }
    pub fn from_ordinal(n: u8) -> Option<LocalKind> {
        LocalKind::ALL.get(n as usize).copied()
    }
    pub fn letter(self) -> char {
        ['i', 'l', 'f', 'd', 'a'][self.ordinal() as usize]
    }
}

#[derive(Debug, Clone, Copy, PartialEq, Eq, Hash)]
pub enum FieldOp {
    GetStatic,
    PutStatic,
    GetField,
    PutField,
}
impl FieldOp {
    pub const ALL: [FieldOp; 4] = [FieldOp::GetStatic, FieldOp::PutStatic, FieldOp::GetField, FieldOp::PutField];
    pub fn opcode(self) -> u8 {
        match self {
            FieldOp::GetStatic => op::GETSTATIC,
            FieldOp::PutStatic => op::PUTSTATIC,
            FieldOp::GetField => op::GETFIELD,
            FieldOp::PutField => op::PUTFIELD,
        }
    }
}

#[derive(Debug, Clone, Copy, PartialEq, Eq, Hash)]
pub enum InvokeOp {
    Virtual,
    Special,
    Static,
    Interface,
}
impl InvokeOp {
    pub const ALL: [InvokeOp; 4] = [InvokeOp::Virtual, InvokeOp::Special, InvokeOp::Static, InvokeOp::Interface];
    pub fn opcode(self) -> u8 {
        match self {
            InvokeOp::Virtual => op::INVOKEVIRTUAL,
            InvokeOp::Special => op::INVOKESPECIAL,
            InvokeOp::Static => op::INVOKESTATIC,
            InvokeOp::Interface => op::INVOKEINTERFACE,
        }
    }
}

/// `newarray` element type, by atype code (JVMS newarray): 4..=11.
#[derive(Debug, Clone, Copy, PartialEq, Eq, Hash)]
pub enum PrimType {
    Boolean = 4,
    Char = 5,
    Float = 6,
    Double = 7,
    Byte = 8,
    Short = 9,
    Int = 10,
    Long = 11,
}
impl PrimType {
    pub const ALL: [PrimType; 8] = [
        PrimType::Boolean,
        PrimType::Char,
        PrimType::Float,
        PrimType::Double,
        PrimType::Byte,
        PrimType::Short,
        PrimType::Int,
        PrimType::Long,
    ];
    pub fn atype(self) -> u8 {
        self as u8
    }
    pub fn from_atype(a: u8) -> Option<PrimType> {
        if (4..=11).contains(&a) {
            Some(PrimType::ALL[(a - 4) as usize])
        } else {
            None
        }
    }
    pub fn name(self) -> &'static str {
        ["boolean", "char", "float", "double", "byte", "short", "int", "long"][(self as u8 - 4) as usize]
    }
}

/// A Fieldref / Methodref / InterfaceMethodref by value.
#[derive(Debug, Clone, PartialEq, Eq, Hash, Default)]
pub struct MemberRef {
    /// Class entry name: internal class name or array descriptor.
    pub owner: JStr,
    pub name: JStr,
    pub desc: JStr,
    /// True iff the constant is an InterfaceMethodref. Always false for fields.
    pub is_interface: bool,
}

/// CONSTANT_MethodHandle by value. `kind` is the reference_kind 1..=9:
/// 1 getField, 2 getStatic, 3 putField, 4 putStatic (member is a Fieldref);
/// 5 invokeVirtual, 6 invokeStatic, 7 invokeSpecial, 8 newInvokeSpecial,
/// 9 invokeInterface (member is a Methodref or InterfaceMethodref according
/// to `member.is_interface`).
#[derive(Debug, Clone, PartialEq, Eq, Hash)]
pub struct Handle {
    pub kind: u8,
    pub member: MemberRef,
}

/// A loadable constant by value (operand of ldc/ldc_w/ldc2_w, bootstrap
/// argument).
#[derive(Debug, Clone, PartialEq, Eq, Hash)]
pub enum Const {
    Int(i32),
    Float(u32),
    Long(i64),
    Double(u64),
    String(JStr),
    Class(JStr),
    MethodType(JStr),
    MethodHandle(Handle),
    Dynamic(Box<Dynamic>),
}

impl Const {
    /// True if the constant occupies two stack slots, i.e. must be loaded by
    /// `ldc2_w`: Long, Double, or Dynamic with descriptor `J` / `D`.
    pub fn is_wide(&self) -> bool {
        match self {
            Const::Long(_) | Const::Double(_) => true,
            Const::Dynamic(d) => d.desc.as_bytes() == b"J" || d.desc.as_bytes() == b"D",
            _ => false,
        }
    }
    pub fn kind_name(&self) -> &'static str {
        match self {
            Const::Int(_) => "Int",
            Const::Float(_) => "Float",
            Const::Long(_) => "Long",
            Const::Double(_) => "Double",
            Const::String(_) => "String",
            Const::Class(_) => "Class",
            Const::MethodType(_) => "MethodType",
            Const::MethodHandle(_) => "MethodHandle",
            Const::Dynamic(_) => "Dynamic",
        }
    }
}

/// CONSTANT_Dynamic or CONSTANT_InvokeDynamic by value: the bootstrap method
/// (resolved out of the BootstrapMethods attribute) plus name and descriptor.
#[derive(Debug, Clone, PartialEq, Eq, Hash)]
pub struct Dynamic {
    pub bsm: Handle,
    pub args: Vec<Const>,
    pub name: JStr,
    pub desc: JStr,
}

#[derive(Debug, Clone, PartialEq, Eq, Hash)]
pub enum Insn {
    /// An operand-less opcode for which [`op::is_simple`] holds.
    Simple(u8),
    BiPush(i8),
    SiPush(i16),
    /// ldc / ldc_w / ldc2_w. Which one is determined by [`Const::is_wide`]
    /// and the pool index, not a fact.
    Ldc(Const),
    /// xload, xload_n, wide xload
    Load(LocalKind, u16),
    /// xstore, xstore_n, wide xstore
    Store(LocalKind, u16),
    /// iinc, wide iinc
    Iinc(u16, i16),
    /// ret, wide ret
    Ret(u16),
    /// Conditional branch: opcode (see [`op::is_cond_branch`]) and target.
    Branch(u8, usize),
    /// goto, goto_w
    Goto(usize),
    /// jsr, jsr_w
    Jsr(usize),
    /// `high = low + targets.len() - 1`; `targets` is non-empty.
    TableSwitch { default: usize, low: i32, targets: Vec<usize> },
    LookupSwitch { default: usize, pairs: Vec<(i32, usize)> },
    Field(FieldOp, MemberRef),
    Invoke(InvokeOp, MemberRef),
    InvokeDynamic(Box<Dynamic>),
    New(JStr),
    NewArray(PrimType),
    ANewArray(JStr),
    CheckCast(JStr),
    InstanceOf(JStr),
    MultiANewArray(JStr, u8),
}

impl Insn {
    /// The mnemonic of the canonical (non-wide, non-shortened) form.
    pub fn mnemonic(&self) -> String {
        match self {
            Insn::Simple(o) | Insn::Branch(o, _) => op::name(*o).to_string(),
            Insn::BiPush(_) => "bipush".into(),
            Insn::SiPush(_) => "sipush".into(),
            Insn::Ldc(c) => if c.is_wide() { "ldc2_w".into() } else { "ldc".into() },
            Insn::Load(k, _) => format!("{}load", k.letter()),
            Insn::Store(k, _) => format!("{}store", k.letter()),
            Insn::Iinc(..) => "iinc".into(),
            Insn::Ret(_) => "ret".into(),
            Insn::Goto(_) => "goto".into(),
            Insn::Jsr(_) => "jsr".into(),
            Insn::TableSwitch { .. } => "tableswitch".into(),
            Insn::LookupSwitch { .. } => "lookupswitch".into(),
            Insn::Field(o, _) => op::name(o.opcode()).into(),
            Insn::Invoke(o, _) => op::name(o.opcode()).into(),
            Insn::InvokeDynamic(_) => "invokedynamic".into(),
            Insn::New(_) => "new".into(),
            Insn::NewArray(_) => "newarray".into(),
            Insn::ANewArray(_) => "anewarray".into(),
            Insn::CheckCast(_) => "checkcast".into(),
            Insn::InstanceOf(_) => "instanceof".into(),
            Insn::MultiANewArray(..) => "multianewarray".into(),
        }
    }

    /// All instruction indices this instruction may transfer control to
    /// explicitly (branch / switch targets).
    pub fn targets(&self) -> Vec<usize> {
        match self {
            Insn::Branch(_, t) | Insn::Goto(t) | Insn::Jsr(t) => vec![*t],
            Insn::TableSwitch { default, targets, .. } => {
                let mut v = vec![*default];
                v.extend_from_slice(targets);
                v
            }
            Insn::LookupSwitch { default, pairs } => {
                let mut v = vec![*default];
                v.extend(pairs.iter().map(|p| p.1));
                v
            }
            _ => Vec::new(),
        }
    }
}

#[derive(Debug, Clone, PartialEq, Eq, Hash, Default)]
pub struct InnerClass {
    pub inner: JStr,
    pub outer: Option<JStr>,
    pub inner_name: Option<JStr>,
    pub access: u16,
}

#[derive(Debug, Clone, PartialEq, Eq, Hash, Default)]
pub struct EnclosingMethod {
    pub class: JStr,
    /// (name, descriptor) of the NameAndType, `None` when method_index is 0.
    pub method: Option<(JStr, JStr)>,
}

#[derive(Debug, Clone, PartialEq, Eq, Hash, Default)]
pub struct RecordComponent {
    pub name: JStr,
    pub desc: JStr,
    pub signature: Option<JStr>,
    pub annotations: Annotations,
    pub type_annotations: TypeAnnotations,
    pub unknown: Vec<UnknownAttr>,
}

#[derive(Debug, Clone, PartialEq, Eq, Hash, Default)]
pub struct Module {
    pub name: JStr,
    pub flags: u16,
    pub version: Option<JStr>,
    pub requires: Vec<Requires>,
    pub exports: Vec<Exports>,
    pub opens: Vec<Exports>,
    pub uses: Vec<JStr>,
    pub provides: Vec<Provides>,
}

#[derive(Debug, Clone, PartialEq, Eq, Hash, Default)]
pub struct Requires {
    pub module: JStr,
    pub flags: u16,
    pub version: Option<JStr>,
}

/// An `exports` or `opens` entry.
#[derive(Debug, Clone, PartialEq, Eq, Hash, Default)]
pub struct Exports {
    pub package: JStr,
    pub flags: u16,
    /// Module names.
    pub to: Vec<JStr>,
}

#[derive(Debug, Clone, PartialEq, Eq, Hash, Default)]
pub struct Provides {
    pub service: JStr,
    pub with: Vec<JStr>,
}

#[derive(Debug, Clone, PartialEq, Eq, Hash, Default)]
pub struct Annotation {
    pub type_desc: JStr,
    pub pairs: Vec<Pair>,
}

#[derive(Debug, Clone, PartialEq, Eq, Hash)]
pub struct Pair {
    pub name: JStr,
    pub value: ElementValue,
}

/// element_value. The integral kinds (B C I S Z) carry the full 32-bit value
/// of the CONSTANT_Integer they refer to; javac only emits in-range values.
#[derive(Debug, Clone, PartialEq, Eq, Hash)]
pub enum ElementValue {
    Byte(i32),
    Char(i32),
    Double(u64),
    Float(u32),
    Int(i32),
    Long(i64),
    Short(i32),
    Boolean(i32),
    String(JStr),
    Enum { type_desc: JStr, const_name: JStr },
    /// Return descriptor (`V` allowed).
    Class(JStr),
    Annotation(Box<Annotation>),
    Array(Vec<ElementValue>),
}

impl ElementValue {
    pub fn tag(&self) -> u8 {
        match self {
            ElementValue::Byte(_) => b'B',
            ElementValue::Char(_) => b'C',
            ElementValue::Double(_) => b'D',
            ElementValue::Float(_) => b'F',
            ElementValue::Int(_) => b'I',
            ElementValue::Long(_) => b'J',
            ElementValue::Short(_) => b'S',
            ElementValue::Boolean(_) => b'Z',
            ElementValue::String(_) => b's',
            ElementValue::Enum { .. } => b'e',
            ElementValue::Class(_) => b'c',
            ElementValue::Annotation(_) => b'@',
            ElementValue::Array(_) => b'[',
        }
    }
}

#[derive(Debug, Clone, PartialEq, Eq, Hash)]
pub struct TypeAnnotation {
    pub target: Target,
    pub path: Vec<PathStep>,
    pub annotation: Annotation,
}

/// type_path entry: kind 0 array, 1 nested, 2 wildcard bound, 3 type
/// argument (`arg` is the index; it must be 0 for kinds 0..=2).
#[derive(Debug, Clone, Copy, PartialEq, Eq, Hash)]
pub struct PathStep {
    pub kind: u8,
    pub arg: u8,
}

/// target_type byte + target_info. Bytecode offsets are instruction indices.
#[derive(Debug, Clone, PartialEq, Eq, Hash)]
pub enum Target {
    /// 0x00 (class) / 0x01 (method): type_parameter_target
    TypeParameter { target_type: u8, index: u8 },
    /// 0x10: supertype_target (65535 = extends)
    Supertype(u16),
    /// 0x11 (class) / 0x12 (method): type_parameter_bound_target
    TypeParameterBound { target_type: u8, param: u8, bound: u8 },
    /// 0x13 field / 0x14 return / 0x15 receiver: empty_target
    Empty(u8),
    /// 0x16: formal_parameter_target
    FormalParameter(u8),
    /// 0x17: throws_target
    Throws(u16),
    /// 0x40 local variable / 0x41 resource variable: localvar_target.
    /// Entries are (start, end (exclusive, may be end-of-code), slot).
    LocalVar { target_type: u8, table: Vec<LocalVarRange> },
    /// 0x42: catch_target (exception table index)
    Catch(u16),
    /// 0x43 instanceof / 0x44 new / 0x45 ::new / 0x46 ::method: offset_target
    Offset { target_type: u8, at: usize },
    /// 0x47 cast / 0x48 ctor type arg / 0x49 method type arg /
    /// 0x4A ::new type arg / 0x4B ::method type arg: type_argument_target
    TypeArgument { target_type: u8, at: usize, index: u8 },
}

#[derive(Debug, Clone, Copy, PartialEq, Eq, Hash)]
pub struct LocalVarRange {
    pub start: usize,
    pub end: usize,
    pub slot: u16,
}

impl Target {
    pub fn target_type(&self) -> u8 {
        match self {
            Target::TypeParameter { target_type, .. } => *target_type,
            Target::Supertype(_) => 0x10,
            Target::TypeParameterBound { target_type, .. } => *target_type,
            Target::Empty(t) => *t,
            Target::FormalParameter(_) => 0x16,
            Target::Throws(_) => 0x17,
            Target::LocalVar { target_type, .. } => *target_type,
            Target::Catch(_) => 0x42,
            Target::Offset { target_type, .. } => *target_type,
            Target::TypeArgument { target_type, .. } => *target_type,
        }
    }
}

// ---------------------------------------------------------------------------
// Stack map frame expansion
// ---------------------------------------------------------------------------

/// The locals of the implicit initial frame of a method (JVMS 4.10.1.6), in
/// StackMapTable terms (a long/double is a single entry). `None` if the
/// descriptor is not a valid method descriptor.
pub fn initial_locals(this_class: &JStr, method_access: u16, name: &JStr, desc_: &JStr) -> Option<Vec<VType>> {
    let (params, _) = desc::parse_method_desc(desc_.as_bytes())?;
    let mut v = Vec::new();
    if method_access & 0x0008 == 0 {
        if name.as_bytes() == b"<init>" && this_class.as_bytes() != b"java/lang/Object" {
            v.push(VType::UninitializedThis);
        } else {
            v.push(VType::Object(this_class.clone()));
        }
    }
    for p in params {
        v.push(if p.dims > 0 {
            let mut s = Vec::new();
            s.extend(std::iter::repeat(b'[').take(p.dims));
            match &p.base {
                desc::Base::Object(n) => {
                    s.push(b'L');
                    s.extend_from_slice(n);
                    s.push(b';');
                }
                b => s.push(base_letter(b)),
            }
            VType::Object(JStr(s))
        } else {
            match p.base {
                desc::Base::Long => VType::Long,
                desc::Base::Double => VType::Double,
                desc::Base::Float => VType::Float,
                desc::Base::Object(n) => VType::Object(JStr(n)),
                _ => VType::Integer,
            }
        });
    }
    Some(v)
}

fn base_letter(b: &desc::Base) -> u8 {
    match b {
        desc::Base::Byte => b'B',
        desc::Base::Char => b'C',
        desc::Base::Double => b'D',
        desc::Base::Float => b'F',
        desc::Base::Int => b'I',
        desc::Base::Long => b'J',
        desc::Base::Short => b'S',
        desc::Base::Boolean => b'Z',
        desc::Base::Object(_) => b'L',
    }
}

/// Applies the delta semantics of StackMapTable (JVMS 4.7.4) to obtain
/// explicit frames. `Err` if a chop removes more locals than exist.
pub fn expand_frames(initial: &[VType], raw: &[(usize, RawFrame)]) -> Result<Vec<Frame>, String> {
    let mut locals: Vec<VType> = initial.to_vec();
    let mut out = Vec::with_capacity(raw.len());
    for (i, (at, f)) in raw.iter().enumerate() {
        let stack = match f {
            RawFrame::Same => Vec::new(),
            RawFrame::SameLocals1(t) => vec![t.clone()],
            RawFrame::Chop(k) => {
                let k = *k as usize;
                if k > locals.len() {
                    return Err(format!("frame[{}]: chop {} of {} locals", i, k, locals.len()));
                }
                locals.truncate(locals.len() - k);
                Vec::new()
            }
            RawFrame::Append(more) => {
                locals.extend(more.iter().cloned());
                Vec::new()
            }
            RawFrame::Full { locals: l, stack } => {
                locals = l.clone();
                stack.clone()
            }
        };
        out.push(Frame { at: *at, locals: locals.clone(), stack });
    }
    Ok(out)
}

/// Raw encodings that denote `frame` given the previous frame's locals.
/// The first element is the most compact one, the last is always `Full`.
pub fn frame_encodings(prev_locals: &[VType], frame: &Frame) -> Vec<RawFrame> {
    let mut v = Vec::new();
    let l = &frame.locals;
    if frame.stack.is_empty() {
        if l.as_slice() == prev_locals {
            v.push(RawFrame::Same);
        } else if l.len() < prev_locals.len() && prev_locals.len() - l.len() <= 3 && prev_locals[..l.len()] == l[..] {
            v.push(RawFrame::Chop((prev_locals.len() - l.len()) as u8));
        } else if l.len() > prev_locals.len() && l.len() - prev_locals.len() <= 3 && l[..prev_locals.len()] == prev_locals[..] {
            v.push(RawFrame::Append(l[prev_locals.len()..].to_vec()));
        }
    } else if frame.stack.len() == 1 && l.as_slice() == prev_locals {
        v.push(RawFrame::SameLocals1(frame.stack[0].clone()));
    }
    v.push(RawFrame::Full { locals: l.clone(), stack: frame.stack.clone() });
    v
}

// ---------------------------------------------------------------------------
// Diff
// ---------------------------------------------------------------------------

/// Structural diff producing the path of the first difference.
pub trait Diff: PartialEq {
    /// Called only when `self != other`. Must return `Some`.
    fn diff_at(&self, other: &Self, path: &str) -> Option<String>;
}

fn join(path: &str, name: &str) -> String {
    if path.is_empty() {
        name.to_string()
    } else {
        format!("{}.{}", path, name)
    }
}

macro_rules! diff_leaf {
    ($($t:ty),*) => { $(
        impl Diff for $t {
            fn diff_at(&self, _other: &Self, path: &str) -> Option<String> { Some(path.to_string()) }
        }
    )* };
}
diff_leaf!(u8, i8, u16, i16, u32, i32, u64, i64, usize, bool, JStr, LocalKind, FieldOp, InvokeOp, PrimType);

impl<T: Diff> Diff for Vec<T> {
    fn diff_at(&self, other: &Self, path: &str) -> Option<String> {
        if self.len() != other.len() {
            return Some(join(path, "len"));
        }
        for (i, (a, b)) in self.iter().zip(other.iter()).enumerate() {
            if a != b {
                return a.diff_at(b, &format!("{}[{}]", path, i));
            }
        }
        None
    }
}

impl<T: Diff> Diff for Option<T> {
    fn diff_at(&self, other: &Self, path: &str) -> Option<String> {
        match (self, other) {
            (Some(a), Some(b)) => {
                if a != b {
                    a.diff_at(b, path)
                } else {
                    None
                }
            }
            (None, None) => None,
            _ => Some(join(path, "present")),
        }
    }
}

impl<T: Diff> Diff for Box<T> {
    fn diff_at(&self, other: &Self, path: &str) -> Option<String> {
        (**self).diff_at(&**other, path)
    }
}

impl<T> Diff for NotCompared<T> {
    fn diff_at(&self, _: &Self, _: &str) -> Option<String> {
        None
    }
}

macro_rules! diff_struct {
    ($t:ty { $($f:ident => $n:expr),* $(,)? }) => {
        impl Diff for $t {
            fn diff_at(&self, other: &Self, path: &str) -> Option<String> {
                $( if self.$f != other.$f { return self.$f.diff_at(&other.$f, &join(path, $n)); } )*
                None
            }
        }
    };
}

diff_struct!(Sem {
    minor => "minor", major => "major", access => "access", this_class => "this_class",
    super_class => "super_class", interfaces => "interface", fields => "field", methods => "method",
    source_file => "source_file", source_debug_extension => "source_debug_extension",
    inner_classes => "inner_class", enclosing_method => "enclosing_method", signature => "signature",
    synthetic => "synthetic", deprecated => "deprecated", annotations => "annotations",
    type_annotations => "type_annotations", nest_host => "nest_host", nest_members => "nest_member",
    permitted_subclasses => "permitted_subclass", record => "record_component", module => "module",
    module_packages => "module_package", module_main_class => "module_main_class", unknown => "unknown",
});
diff_struct!(UnknownAttr { name => "name", bytes => "bytes" });
diff_struct!(Annotations { visible => "visible", invisible => "invisible" });
diff_struct!(TypeAnnotations { visible => "visible", invisible => "invisible" });
diff_struct!(ParamAnnotations { visible => "visible", invisible => "invisible" });
diff_struct!(Field {
    access => "access", name => "name", desc => "desc", constant_value => "constant_value",
    signature => "signature", synthetic => "synthetic", deprecated => "deprecated",
    annotations => "annotations", type_annotations => "type_annotations", unknown => "unknown",
});
diff_struct!(Method {
    access => "access", name => "name", desc => "desc", code => "code", exceptions => "exception",
    method_parameters => "method_parameter", annotation_default => "annotation_default",
    parameter_annotations => "parameter_annotations", annotations => "annotations",
    type_annotations => "type_annotations", signature => "signature", synthetic => "synthetic",
    deprecated => "deprecated", unknown => "unknown",
});
diff_struct!(MethodParameter { name => "name", access => "access" });
diff_struct!(Code {
    max_stack => "max_stack", max_locals => "max_locals", insns => "insn", exceptions => "exception",
    line_numbers => "line_number", local_vars => "local_var", local_var_types => "local_var_type",
    frames => "frame", frames_raw => "frames_raw", type_annotations => "type_annotations",
    unknown => "unknown",
});
diff_struct!(ExceptionEntry { start => "start", end => "end", handler => "handler", catch_type => "catch_type" });
diff_struct!(LineNumber { at => "at", line => "line" });
diff_struct!(LocalVar { start => "start", end => "end", name => "name", desc => "desc", slot => "slot" });
diff_struct!(Frame { at => "at", locals => "local", stack => "stack" });
diff_struct!(MemberRef { owner => "owner", name => "name", desc => "desc", is_interface => "is_interface" });
diff_struct!(Handle { kind => "kind", member => "member" });
diff_struct!(Dynamic { bsm => "bsm", args => "arg", name => "name", desc => "desc" });
diff_struct!(InnerClass { inner => "inner", outer => "outer", inner_name => "inner_name", access => "access" });
diff_struct!(EnclosingMethod { class => "class", method => "method" });
diff_struct!(RecordComponent {
    name => "name", desc => "desc", signature => "signature", annotations => "annotations",
    type_annotations => "type_annotations", unknown => "unknown",
});
diff_struct!(Module {
    name => "name", flags => "flags", version => "version", requires => "requires", exports => "exports",
    opens => "opens", uses => "uses", provides => "provides",
});
diff_struct!(Requires { module => "module", flags => "flags", version => "version" });
diff_struct!(Exports { package => "package", flags => "flags", to => "to" });
diff_struct!(Provides { service => "service", with => "with" });
diff_struct!(Annotation { type_desc => "type_desc", pairs => "pairs" });
diff_struct!(Pair { name => "name", value => "value" });
diff_struct!(TypeAnnotation { target => "target", path => "path", annotation => "annotation" });
diff_struct!(PathStep { kind => "kind", arg => "arg" });
diff_struct!(LocalVarRange { start => "start", end => "end", slot => "slot" });

impl Diff for (JStr, JStr) {
    fn diff_at(&self, other: &Self, path: &str) -> Option<String> {
        if self.0 != other.0 {
            Some(join(path, "name"))
        } else {
            Some(join(path, "desc"))
        }
    }
}

impl Diff for (i32, usize) {
    fn diff_at(&self, other: &Self, path: &str) -> Option<String> {
        if self.0 != other.0 {
            Some(join(path, "key"))
        } else {
            Some(join(path, "target"))
        }
    }
}

impl Diff for ConstValue {
    fn diff_at(&self, other: &Self, path: &str) -> Option<String> {
        if std::mem::discriminant(self) != std::mem::discriminant(other) {
            Some(join(path, "kind"))
        } else {
            Some(join(path, "value"))
        }
    }
}

impl Diff for VType {
    fn diff_at(&self, other: &Self, path: &str) -> Option<String> {
        match (self, other) {
            (VType::Object(_), VType::Object(_)) => Some(join(path, "class")),
            (VType::Uninitialized(_), VType::Uninitialized(_)) => Some(join(path, "new_at")),
            _ => Some(join(path, "kind")),
        }
    }
}

impl Diff for Const {
    fn diff_at(&self, other: &Self, path: &str) -> Option<String> {
        match (self, other) {
            (Const::MethodHandle(a), Const::MethodHandle(b)) => a.diff_at(b, &join(path, "handle")),
            (Const::Dynamic(a), Const::Dynamic(b)) => a.diff_at(b, &join(path, "dynamic")),
            _ => {
                if std::mem::discriminant(self) != std::mem::discriminant(other) {
                    Some(join(path, "kind"))
                } else {
                    Some(join(path, "value"))
                }
            }
        }
    }
}

impl Diff for Insn {
    fn diff_at(&self, other: &Self, path: &str) -> Option<String> {
        use Insn::*;
        macro_rules! first {
            ($( $a:expr, $b:expr => $n:expr );* $(;)?) => {{
                $( if $a != $b { return $a.diff_at($b, &join(path, $n)); } )*
                None
            }};
        }
        match (self, other) {
            (Simple(a), Simple(b)) => first!(a, b => "op"),
            (BiPush(a), BiPush(b)) => first!(a, b => "value"),
            (SiPush(a), SiPush(b)) => first!(a, b => "value"),
            (Ldc(a), Ldc(b)) => first!(a, b => "value"),
            (Load(k, i), Load(k2, i2)) | (Store(k, i), Store(k2, i2)) => first!(k, k2 => "op"; i, i2 => "index"),
            (Iinc(i, d), Iinc(i2, d2)) => first!(i, i2 => "index"; d, d2 => "delta"),
            (Ret(i), Ret(i2)) => first!(i, i2 => "index"),
            (Branch(o, t), Branch(o2, t2)) => first!(o, o2 => "op"; t, t2 => "target"),
            (Goto(t), Goto(t2)) | (Jsr(t), Jsr(t2)) => first!(t, t2 => "target"),
            (TableSwitch { default: d, low: l, targets: t }, TableSwitch { default: d2, low: l2, targets: t2 }) => {
                first!(d, d2 => "default"; l, l2 => "low"; t, t2 => "targets")
            }
            (LookupSwitch { default: d, pairs: p }, LookupSwitch { default: d2, pairs: p2 }) => {
                first!(d, d2 => "default"; p, p2 => "pairs")
            }
            (Field(o, m), Field(o2, m2)) => first!(o, o2 => "op"; m, m2 => "member"),
            (Invoke(o, m), Invoke(o2, m2)) => first!(o, o2 => "op"; m, m2 => "member"),
            (InvokeDynamic(a), InvokeDynamic(b)) => first!(a, b => "dynamic"),
            (New(a), New(b)) | (ANewArray(a), ANewArray(b)) | (CheckCast(a), CheckCast(b)) | (InstanceOf(a), InstanceOf(b)) => {
                first!(a, b => "class")
            }
            (NewArray(a), NewArray(b)) => first!(a, b => "type"),
            (MultiANewArray(a, d), MultiANewArray(b, d2)) => first!(a, b => "class"; d, d2 => "dims"),
            _ => Some(join(path, "op")),
        }
    }
}

impl Diff for ElementValue {
    fn diff_at(&self, other: &Self, path: &str) -> Option<String> {
        use ElementValue::*;
        match (self, other) {
            (Enum { type_desc: a, const_name: b }, Enum { type_desc: a2, const_name: b2 }) => {
                if a != a2 {
                    Some(join(path, "type_desc"))
                } else if b != b2 {
                    Some(join(path, "const_name"))
                } else {
                    None
                }
            }
            (Annotation(a), Annotation(b)) => a.diff_at(b, path),
            (Array(a), Array(b)) => a.diff_at(b, path),
            _ => {
                if self.tag() != other.tag() {
                    Some(join(path, "tag"))
                } else {
                    Some(path.to_string())
                }
            }
        }
    }
}

impl Diff for Target {
    fn diff_at(&self, other: &Self, path: &str) -> Option<String> {
        use Target::*;
        if self.target_type() != other.target_type() {
            return Some(join(path, "target_type"));
        }
        match (self, other) {
            (TypeParameter { index: a, .. }, TypeParameter { index: b, .. }) => a.diff_at(b, &join(path, "index")),
            (TypeParameterBound { param: a, bound: b, .. }, TypeParameterBound { param: a2, bound: b2, .. }) => {
                if a != a2 {
                    Some(join(path, "param"))
                } else if b != b2 {
                    Some(join(path, "bound"))
                } else {
                    None
                }
            }
            (LocalVar { table: a, .. }, LocalVar { table: b, .. }) => a.diff_at(b, &join(path, "table")),
            (Offset { at: a, .. }, Offset { at: b, .. }) => a.diff_at(b, &join(path, "at")),
            (TypeArgument { at: a, index: i, .. }, TypeArgument { at: b, index: i2, .. }) => {
                if a != b {
                    Some(join(path, "at"))
                } else if i != i2 {
                    Some(join(path, "index"))
                } else {
                    None
                }
            }
            _ => Some(join(path, "index")),
        }
    }
}

impl Sem {
    /// Path of the first difference (see README for the path grammar), or
    /// `None` if the two values are equal.
    pub fn diff(&self, other: &Sem) -> Option<String> {
        if self == other {
            None
        } else {
            Some(self.diff_at(other, "").unwrap_or_else(|| "<unlocated>".to_string()))
        }
    }
}
