//! Code attribute: instruction decoding, exception table, frames.

use super::{err, CodeCx, Loc, MethodInfo, P, R};
use crate::desc;
use crate::op;
use crate::sem::*;

/// A decoded instruction whose branch targets are still byte offsets.
enum Raw {
    Done(Insn),
    Cond(u8, i64),
    Goto(i64),
    Jsr(i64),
    Table { default: i64, low: i32, targets: Vec<i64> },
    Lookup { default: i64, pairs: Vec<(i32, i64)> },
}

impl<'b> P<'b> {
    pub(super) fn code(&mut self, mi: &MethodInfo) -> R<Code> {
        let max_stack = self.u16()?;
        let max_locals = self.u16()?;
        let len_at = self.pos;
        let code_len = self.u32()? as usize;
        if code_len == 0 || code_len > 65535 {
            // cannot be represented; the bytes may still be there, so keep walking in collect mode
            self.hard(len_at, "code-length", format!("code_length {} not in 1..=65535", code_len))?;
        }
        let code_start = self.pos;
        self.need(code_len)?;
        let code_end = code_start + code_len;

        // ---- decode ----
        let mut raws: Vec<(usize, Raw)> = Vec::new();
        let mut idx_of = vec![u32::MAX; code_len + 1];
        let mut opcodes = Vec::new();
        let mut broken = false;
        let outer_limit = self.limit;
        self.limit = code_end;
        while self.pos < code_end {
            let at = self.pos;
            let o = at - code_start;
            match self.insn(code_start) {
                Ok(r) => {
                    idx_of[o] = raws.len() as u32;
                    opcodes.push(self.b[at]);
                    raws.push((o, r));
                }
                Err(mut e) => {
                    if e.what.starts_with("attr-length") || e.what.starts_with("truncated") {
                        e.what = format!("opcode: instruction at offset {} runs past code_length", o);
                    }
                    if self.collect {
                        self.problems.push(format!("{} (at byte {})", e.what, e.offset));
                        broken = true;
                        break;
                    }
                    self.limit = outer_limit;
                    return Err(e);
                }
            }
        }
        self.limit = outer_limit;
        self.pos = code_end;
        let n = raws.len();
        let mut cx = CodeCx { code_len, idx_of, n_insns: n, opcodes, broken, n_exceptions: 0 };

        // ---- resolve branch targets ----
        let mut insns = Vec::with_capacity(n);
        for (o, r) in raws {
            let at = code_start + o;
            let tgt = |p: &mut P<'b>, rel: i64| -> R<usize> {
                let t = o as i64 + rel;
                if t >= 0 {
                    if let Some(i) = cx.insn_at(t as usize) {
                        return Ok(i);
                    }
                }
                if !cx.broken {
                    p.hard(at, "branch-target", format!("instruction at {} branches to {} which is not an instruction boundary", o, t))?;
                }
                Ok(0)
            };
            insns.push(match r {
                Raw::Done(i) => i,
                Raw::Cond(opc, rel) => Insn::Branch(opc, tgt(self, rel)?),
                Raw::Goto(rel) => Insn::Goto(tgt(self, rel)?),
                Raw::Jsr(rel) => Insn::Jsr(tgt(self, rel)?),
                Raw::Table { default, low, targets } => {
                    let default = tgt(self, default)?;
                    let mut t = Vec::with_capacity(targets.len());
                    for rel in targets {
                        t.push(tgt(self, rel)?);
                    }
                    Insn::TableSwitch { default, low, targets: t }
                }
                Raw::Lookup { default, pairs } => {
                    let default = tgt(self, default)?;
                    let mut t = Vec::with_capacity(pairs.len());
                    for (k, rel) in pairs {
                        t.push((k, tgt(self, rel)?));
                    }
                    Insn::LookupSwitch { default, pairs: t }
                }
            });
        }

        // ---- exception table ----
        let ne = self.u16()?;
        let mut exceptions = Vec::new();
        for _ in 0..ne {
            let at = self.pos;
            let s = self.u16()? as usize;
            let e = self.u16()? as usize;
            let h = self.u16()? as usize;
            let ct = self.u16()?;
            let catch_type = self.class_opt(ct, at + 6)?;
            let (start, end, handler) = match (cx.insn_at(s), cx.insn_or_end(e), cx.insn_at(h)) {
                (Some(a), Some(b), Some(c)) => (a, b, c),
                _ => {
                    if !cx.broken {
                        self.hard(at, "exception-range", format!("start {} / end {} / handler {} not on instruction boundaries", s, e, h))?;
                    }
                    (0, 0, 0)
                }
            };
            if s >= e {
                self.soft(at, "exception-range", format!("start_pc {} >= end_pc {}", s, e));
            }
            exceptions.push(ExceptionEntry { start, end, handler, catch_type });
        }
        cx.n_exceptions = exceptions.len();

        // ---- attributes ----
        let a = self.attributes(Loc::Code, Some(&cx), None)?;
        for lv in a.local_vars.iter().chain(a.local_var_types.iter()) {
            let wide = matches!(lv.desc.as_bytes(), b"J" | b"D");
            if lv.slot as usize + wide as usize >= max_locals as usize {
                self.soft(code_start, "local-var", format!("local variable {:?} slot {} >= max_locals {}", lv.name, lv.slot, max_locals));
            }
        }
        let frames_raw = a.frames_raw.unwrap_or_default();
        if !frames_raw.is_empty() && self.major < 50 {
            self.soft(code_start, "version-feature", "StackMapTable before version 50");
        }
        let initial = initial_locals(&self.this_class, mi.access, &mi.name, &mi.desc).unwrap_or_default();
        let frames = match expand_frames(&initial, &frames_raw) {
            Ok(f) => f,
            Err(m) => {
                self.hard(code_start, "frame", m)?;
                Vec::new()
            }
        };
        Ok(Code {
            max_stack,
            max_locals,
            insns,
            exceptions,
            line_numbers: a.line_numbers,
            local_vars: a.local_vars,
            local_var_types: a.local_var_types,
            frames,
            frames_raw: NotCompared(frames_raw),
            type_annotations: a.type_annotations,
            unknown: a.unknown,
        })
    }

    fn i16(&mut self) -> R<i16> {
        Ok(self.u16()? as i16)
    }
    fn i32(&mut self) -> R<i32> {
        Ok(self.u32()? as i32)
    }

    /// Decodes one instruction at `self.pos`.
    fn insn(&mut self, code_start: usize) -> R<Raw> {
        let at = self.pos;
        let o = self.u8()?;
        let done = |i: Insn| -> R<Raw> { Ok(Raw::Done(i)) };
        if op::is_simple(o) {
            return done(Insn::Simple(o));
        }
        match o {
            op::BIPUSH => done(Insn::BiPush(self.u8()? as i8)),
            op::SIPUSH => done(Insn::SiPush(self.i16()?)),
            op::LDC | op::LDC_W | op::LDC2_W => {
                let idx = if o == op::LDC { self.u8()? as u16 } else { self.u16()? };
                let c = self.loadable(idx, at, 0)?;
                let want_wide = o == op::LDC2_W;
                if c.is_wide() != want_wide {
                    self.hard(at, "cp-index-kind", format!("{} of a {} constant", op::name(o), c.kind_name()))?;
                    // placeholder of the right width
                    return done(Insn::Ldc(if want_wide { Const::Long(0) } else { Const::Int(0) }));
                }
                if let Const::Class(_) = c {
                    if self.major < 49 {
                        self.soft(at, "version-feature", "ldc of a Class constant before version 49");
                    }
                }
                done(Insn::Ldc(c))
            }
            21..=25 => {
                let i = self.u8()? as u16;
                done(Insn::Load(LocalKind::from_ordinal(o - 21).unwrap(), i))
            }
            26..=45 => done(Insn::Load(LocalKind::from_ordinal((o - 26) / 4).unwrap(), ((o - 26) % 4) as u16)),
            54..=58 => done(Insn::Store(LocalKind::from_ordinal(o - 54).unwrap(), self.u8()? as u16)),
            59..=78 => done(Insn::Store(LocalKind::from_ordinal((o - 59) / 4).unwrap(), ((o - 59) % 4) as u16)),
            op::IINC => {
                let i = self.u8()? as u16;
                let d = self.u8()? as i8 as i16;
                done(Insn::Iinc(i, d))
            }
            op::RET => {
                if self.major >= 51 {
                    self.soft(at, "version-feature", "ret in version >= 51");
                }
                done(Insn::Ret(self.u8()? as u16))
            }
            op::WIDE => {
                let o2 = self.u8()?;
                match o2 {
                    21..=25 => done(Insn::Load(LocalKind::from_ordinal(o2 - 21).unwrap(), self.u16()?)),
                    54..=58 => done(Insn::Store(LocalKind::from_ordinal(o2 - 54).unwrap(), self.u16()?)),
                    op::RET => done(Insn::Ret(self.u16()?)),
                    op::IINC => {
                        let i = self.u16()?;
                        let d = self.i16()?;
                        done(Insn::Iinc(i, d))
                    }
                    _ => err(at, "opcode", format!("wide cannot modify opcode {} ({})", o2, op::name(o2))),
                }
            }
            _ if op::is_cond_branch(o) => Ok(Raw::Cond(o, self.i16()? as i64)),
            op::GOTO => Ok(Raw::Goto(self.i16()? as i64)),
            op::GOTO_W => Ok(Raw::Goto(self.i32()? as i64)),
            op::JSR | op::JSR_W => {
                if self.major >= 51 {
                    self.soft(at, "version-feature", "jsr in version >= 51");
                }
                Ok(Raw::Jsr(if o == op::JSR { self.i16()? as i64 } else { self.i32()? as i64 }))
            }
            op::TABLESWITCH | op::LOOKUPSWITCH => {
                let off = at - code_start;
                let padn = (4 - ((off + 1) % 4)) % 4;
                let padb = self.take(padn)?;
                if padb.iter().any(|b| *b != 0) {
                    self.soft(at, "switch-padding", "non-zero switch padding");
                }
                let default = self.i32()? as i64;
                if o == op::TABLESWITCH {
                    let low = self.i32()?;
                    let high = self.i32()?;
                    if low > high {
                        return err(at, "switch", format!("tableswitch low {} > high {}", low, high));
                    }
                    let n = (high as i64 - low as i64 + 1) as u64;
                    // bounded by the remaining code bytes
                    if n.saturating_mul(4) > (self.limit - self.pos) as u64 {
                        return err(at, "opcode", "tableswitch runs past code_length");
                    }
                    let mut targets = Vec::with_capacity(n as usize);
                    for _ in 0..n {
                        targets.push(self.i32()? as i64);
                    }
                    Ok(Raw::Table { default, low, targets })
                } else {
                    let np = self.i32()?;
                    if np < 0 {
                        return err(at, "switch", format!("lookupswitch npairs {} < 0", np));
                    }
                    if (np as u64).saturating_mul(8) > (self.limit - self.pos) as u64 {
                        return err(at, "opcode", "lookupswitch runs past code_length");
                    }
                    let mut pairs: Vec<(i32, i64)> = Vec::with_capacity(np as usize);
                    for _ in 0..np {
                        let k = self.i32()?;
                        let t = self.i32()? as i64;
                        if let Some(last) = pairs.last() {
                            if last.0 >= k {
                                self.soft(at, "switch", "lookupswitch keys not strictly ascending");
                            }
                        }
                        pairs.push((k, t));
                    }
                    Ok(Raw::Lookup { default, pairs })
                }
            }
            178..=181 => {
                let i = self.u16()?;
                let m = self.member(i, at, true)?;
                let fo = FieldOp::ALL[(o - 178) as usize];
                done(Insn::Field(fo, m))
            }
            182..=185 => {
                let i = self.u16()?;
                let m = self.member(i, at, false)?;
                let io = InvokeOp::ALL[(o - 182) as usize];
                match io {
                    InvokeOp::Virtual if m.is_interface => self.soft(at, "cp-index-kind", "invokevirtual of an InterfaceMethodref"),
                    InvokeOp::Interface if !m.is_interface => self.soft(at, "cp-index-kind", "invokeinterface of a Methodref"),
                    InvokeOp::Special | InvokeOp::Static if m.is_interface && self.major < 52 => {
                        self.soft(at, "version-feature", "invokespecial/invokestatic of an InterfaceMethodref before version 52")
                    }
                    _ => {}
                }
                let nm = m.name.as_bytes();
                if nm == b"<clinit>" || (nm == b"<init>" && io != InvokeOp::Special) {
                    self.soft(at, "invoke-name", "invocation of <clinit>, or of <init> by other than invokespecial");
                }
                if io == InvokeOp::Interface {
                    let count = self.u8()?;
                    let zero = self.u8()?;
                    if zero != 0 {
                        self.hard(at, "insn-operand", "invokeinterface fourth operand byte is not 0")?;
                    }
                    match desc::method_arg_slots(m.desc.as_bytes()) {
                        Some(n) if n + 1 == count as usize => {}
                        Some(n) => self.hard(at, "invokeinterface-count", format!("count {} but descriptor needs {}", count, n + 1))?,
                        None => {
                            if count == 0 {
                                self.hard(at, "invokeinterface-count", "count is 0")?
                            }
                        }
                    }
                }
                done(Insn::Invoke(io, m))
            }
            op::INVOKEDYNAMIC => {
                let i = self.u16()?;
                let z = self.u16()?;
                if z != 0 {
                    self.hard(at, "insn-operand", "invokedynamic third/fourth operand bytes are not 0")?;
                }
                if self.major < 51 {
                    self.soft(at, "version-feature", "invokedynamic before version 51");
                }
                let d = match self.cp_get(i, at, "InvokeDynamic")? {
                    Some(super::Cp::Indy(b, n)) => self.dynamic(b, n, at, 0)?,
                    Some(other) => {
                        self.hard(at, "cp-index-kind", format!("index {} is {}, wanted InvokeDynamic", i, other.kind()))?;
                        dflt_dyn()
                    }
                    None => dflt_dyn(),
                };
                done(Insn::InvokeDynamic(Box::new(d)))
            }
            op::NEW | op::ANEWARRAY | op::CHECKCAST | op::INSTANCEOF => {
                let i = self.u16()?;
                let c = self.class(i, at)?;
                if o == op::NEW && c.as_bytes().first() == Some(&b'[') {
                    self.soft(at, "insn-operand", "new of an array class");
                }
                done(match o {
                    op::NEW => Insn::New(c),
                    op::ANEWARRAY => Insn::ANewArray(c),
                    op::CHECKCAST => Insn::CheckCast(c),
                    _ => Insn::InstanceOf(c),
                })
            }
            op::NEWARRAY => {
                let t = self.u8()?;
                match PrimType::from_atype(t) {
                    Some(p) => done(Insn::NewArray(p)),
                    None => {
                        self.hard(at, "insn-operand", format!("newarray atype {} not in 4..=11", t))?;
                        done(Insn::NewArray(PrimType::Int))
                    }
                }
            }
            op::MULTIANEWARRAY => {
                let i = self.u16()?;
                let c = self.class(i, at)?;
                let d = self.u8()?;
                if d == 0 {
                    self.soft(at, "insn-operand", "multianewarray with 0 dimensions");
                } else {
                    let dims = c.as_bytes().iter().take_while(|b| **b == b'[').count();
                    if dims < d as usize {
                        self.soft(at, "insn-operand", "multianewarray dimensions exceed the array class's dimensions");
                    }
                }
                done(Insn::MultiANewArray(c, d))
            }
            _ => err(at, "opcode", format!("illegal opcode {}", o)),
        }
    }

    fn vtype(&mut self, cx: &CodeCx) -> R<VType> {
        let at = self.pos;
        let tag = self.u8()?;
        Ok(match tag {
            0 => VType::Top,
            1 => VType::Integer,
            2 => VType::Float,
            3 => VType::Double,
            4 => VType::Long,
            5 => VType::Null,
            6 => VType::UninitializedThis,
            7 => {
                let i = self.u16()?;
                VType::Object(self.class(i, at + 1)?)
            }
            8 => {
                let pc = self.u16()? as usize;
                match cx.insn_at(pc) {
                    Some(i) => {
                        if cx.opcodes.get(i) != Some(&op::NEW) {
                            self.soft(at, "frame", format!("Uninitialized({}) does not point at a new instruction", pc));
                        }
                        VType::Uninitialized(i)
                    }
                    None => {
                        if !cx.broken {
                            self.hard(at, "frame-offset", format!("Uninitialized offset {} is not an instruction boundary", pc))?;
                        }
                        VType::Uninitialized(0)
                    }
                }
            }
            t => return err(at, "frame", format!("unknown verification_type_info tag {}", t)),
        })
    }

    pub(super) fn stack_map_table(&mut self, cx: &CodeCx) -> R<Vec<(usize, RawFrame)>> {
        let n = self.u16()?;
        let mut out = Vec::new();
        let mut prev: Option<usize> = None;
        for _ in 0..n {
            let at = self.pos;
            let ft = self.u8()?;
            let (delta, raw) = match ft {
                0..=63 => (ft as usize, RawFrame::Same),
                64..=127 => ((ft - 64) as usize, RawFrame::SameLocals1(self.vtype(cx)?)),
                128..=246 => return err(at, "frame", format!("reserved frame_type {}", ft)),
                247 => {
                    let d = self.u16()? as usize;
                    (d, RawFrame::SameLocals1(self.vtype(cx)?))
                }
                248..=250 => (self.u16()? as usize, RawFrame::Chop(251 - ft)),
                251 => (self.u16()? as usize, RawFrame::Same),
                252..=254 => {
                    let d = self.u16()? as usize;
                    let mut l = Vec::new();
                    for _ in 0..(ft - 251) {
                        l.push(self.vtype(cx)?);
                    }
                    (d, RawFrame::Append(l))
                }
                255 => {
                    let d = self.u16()? as usize;
                    let nl = self.u16()?;
                    let mut locals = Vec::new();
                    for _ in 0..nl {
                        locals.push(self.vtype(cx)?);
                    }
                    let ns = self.u16()?;
                    let mut stack = Vec::new();
                    for _ in 0..ns {
                        stack.push(self.vtype(cx)?);
                    }
                    (d, RawFrame::Full { locals, stack })
                }
            };
            let off = match prev {
                None => delta,
                Some(p) => p + delta + 1,
            };
            prev = Some(off);
            let idx = match cx.insn_at(off) {
                Some(i) => i,
                None => {
                    if !cx.broken {
                        self.hard(at, "frame-offset", format!("frame offset {} is not an instruction boundary", off))?;
                    }
                    0
                }
            };
            out.push((idx, raw));
        }
        Ok(out)
    }
}

fn dflt_dyn() -> Dynamic {
    Dynamic {
        bsm: Handle { kind: 6, member: MemberRef::default() },
        args: Vec::new(),
        name: crate::jstr::JStr::new(),
        desc: crate::jstr::JStr::new(),
    }
}
