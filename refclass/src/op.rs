//! Opcode table (JVMS 6.5 / 7). Only opcodes 0..=201 may appear in a class file.

/// Mnemonics indexed by opcode.
pub const NAMES: [&str; 202] = [
    "nop", "aconst_null", "iconst_m1", "iconst_0", "iconst_1", "iconst_2", "iconst_3", "iconst_4",
    "iconst_5", "lconst_0", "lconst_1", "fconst_0", "fconst_1", "fconst_2", "dconst_0", "dconst_1",
    "bipush", "sipush", "ldc", "ldc_w", "ldc2_w", "iload", "lload", "fload", "dload", "aload",
    "iload_0", "iload_1", "iload_2", "iload_3", "lload_0", "lload_1", "lload_2", "lload_3",
    "fload_0", "fload_1", "fload_2", "fload_3", "dload_0", "dload_1", "dload_2", "dload_3",
    "aload_0", "aload_1", "aload_2", "aload_3", "iaload", "laload", "faload", "daload", "aaload",
    "baload", "caload", "saload", "istore", "lstore", "fstore", "dstore", "astore", "istore_0",
    "istore_1", "istore_2", "istore_3", "lstore_0", "lstore_1", "lstore_2", "lstore_3", "fstore_0",
    "fstore_1", "fstore_2", "fstore_3", "dstore_0", "dstore_1", "dstore_2", "dstore_3", "astore_0",
    "astore_1", "astore_2", "astore_3", "iastore", "lastore", "fastore", "dastore", "aastore",
    "bastore", "castore", "sastore", "pop", "pop2", "dup", "dup_x1", "dup_x2", "dup2", "dup2_x1",
    "dup2_x2", "swap", "iadd", "ladd", "fadd", "dadd", "isub", "lsub", "fsub", "dsub", "imul",
    "lmul", "fmul", "dmul", "idiv", "ldiv", "fdiv", "ddiv", "irem", "lrem", "frem", "drem", "ineg",
    "lneg", "fneg", "dneg", "ishl", "lshl", "ishr", "lshr", "iushr", "lushr", "iand", "land", "ior",
    "lor", "ixor", "lxor", "iinc", "i2l", "i2f", "i2d", "l2i", "l2f", "l2d", "f2i", "f2l", "f2d",
    "d2i", "d2l", "d2f", "i2b", "i2c", "i2s", "lcmp", "fcmpl", "fcmpg", "dcmpl", "dcmpg", "ifeq",
    "ifne", "iflt", "ifge", "ifgt", "ifle", "if_icmpeq", "if_icmpne", "if_icmplt", "if_icmpge",
    "if_icmpgt", "if_icmple", "if_acmpeq", "if_acmpne", "goto", "jsr", "ret", "tableswitch",
    "lookupswitch", "ireturn", "lreturn", "freturn", "dreturn", "areturn", "return", "getstatic",
    "putstatic", "getfield", "putfield", "invokevirtual", "invokespecial", "invokestatic",
    "invokeinterface", "invokedynamic", "new", "newarray", "anewarray", "arraylength", "athrow",
    "checkcast", "instanceof", "monitorenter", "monitorexit", "wide", "multianewarray", "ifnull",
    "ifnonnull", "goto_w", "jsr_w",
];

pub const NOP: u8 = 0;
pub const BIPUSH: u8 = 16;
pub const SIPUSH: u8 = 17;
pub const LDC: u8 = 18;
pub const LDC_W: u8 = 19;
pub const LDC2_W: u8 = 20;
pub const ILOAD: u8 = 21;
pub const ALOAD: u8 = 25;
pub const ILOAD_0: u8 = 26;
pub const ALOAD_3: u8 = 45;
pub const ISTORE: u8 = 54;
pub const ASTORE: u8 = 58;
pub const ISTORE_0: u8 = 59;
pub const ASTORE_3: u8 = 78;
pub const POP: u8 = 87;
pub const IINC: u8 = 132;
pub const IFEQ: u8 = 153;
pub const IF_ACMPNE: u8 = 166;
pub const GOTO: u8 = 167;
pub const JSR: u8 = 168;
pub const RET: u8 = 169;
pub const TABLESWITCH: u8 = 170;
pub const LOOKUPSWITCH: u8 = 171;
pub const RETURN: u8 = 177;
pub const GETSTATIC: u8 = 178;
pub const PUTSTATIC: u8 = 179;
pub const GETFIELD: u8 = 180;
pub const PUTFIELD: u8 = 181;
pub const INVOKEVIRTUAL: u8 = 182;
pub const INVOKESPECIAL: u8 = 183;
pub const INVOKESTATIC: u8 = 184;
pub const INVOKEINTERFACE: u8 = 185;
pub const INVOKEDYNAMIC: u8 = 186;
pub const NEW: u8 = 187;
pub const NEWARRAY: u8 = 188;
pub const ANEWARRAY: u8 = 189;
pub const ARRAYLENGTH: u8 = 190;
pub const ATHROW: u8 = 191;
pub const CHECKCAST: u8 = 192;
pub const INSTANCEOF: u8 = 193;
pub const MONITORENTER: u8 = 194;
pub const MONITOREXIT: u8 = 195;
pub const WIDE: u8 = 196;
pub const MULTIANEWARRAY: u8 = 197;
pub const IFNULL: u8 = 198;
pub const IFNONNULL: u8 = 199;
pub const GOTO_W: u8 = 200;
pub const JSR_W: u8 = 201;

/// True for opcodes that have no operand bytes and are not an `xload_n` /
/// `xstore_n` short form; these are represented as `Insn::Simple(opcode)`.
pub fn is_simple(op: u8) -> bool {
    match op {
        0..=15 => true,
        46..=53 => true,
        79..=131 => true,
        133..=152 => true,
        172..=177 => true,
        ARRAYLENGTH | ATHROW | MONITORENTER | MONITOREXIT => true,
        _ => false,
    }
}

/// All opcodes for which [`is_simple`] holds, ascending.
pub fn simple_opcodes() -> Vec<u8> {
    (0u8..=201).filter(|&o| is_simple(o)).collect()
}

/// True for the two-byte-offset conditional branches (`if*`, `if_icmp*`,
/// `if_acmp*`, `ifnull`, `ifnonnull`).
pub fn is_cond_branch(op: u8) -> bool {
    (IFEQ..=IF_ACMPNE).contains(&op) || op == IFNULL || op == IFNONNULL
}

pub fn cond_branch_opcodes() -> Vec<u8> {
    (0u8..=201).filter(|&o| is_cond_branch(o)).collect()
}

pub fn name(op: u8) -> &'static str {
    NAMES.get(op as usize).copied().unwrap_or("<illegal>")
}
