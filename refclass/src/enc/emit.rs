//! Emission of the class structure (everything except the body of Code).

#[path = "code.rs"]
mod code;

use super::pool::{const_key, handle_key, CpKey, Pool};
use super::{shuffle, Encoded, Layout, SpanKind as K, W};
use crate::jstr::JStr;
use crate::sem::*;
use crate::{Choice, SplitMix};

pub(crate) struct Enc<'a> {
    pub sem: &'a Sem,
    pub layout: &'a Layout,
    pub pool: Pool,
    pub w: W,
    pub rng: SplitMix,
}

/// Which attribute to emit; the payload data is looked up in the context.
#[derive(Debug, Clone, PartialEq)]
pub(crate) enum AttrItem {
    SourceFile,
    SourceDebugExtension,
    InnerClasses,
    EnclosingMethod,
    Signature,
    Synthetic,
    Deprecated,
    Annotations(bool),
    TypeAnnotations(bool),
    NestHost,
    NestMembers,
    PermittedSubclasses,
    Record,
    Module,
    ModulePackages,
    ModuleMainClass,
    BootstrapMethods,
    ConstantValue,
    Code,
    Exceptions,
    MethodParameters,
    AnnotationDefault,
    ParamAnnotations(bool),
    LineNumbers(usize, usize),
    LocalVars(usize, usize),
    LocalVarTypes(usize, usize),
    StackMapTable,
    Unknown(usize),
}

impl AttrItem {
    /// Items of the same non-zero group keep their relative order under
    /// shuffling.
    fn group(&self) -> u8 {
        match self {
            AttrItem::Unknown(_) => 1,
            AttrItem::LineNumbers(..) => 2,
            AttrItem::LocalVars(..) => 3,
            AttrItem::LocalVarTypes(..) => 4,
            _ => 0,
        }
    }
}

/// Where attributes are being written.
#[derive(Clone, Copy)]
pub(crate) enum Ctx<'a> {
    Class,
    Field(&'a Field),
    Method(usize, &'a Method),
    Code(&'a Method, &'a Code, &'a [usize]),
    Component(&'a RecordComponent),
}

fn fit16(n: usize, what: &str) -> Result<u16, String> {
    u16::try_from(n).map_err(|_| format!("{} does not fit in u16: {}", what, n))
}
fn fit8(n: usize, what: &str) -> Result<u8, String> {
    u8::try_from(n).map_err(|_| format!("{} does not fit in u8: {}", what, n))
}

impl<'a> Enc<'a> {
    pub fn run(sem: &'a Sem, layout: &'a Layout) -> Result<Encoded, String> {
        let mut e = Enc { sem, layout, pool: Pool::new(layout.seed), w: W::new(false), rng: SplitMix::new(layout.seed) };
        e.class()?; // collect pass
        e.pool.finalize(layout)?;
        e.w = W::new(layout.emit_map);
        e.rng = SplitMix::new(layout.seed);
        e.class()?;
        Ok(Encoded { bytes: e.w.buf, map: e.w.map })
    }

    pub fn cp(&mut self, name: &str, key: &CpKey) -> Result<(), String> {
        let i = self.pool.get(key)?;
        self.w.u16(K::CpIndex, name, i);
        Ok(())
    }
    pub fn cp_utf8(&mut self, name: &str, s: &JStr) -> Result<(), String> {
        self.cp(name, &CpKey::Utf8(s.clone()))
    }
    pub fn cp_class(&mut self, name: &str, s: &JStr) -> Result<(), String> {
        self.cp(name, &CpKey::Class(s.clone()))
    }
    fn cp_opt(&mut self, name: &str, key: Option<CpKey>) -> Result<(), String> {
        match key {
            Some(k) => self.cp(name, &k),
            None => {
                self.w.u16(K::CpIndex, name, 0);
                Ok(())
            }
        }
    }

    fn class(&mut self) -> Result<(), String> {
        let sem = self.sem;
        self.w.u32(K::Other, "magic", 0xCAFEBABE);
        self.w.u16(K::Other, "minor_version", sem.minor);
        self.w.u16(K::Other, "major_version", sem.major);
        if self.pool.is_frozen() {
            let mut w = std::mem::replace(&mut self.w, W::new(false));
            let r = self.pool.write(&mut w);
            self.w = w;
            r?;
        }
        self.w.u16(K::Flags, "access_flags", sem.access);
        self.cp_class("this_class", &sem.this_class)?;
        self.cp_opt("super_class", sem.super_class.as_ref().map(|s| CpKey::Class(s.clone())))?;
        let t = self.w.enter("interfaces");
        self.w.u16(K::Count, "count", fit16(sem.interfaces.len(), "interfaces_count")?);
        self.w.leave(t);
        for (i, itf) in sem.interfaces.iter().enumerate() {
            let t = self.w.enter_i("interface", i);
            self.cp_class("", itf)?;
            self.w.leave(t);
        }
        let t = self.w.enter("fields");
        self.w.u16(K::Count, "count", fit16(sem.fields.len(), "fields_count")?);
        self.w.leave(t);
        for (i, f) in sem.fields.iter().enumerate() {
            let start = self.w.pos();
            let t = self.w.enter_i("field", i);
            self.w.u16(K::Flags, "access_flags", f.access);
            self.cp_utf8("name_index", &f.name)?;
            self.cp_utf8("descriptor_index", &f.desc)?;
            self.attributes(Ctx::Field(f))?;
            self.w.span(start, K::Field(i));
            self.w.leave(t);
        }
        let t = self.w.enter("methods");
        self.w.u16(K::Count, "count", fit16(sem.methods.len(), "methods_count")?);
        self.w.leave(t);
        for (i, m) in sem.methods.iter().enumerate() {
            let start = self.w.pos();
            let t = self.w.enter_i("method", i);
            self.w.u16(K::Flags, "access_flags", m.access);
            self.cp_utf8("name_index", &m.name)?;
            self.cp_utf8("descriptor_index", &m.desc)?;
            self.attributes(Ctx::Method(i, m))?;
            self.w.span(start, K::Method(i));
            self.w.leave(t);
        }
        self.attributes(Ctx::Class)?;
        Ok(())
    }

    fn split(&mut self, n: usize, max_parts: u32, mk: fn(usize, usize) -> AttrItem, out: &mut Vec<AttrItem>) {
        if n == 0 {
            return;
        }
        let parts = if max_parts <= 1 { 1 } else { 1 + self.rng.below(max_parts as u64) as usize };
        let parts = parts.min(n);
        // cut points (parts may not be empty)
        let mut cuts: Vec<usize> = vec![0, n];
        while cuts.len() < parts + 1 {
            let c = 1 + self.rng.below(n as u64 - 1) as usize;
            if !cuts.contains(&c) {
                cuts.push(c);
            }
        }
        cuts.sort();
        for p in cuts.windows(2) {
            out.push(mk(p[0], p[1]));
        }
    }

    fn items<'c>(&mut self, ctx: Ctx<'c>) -> Vec<AttrItem>
    where
        'a: 'c, {
        use AttrItem as A;
        let mut v = Vec::new();
        fn common(v: &mut Vec<AttrItem>, sig: bool, synthetic: bool, deprecated: bool, a: &Annotations, t: &TypeAnnotations, unk: usize) {
            if sig {
                v.push(A::Signature);
            }
            if synthetic {
                v.push(A::Synthetic);
            }
            if deprecated {
                v.push(A::Deprecated);
            }
            if !a.visible.is_empty() {
                v.push(A::Annotations(true));
            }
            if !a.invisible.is_empty() {
                v.push(A::Annotations(false));
            }
            if !t.visible.is_empty() {
                v.push(A::TypeAnnotations(true));
            }
            if !t.invisible.is_empty() {
                v.push(A::TypeAnnotations(false));
            }
            for i in 0..unk {
                v.push(A::Unknown(i));
            }
        }
        match ctx {
            Ctx::Class => {
                let s = self.sem;
                if s.source_file.is_some() {
                    v.push(A::SourceFile);
                }
                if s.nest_host.is_some() {
                    v.push(A::NestHost);
                }
                if s.nest_members.is_some() {
                    v.push(A::NestMembers);
                }
                if s.permitted_subclasses.is_some() {
                    v.push(A::PermittedSubclasses);
                }
                if s.record.is_some() {
                    v.push(A::Record);
                }
                if s.enclosing_method.is_some() {
                    v.push(A::EnclosingMethod);
                }
                if s.source_debug_extension.is_some() {
                    v.push(A::SourceDebugExtension);
                }
                if s.module.is_some() {
                    v.push(A::Module);
                }
                if s.module_packages.is_some() {
                    v.push(A::ModulePackages);
                }
                if s.module_main_class.is_some() {
                    v.push(A::ModuleMainClass);
                }
                common(&mut v, s.signature.is_some(), s.synthetic, s.deprecated, &s.annotations, &s.type_annotations, s.unknown.len());
                if s.inner_classes.is_some() {
                    v.push(A::InnerClasses);
                }
                // In the collect pass the table is not known yet; emitting it
                // (possibly empty) is harmless. In the final pass: iff non-empty.
                if !self.pool.is_frozen() || !self.pool.bsms.is_empty() {
                    v.push(A::BootstrapMethods);
                }
            }
            Ctx::Field(f) => {
                if f.constant_value.is_some() {
                    v.push(A::ConstantValue);
                }
                common(&mut v, f.signature.is_some(), f.synthetic, f.deprecated, &f.annotations, &f.type_annotations, f.unknown.len());
            }
            Ctx::Method(_, m) => {
                if m.code.is_some() {
                    v.push(A::Code);
                }
                if m.exceptions.is_some() {
                    v.push(A::Exceptions);
                }
                if m.method_parameters.is_some() {
                    v.push(A::MethodParameters);
                }
                if m.annotation_default.is_some() {
                    v.push(A::AnnotationDefault);
                }
                if m.parameter_annotations.visible.is_some() {
                    v.push(A::ParamAnnotations(true));
                }
                if m.parameter_annotations.invisible.is_some() {
                    v.push(A::ParamAnnotations(false));
                }
                common(&mut v, m.signature.is_some(), m.synthetic, m.deprecated, &m.annotations, &m.type_annotations, m.unknown.len());
            }
            Ctx::Code(_, c, _) => {
                let mut lnt = Vec::new();
                let n = self.layout.split_line_numbers;
                self.split(c.line_numbers.len(), n, A::LineNumbers, &mut lnt);
                let mut lvt = Vec::new();
                let n = self.layout.split_local_vars;
                self.split(c.local_vars.len(), n, A::LocalVars, &mut lvt);
                self.split(c.local_var_types.len(), n, A::LocalVarTypes, &mut lvt);
                if self.layout.lvt_before_lnt {
                    v.extend(lvt);
                    v.extend(lnt);
                } else {
                    v.extend(lnt);
                    v.extend(lvt);
                }
                if !c.frames.is_empty() {
                    v.push(A::StackMapTable);
                }
                common(&mut v, false, false, false, &Annotations::default(), &c.type_annotations, c.unknown.len());
            }
            Ctx::Component(rc) => {
                common(&mut v, rc.signature.is_some(), false, false, &rc.annotations, &rc.type_annotations, rc.unknown.len());
            }
        }
        if self.layout.shuffle_attrs && v.len() > 1 {
            let original = v.clone();
            shuffle(&mut self.rng, &mut v);
            // restore the relative order inside each ordered group
            for g in 1..=4u8 {
                let pos: Vec<usize> = (0..v.len()).filter(|&i| v[i].group() == g).collect();
                let members: Vec<AttrItem> = original.iter().filter(|a| a.group() == g).cloned().collect();
                for (p, m) in pos.into_iter().zip(members) {
                    v[p] = m;
                }
            }
            // BootstrapMethods must come after everything that can add
            // bootstrap entries in the collect pass: nothing at class level
            // can, so any position is fine.
        }
        v
    }

    pub fn attributes<'c>(&mut self, ctx: Ctx<'c>) -> Result<(), String>
    where
        'a: 'c,
    {
        let items = self.items(ctx);
        let t = self.w.enter("attributes");
        self.w.u16(K::Count, "count", fit16(items.len(), "attributes_count")?);
        self.w.leave(t);
        for (k, it) in items.iter().enumerate() {
            let t = self.w.enter_i("attr", k);
            self.attribute(ctx, it)?;
            self.w.leave(t);
        }
        Ok(())
    }

    fn attribute<'c>(&mut self, ctx: Ctx<'c>, it: &AttrItem) -> Result<(), String>
    where
        'a: 'c,
    {
        use AttrItem as A;
        let unknown_list: &'c [UnknownAttr] = match ctx {
            Ctx::Class => &self.sem.unknown,
            Ctx::Field(f) => &f.unknown,
            Ctx::Method(_, m) => &m.unknown,
            Ctx::Code(_, c, _) => &c.unknown,
            Ctx::Component(rc) => &rc.unknown,
        };
        let name: JStr = match it {
            A::SourceFile => "SourceFile".into(),
            A::SourceDebugExtension => "SourceDebugExtension".into(),
            A::InnerClasses => "InnerClasses".into(),
            A::EnclosingMethod => "EnclosingMethod".into(),
            A::Signature => "Signature".into(),
            A::Synthetic => "Synthetic".into(),
            A::Deprecated => "Deprecated".into(),
            A::Annotations(true) => "RuntimeVisibleAnnotations".into(),
            A::Annotations(false) => "RuntimeInvisibleAnnotations".into(),
            A::TypeAnnotations(true) => "RuntimeVisibleTypeAnnotations".into(),
            A::TypeAnnotations(false) => "RuntimeInvisibleTypeAnnotations".into(),
            A::NestHost => "NestHost".into(),
            A::NestMembers => "NestMembers".into(),
            A::PermittedSubclasses => "PermittedSubclasses".into(),
            A::Record => "Record".into(),
            A::Module => "Module".into(),
            A::ModulePackages => "ModulePackages".into(),
            A::ModuleMainClass => "ModuleMainClass".into(),
            A::BootstrapMethods => "BootstrapMethods".into(),
            A::ConstantValue => "ConstantValue".into(),
            A::Code => "Code".into(),
            A::Exceptions => "Exceptions".into(),
            A::MethodParameters => "MethodParameters".into(),
            A::AnnotationDefault => "AnnotationDefault".into(),
            A::ParamAnnotations(true) => "RuntimeVisibleParameterAnnotations".into(),
            A::ParamAnnotations(false) => "RuntimeInvisibleParameterAnnotations".into(),
            A::LineNumbers(..) => "LineNumberTable".into(),
            A::LocalVars(..) => "LocalVariableTable".into(),
            A::LocalVarTypes(..) => "LocalVariableTypeTable".into(),
            A::StackMapTable if self.layout.frames == super::FrameEnc::Cldc => "StackMap".into(),
            A::StackMapTable => "StackMapTable".into(),
            A::Unknown(i) => unknown_list[*i].name.clone(),
        };
        let start = self.w.pos();
        let name_s = name.to_string_lossy();
        let t = self.w.enter(&name_s);
        self.cp_utf8("attribute_name_index", &name)?;
        let len_at = self.w.pos();
        self.w.u32(K::Length, "attribute_length", 0);
        let body = self.w.pos();
        self.attr_body(ctx, it, unknown_list)?;
        let len = self.w.pos() - body;
        let len32 = u32::try_from(len).map_err(|_| "attribute too long".to_string())?;
        self.w.patch_u32(len_at, len32);
        if let (A::Code, Ctx::Method(i, _)) = (it, ctx) {
            self.w.span(start, K::CodeAttr(i));
        }
        self.w.span(start, K::Attribute { name: name_s });
        self.w.leave(t);
        Ok(())
    }

    fn class_list(&mut self, list: &[JStr], count_name: &str) -> Result<(), String> {
        self.w.u16(K::Count, count_name, fit16(list.len(), count_name)?);
        for (i, c) in list.iter().enumerate() {
            let t = self.w.enter_i("class", i);
            self.cp_class("", c)?;
            self.w.leave(t);
        }
        Ok(())
    }

    fn attr_body<'c>(&mut self, ctx: Ctx<'c>, it: &AttrItem, unknown_list: &'c [UnknownAttr]) -> Result<(), String>
    where
        'a: 'c,
    {
        use AttrItem as A;
        let sem = self.sem;
        match it {
            A::Unknown(i) => self.w.bytes(K::Other, "info", &unknown_list[*i].bytes),
            A::Synthetic | A::Deprecated => {}
            A::SourceFile => self.cp_utf8("sourcefile_index", sem.source_file.as_ref().unwrap())?,
            A::SourceDebugExtension => self.w.bytes(K::Other, "debug_extension", sem.source_debug_extension.as_ref().unwrap()),
            A::Signature => {
                let s = match ctx {
                    Ctx::Class => sem.signature.as_ref(),
                    Ctx::Field(f) => f.signature.as_ref(),
                    Ctx::Method(_, m) => m.signature.as_ref(),
                    Ctx::Component(rc) => rc.signature.as_ref(),
                    Ctx::Code(..) => None,
                };
                self.cp_utf8("signature_index", s.ok_or("internal: no signature")?)?;
            }
            A::InnerClasses => {
                let l = sem.inner_classes.as_ref().unwrap();
                self.w.u16(K::Count, "number_of_classes", fit16(l.len(), "number_of_classes")?);
                for (i, ic) in l.iter().enumerate() {
                    let t = self.w.enter_i("class", i);
                    self.cp_class("inner_class_info_index", &ic.inner)?;
                    self.cp_opt("outer_class_info_index", ic.outer.as_ref().map(|s| CpKey::Class(s.clone())))?;
                    self.cp_opt("inner_name_index", ic.inner_name.as_ref().map(|s| CpKey::Utf8(s.clone())))?;
                    self.w.u16(K::Flags, "inner_class_access_flags", ic.access);
                    self.w.leave(t);
                }
            }
            A::EnclosingMethod => {
                let em = sem.enclosing_method.as_ref().unwrap();
                self.cp_class("class_index", &em.class)?;
                self.cp_opt("method_index", em.method.as_ref().map(|(n, d)| CpKey::Nat(n.clone(), d.clone())))?;
            }
            A::NestHost => self.cp_class("host_class_index", sem.nest_host.as_ref().unwrap())?,
            A::NestMembers => self.class_list(sem.nest_members.as_ref().unwrap(), "number_of_classes")?,
            A::PermittedSubclasses => self.class_list(sem.permitted_subclasses.as_ref().unwrap(), "number_of_classes")?,
            A::ModuleMainClass => self.cp_class("main_class_index", sem.module_main_class.as_ref().unwrap())?,
            A::ModulePackages => {
                let l = sem.module_packages.as_ref().unwrap();
                self.w.u16(K::Count, "package_count", fit16(l.len(), "package_count")?);
                for (i, p) in l.iter().enumerate() {
                    let t = self.w.enter_i("package", i);
                    self.cp("", &CpKey::Package(p.clone()))?;
                    self.w.leave(t);
                }
            }
            A::Module => self.module(sem.module.as_ref().unwrap())?,
            A::Record => {
                let l = sem.record.as_ref().unwrap();
                self.w.u16(K::Count, "components_count", fit16(l.len(), "components_count")?);
                for (i, rc) in l.iter().enumerate() {
                    let t = self.w.enter_i("component", i);
                    self.cp_utf8("name_index", &rc.name)?;
                    self.cp_utf8("descriptor_index", &rc.desc)?;
                    self.attributes(Ctx::Component(rc))?;
                    self.w.leave(t);
                }
            }
            A::BootstrapMethods => {
                self.w.u16(K::Count, "num_bootstrap_methods", fit16(self.pool.bsms.len(), "num_bootstrap_methods")?);
                let mut i = 0;
                // the list may grow during the collect pass (nested condy)
                while i < self.pool.bsms.len() {
                    let b = self.pool.bsms[i].clone();
                    let t = self.w.enter_i("bsm", i);
                    self.cp("bootstrap_method_ref", &handle_key(&b.0))?;
                    self.w.u16(K::Count, "num_bootstrap_arguments", fit16(b.1.len(), "num_bootstrap_arguments")?);
                    for (j, a) in b.1.iter().enumerate() {
                        let t2 = self.w.enter_i("arg", j);
                        self.cp("", &const_key(a))?;
                        self.w.leave(t2);
                    }
                    self.w.leave(t);
                    i += 1;
                }
            }
            A::ConstantValue => {
                let f = match ctx {
                    Ctx::Field(f) => f,
                    _ => return Err("internal: ConstantValue outside field".into()),
                };
                let k = match f.constant_value.as_ref().unwrap() {
                    ConstValue::Int(v) => CpKey::Int(*v),
                    ConstValue::Float(v) => CpKey::Float(*v),
                    ConstValue::Long(v) => CpKey::Long(*v),
                    ConstValue::Double(v) => CpKey::Double(*v),
                    ConstValue::String(s) => CpKey::String(s.clone()),
                };
                self.cp("constantvalue_index", &k)?;
            }
            A::Annotations(vis) => {
                let a = match ctx {
                    Ctx::Class => &sem.annotations,
                    Ctx::Field(f) => &f.annotations,
                    Ctx::Method(_, m) => &m.annotations,
                    Ctx::Component(rc) => &rc.annotations,
                    Ctx::Code(..) => return Err("internal: annotations in code".into()),
                };
                let l = if *vis { &a.visible } else { &a.invisible };
                self.annotation_list(l)?;
            }
            A::TypeAnnotations(vis) => {
                let (a, off): (&TypeAnnotations, Option<&[usize]>) = match ctx {
                    Ctx::Class => (&sem.type_annotations, None),
                    Ctx::Field(f) => (&f.type_annotations, None),
                    Ctx::Method(_, m) => (&m.type_annotations, None),
                    Ctx::Component(rc) => (&rc.type_annotations, None),
                    Ctx::Code(_, c, off) => (&c.type_annotations, Some(off)),
                };
                let l = if *vis { &a.visible } else { &a.invisible };
                self.w.u16(K::Count, "num_annotations", fit16(l.len(), "num_annotations")?);
                for (i, ta) in l.iter().enumerate() {
                    let t = self.w.enter_i("annotation", i);
                    self.type_annotation(ta, off)?;
                    self.w.leave(t);
                }
            }
            A::ParamAnnotations(vis) => {
                let m = match ctx {
                    Ctx::Method(_, m) => m,
                    _ => return Err("internal: parameter annotations outside method".into()),
                };
                let l = if *vis { &m.parameter_annotations.visible } else { &m.parameter_annotations.invisible };
                let l = l.as_ref().unwrap();
                self.w.u8(K::Count, "num_parameters", fit8(l.len(), "num_parameters")?);
                for (i, p) in l.iter().enumerate() {
                    let t = self.w.enter_i("parameter", i);
                    self.annotation_list(p)?;
                    self.w.leave(t);
                }
            }
            A::Exceptions => {
                let m = match ctx {
                    Ctx::Method(_, m) => m,
                    _ => return Err("internal: Exceptions outside method".into()),
                };
                self.class_list(m.exceptions.as_ref().unwrap(), "number_of_exceptions")?;
            }
            A::MethodParameters => {
                let m = match ctx {
                    Ctx::Method(_, m) => m,
                    _ => return Err("internal: MethodParameters outside method".into()),
                };
                let l = m.method_parameters.as_ref().unwrap();
                self.w.u8(K::Count, "parameters_count", fit8(l.len(), "parameters_count")?);
                for (i, p) in l.iter().enumerate() {
                    let t = self.w.enter_i("parameter", i);
                    self.cp_opt("name_index", p.name.as_ref().map(|s| CpKey::Utf8(s.clone())))?;
                    self.w.u16(K::Flags, "access_flags", p.access);
                    self.w.leave(t);
                }
            }
            A::AnnotationDefault => {
                let m = match ctx {
                    Ctx::Method(_, m) => m,
                    _ => return Err("internal: AnnotationDefault outside method".into()),
                };
                let t = self.w.enter("default_value");
                self.element_value(m.annotation_default.as_ref().unwrap(), 0)?;
                self.w.leave(t);
            }
            A::Code => {
                let (i, m) = match ctx {
                    Ctx::Method(i, m) => (i, m),
                    _ => return Err("internal: Code outside method".into()),
                };
                self.code(i, m, m.code.as_ref().unwrap())?;
            }
            A::LineNumbers(a, b) | A::LocalVars(a, b) | A::LocalVarTypes(a, b) => {
                let (c, off) = match ctx {
                    Ctx::Code(_, c, off) => (c, off),
                    _ => return Err("internal: code table outside code".into()),
                };
                self.code_table(it, c, off, *a, *b)?;
            }
            A::StackMapTable => {
                let (m, c, off) = match ctx {
                    Ctx::Code(m, c, off) => (m, c, off),
                    _ => return Err("internal: StackMapTable outside code".into()),
                };
                self.stack_map_table(m, c, off)?;
            }
        }
        Ok(())
    }

    fn module(&mut self, m: &Module) -> Result<(), String> {
        self.cp("module_name_index", &CpKey::Module(m.name.clone()))?;
        self.w.u16(K::Flags, "module_flags", m.flags);
        self.cp_opt("module_version_index", m.version.as_ref().map(|s| CpKey::Utf8(s.clone())))?;
        self.w.u16(K::Count, "requires_count", fit16(m.requires.len(), "requires_count")?);
        for (i, r) in m.requires.iter().enumerate() {
            let t = self.w.enter_i("requires", i);
            self.cp("requires_index", &CpKey::Module(r.module.clone()))?;
            self.w.u16(K::Flags, "requires_flags", r.flags);
            self.cp_opt("requires_version_index", r.version.as_ref().map(|s| CpKey::Utf8(s.clone())))?;
            self.w.leave(t);
        }
        for (what, list) in [("exports", &m.exports), ("opens", &m.opens)] {
            self.w.u16(K::Count, &format!("{}_count", what), fit16(list.len(), what)?);
            for (i, e) in list.iter().enumerate() {
                let t = self.w.enter_i(what, i);
                self.cp(&format!("{}_index", what), &CpKey::Package(e.package.clone()))?;
                self.w.u16(K::Flags, &format!("{}_flags", what), e.flags);
                self.w.u16(K::Count, &format!("{}_to_count", what), fit16(e.to.len(), "to_count")?);
                for (j, to) in e.to.iter().enumerate() {
                    let t2 = self.w.enter_i("to", j);
                    self.cp("", &CpKey::Module(to.clone()))?;
                    self.w.leave(t2);
                }
                self.w.leave(t);
            }
        }
        self.w.u16(K::Count, "uses_count", fit16(m.uses.len(), "uses_count")?);
        for (i, u) in m.uses.iter().enumerate() {
            let t = self.w.enter_i("uses", i);
            self.cp_class("", u)?;
            self.w.leave(t);
        }
        self.w.u16(K::Count, "provides_count", fit16(m.provides.len(), "provides_count")?);
        for (i, p) in m.provides.iter().enumerate() {
            let t = self.w.enter_i("provides", i);
            self.cp_class("provides_index", &p.service)?;
            self.w.u16(K::Count, "provides_with_count", fit16(p.with.len(), "provides_with_count")?);
            for (j, c) in p.with.iter().enumerate() {
                let t2 = self.w.enter_i("with", j);
                self.cp_class("", c)?;
                self.w.leave(t2);
            }
            self.w.leave(t);
        }
        Ok(())
    }

    fn annotation_list(&mut self, l: &[Annotation]) -> Result<(), String> {
        self.w.u16(K::Count, "num_annotations", fit16(l.len(), "num_annotations")?);
        for (i, a) in l.iter().enumerate() {
            let t = self.w.enter_i("annotation", i);
            self.annotation(a, 0)?;
            self.w.leave(t);
        }
        Ok(())
    }

    fn annotation(&mut self, a: &Annotation, depth: usize) -> Result<(), String> {
        if depth > 200 {
            return Err("annotation nesting too deep".into());
        }
        self.cp_utf8("type_index", &a.type_desc)?;
        self.w.u16(K::Count, "num_element_value_pairs", fit16(a.pairs.len(), "num_element_value_pairs")?);
        for (i, p) in a.pairs.iter().enumerate() {
            let t = self.w.enter_i("pair", i);
            self.cp_utf8("element_name_index", &p.name)?;
            let t2 = self.w.enter("value");
            self.element_value(&p.value, depth + 1)?;
            self.w.leave(t2);
            self.w.leave(t);
        }
        Ok(())
    }

    fn element_value(&mut self, v: &ElementValue, depth: usize) -> Result<(), String> {
        if depth > 200 {
            return Err("annotation nesting too deep".into());
        }
        self.w.u8(K::Tag, "tag", v.tag());
        match v {
            ElementValue::Byte(x) | ElementValue::Char(x) | ElementValue::Int(x) | ElementValue::Short(x) | ElementValue::Boolean(x) => {
                self.cp("const_value_index", &CpKey::Int(*x))?
            }
            ElementValue::Double(x) => self.cp("const_value_index", &CpKey::Double(*x))?,
            ElementValue::Float(x) => self.cp("const_value_index", &CpKey::Float(*x))?,
            ElementValue::Long(x) => self.cp("const_value_index", &CpKey::Long(*x))?,
            ElementValue::String(s) => self.cp_utf8("const_value_index", s)?,
            ElementValue::Enum { type_desc, const_name } => {
                self.cp_utf8("type_name_index", type_desc)?;
                self.cp_utf8("const_name_index", const_name)?;
            }
            ElementValue::Class(s) => self.cp_utf8("class_info_index", s)?,
            ElementValue::Annotation(a) => self.annotation(a, depth + 1)?,
            ElementValue::Array(l) => {
                self.w.u16(K::Count, "num_values", fit16(l.len(), "num_values")?);
                for (i, e) in l.iter().enumerate() {
                    let t = self.w.enter_i("value", i);
                    self.element_value(e, depth + 1)?;
                    self.w.leave(t);
                }
            }
        }
        Ok(())
    }

    fn type_annotation(&mut self, ta: &TypeAnnotation, off: Option<&[usize]>) -> Result<(), String> {
        let pc = |i: usize| -> Result<u16, String> {
            let off = off.ok_or("type annotation with code offset outside Code")?;
            let o = *off.get(i).ok_or("type annotation offset: instruction index out of range")?;
            fit16(o, "type annotation offset")
        };
        self.w.u8(K::Tag, "target_type", ta.target.target_type());
        match &ta.target {
            Target::TypeParameter { index, .. } => self.w.u8(K::Other, "type_parameter_index", *index),
            Target::Supertype(i) => self.w.u16(K::Other, "supertype_index", *i),
            Target::TypeParameterBound { param, bound, .. } => {
                self.w.u8(K::Other, "type_parameter_index", *param);
                self.w.u8(K::Other, "bound_index", *bound);
            }
            Target::Empty(_) => {}
            Target::FormalParameter(i) => self.w.u8(K::Other, "formal_parameter_index", *i),
            Target::Throws(i) => self.w.u16(K::Other, "throws_type_index", *i),
            Target::LocalVar { table, .. } => {
                self.w.u16(K::Count, "table_length", fit16(table.len(), "table_length")?);
                for (i, e) in table.iter().enumerate() {
                    let t = self.w.enter_i("table", i);
                    let s = pc(e.start)?;
                    let en = pc(e.end)?;
                    if en < s {
                        return Err("localvar target: end before start".into());
                    }
                    self.w.u16(K::CodeOffset, "start_pc", s);
                    self.w.u16(K::CodeOffset, "length", en - s);
                    self.w.u16(K::Other, "index", e.slot);
                    self.w.leave(t);
                }
            }
            Target::Catch(i) => self.w.u16(K::Other, "exception_table_index", *i),
            Target::Offset { at, .. } => {
                let o = pc(*at)?;
                self.w.u16(K::CodeOffset, "offset", o);
            }
            Target::TypeArgument { at, index, .. } => {
                let o = pc(*at)?;
                self.w.u16(K::CodeOffset, "offset", o);
                self.w.u8(K::Other, "type_argument_index", *index);
            }
        }
        self.w.u8(K::Count, "path_length", fit8(ta.path.len(), "path_length")?);
        for (i, s) in ta.path.iter().enumerate() {
            let t = self.w.enter_i("path", i);
            self.w.u8(K::Tag, "type_path_kind", s.kind);
            self.w.u8(K::Other, "type_argument_index", s.arg);
            self.w.leave(t);
        }
        self.annotation(&ta.annotation, 0)
    }
}
