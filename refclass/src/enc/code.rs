//! Emission of the Code attribute body, code tables and StackMapTable.

use super::super::pool::{const_key, member_key, CpKey};
use super::super::{roll, FrameEnc, SpanKind as K};
use super::{fit16, AttrItem, Ctx, Enc};
use crate::desc;
use crate::op;
use crate::sem::*;
use crate::Choice;

/// A pre-encoded instruction.
enum Item {
    /// Fully encoded; spans are (offset in insn, len, kind, name).
    Fixed(Vec<u8>, Vec<(usize, usize, K, &'static str)>),
    Cond(u8, usize),
    Jump { jsr: bool, target: usize, wide: bool },
    Table { default: usize, low: i32, targets: Vec<usize> },
    Lookup { default: usize, pairs: Vec<(i32, usize)> },
}

fn pad(at: usize) -> usize {
    // bytes after the opcode at `at` so that the next byte is 4-aligned
    (4 - ((at + 1) % 4)) % 4
}

impl Item {
    fn size(&self, at: usize) -> usize {
        match self {
            Item::Fixed(b, _) => b.len(),
            Item::Cond(..) => 3,
            Item::Jump { wide, .. } => if *wide { 5 } else { 3 },
            Item::Table { targets, .. } => 1 + pad(at) + 12 + 4 * targets.len(),
            Item::Lookup { pairs, .. } => 1 + pad(at) + 8 + 8 * pairs.len(),
        }
    }
}

impl<'a> Enc<'a> {
    fn fixed_cp(&mut self, opc: u8, key: &CpKey, extra: &[u8], extra_name: &'static str) -> Result<Item, String> {
        let i = self.pool.get(key)?;
        let mut b = vec![opc, (i >> 8) as u8, i as u8];
        b.extend_from_slice(extra);
        let mut spans = vec![(0, 1, K::Opcode, "opcode"), (1, 2, K::CpIndex, "cp_index")];
        if !extra.is_empty() {
            spans.push((3, extra.len(), K::Other, extra_name));
        }
        Ok(Item::Fixed(b, spans))
    }

    fn local_insn(&mut self, base: u8, short_base: Option<u8>, idx: u16) -> Item {
        // base: the one-byte-index opcode; short_base: opcode of the _0 form
        let l = self.layout;
        let wide = idx > 255 || roll(&mut self.rng, l.p_local_wide);
        if wide {
            return Item::Fixed(
                vec![op::WIDE, base, (idx >> 8) as u8, idx as u8],
                vec![(0, 1, K::Opcode, "wide"), (1, 1, K::Opcode, "opcode"), (2, 2, K::Other, "local_index")],
            );
        }
        if let Some(sb) = short_base {
            if idx <= 3 && !roll(&mut self.rng, l.p_local_explicit) {
                return Item::Fixed(vec![sb + idx as u8], vec![(0, 1, K::Opcode, "opcode")]);
            }
        }
        Item::Fixed(vec![base, idx as u8], vec![(0, 1, K::Opcode, "opcode"), (1, 1, K::Other, "local_index")])
    }

    fn item(&mut self, insn: &Insn) -> Result<Item, String> {
        let l = self.layout;
        Ok(match insn {
            Insn::Simple(o) => {
                if !op::is_simple(*o) {
                    return Err(format!("Insn::Simple({}) is not a simple opcode", o));
                }
                Item::Fixed(vec![*o], vec![(0, 1, K::Opcode, "opcode")])
            }
            Insn::BiPush(v) => Item::Fixed(vec![op::BIPUSH, *v as u8], vec![(0, 1, K::Opcode, "opcode"), (1, 1, K::Other, "value")]),
            Insn::SiPush(v) => Item::Fixed(
                vec![op::SIPUSH, (*v >> 8) as u8, *v as u8],
                vec![(0, 1, K::Opcode, "opcode"), (1, 2, K::Other, "value")],
            ),
            Insn::Ldc(c) => {
                let key = const_key(c);
                let i = self.pool.get(&key)?;
                if c.is_wide() {
                    Item::Fixed(vec![op::LDC2_W, (i >> 8) as u8, i as u8], vec![(0, 1, K::Opcode, "opcode"), (1, 2, K::CpIndex, "cp_index")])
                } else if i <= 255 && !roll(&mut self.rng, l.p_ldc_w) {
                    Item::Fixed(vec![op::LDC, i as u8], vec![(0, 1, K::Opcode, "opcode"), (1, 1, K::CpIndex, "cp_index")])
                } else {
                    Item::Fixed(vec![op::LDC_W, (i >> 8) as u8, i as u8], vec![(0, 1, K::Opcode, "opcode"), (1, 2, K::CpIndex, "cp_index")])
                }
            }
            Insn::Load(k, i) => self.local_insn(op::ILOAD + k.ordinal(), Some(op::ILOAD_0 + 4 * k.ordinal()), *i),
            Insn::Store(k, i) => self.local_insn(op::ISTORE + k.ordinal(), Some(op::ISTORE_0 + 4 * k.ordinal()), *i),
            Insn::Ret(i) => self.local_insn(op::RET, None, *i),
            Insn::Iinc(i, d) => {
                let fits = *i <= 255 && (-128..=127).contains(d);
                if fits && !roll(&mut self.rng, l.p_iinc_wide) {
                    Item::Fixed(
                        vec![op::IINC, *i as u8, *d as u8],
                        vec![(0, 1, K::Opcode, "opcode"), (1, 1, K::Other, "local_index"), (2, 1, K::Other, "delta")],
                    )
                } else {
                    Item::Fixed(
                        vec![op::WIDE, op::IINC, (*i >> 8) as u8, *i as u8, (*d >> 8) as u8, *d as u8],
                        vec![(0, 1, K::Opcode, "wide"), (1, 1, K::Opcode, "opcode"), (2, 2, K::Other, "local_index"), (4, 2, K::Other, "delta")],
                    )
                }
            }
            Insn::Branch(o, t) => {
                if !op::is_cond_branch(*o) {
                    return Err(format!("Insn::Branch({}) is not a conditional branch opcode", o));
                }
                Item::Cond(*o, *t)
            }
            Insn::Goto(t) => Item::Jump { jsr: false, target: *t, wide: roll(&mut self.rng, l.p_goto_w) },
            Insn::Jsr(t) => Item::Jump { jsr: true, target: *t, wide: roll(&mut self.rng, l.p_goto_w) },
            Insn::TableSwitch { default, low, targets } => {
                if targets.is_empty() || (*low as i64 + targets.len() as i64 - 1) > i32::MAX as i64 {
                    return Err("tableswitch: empty or high overflows".into());
                }
                Item::Table { default: *default, low: *low, targets: targets.clone() }
            }
            Insn::LookupSwitch { default, pairs } => Item::Lookup { default: *default, pairs: pairs.clone() },
            Insn::Field(o, m) => self.fixed_cp(o.opcode(), &member_key(m, true), &[], "")?,
            Insn::Invoke(o, m) => {
                let key = member_key(m, false);
                if *o == InvokeOp::Interface {
                    let n = desc::method_arg_slots(m.desc.as_bytes()).ok_or("invokeinterface: malformed descriptor")? + 1;
                    if n > 255 {
                        return Err("invokeinterface: count > 255".into());
                    }
                    let i = self.pool.get(&key)?;
                    Item::Fixed(
                        vec![op::INVOKEINTERFACE, (i >> 8) as u8, i as u8, n as u8, 0],
                        vec![(0, 1, K::Opcode, "opcode"), (1, 2, K::CpIndex, "cp_index"), (3, 1, K::Count, "count"), (4, 1, K::Other, "zero")],
                    )
                } else {
                    self.fixed_cp(o.opcode(), &key, &[], "")?
                }
            }
            Insn::InvokeDynamic(d) => {
                let key = CpKey::Indy(Box::new((d.bsm.clone(), d.args.clone())), d.name.clone(), d.desc.clone());
                self.fixed_cp(op::INVOKEDYNAMIC, &key, &[0, 0], "zero")?
            }
            Insn::New(c) => self.fixed_cp(op::NEW, &CpKey::Class(c.clone()), &[], "")?,
            Insn::ANewArray(c) => self.fixed_cp(op::ANEWARRAY, &CpKey::Class(c.clone()), &[], "")?,
            Insn::CheckCast(c) => self.fixed_cp(op::CHECKCAST, &CpKey::Class(c.clone()), &[], "")?,
            Insn::InstanceOf(c) => self.fixed_cp(op::INSTANCEOF, &CpKey::Class(c.clone()), &[], "")?,
            Insn::MultiANewArray(c, d) => self.fixed_cp(op::MULTIANEWARRAY, &CpKey::Class(c.clone()), &[*d], "dimensions")?,
            Insn::NewArray(t) => Item::Fixed(vec![op::NEWARRAY, t.atype()], vec![(0, 1, K::Opcode, "opcode"), (1, 1, K::Other, "atype")]),
        })
    }

    pub(super) fn code(&mut self, mi: usize, m: &Method, c: &Code) -> Result<(), String> {
        let n = c.insns.len();
        let mut items = Vec::with_capacity(n);
        for insn in &c.insns {
            items.push(self.item(insn)?);
        }
        // offsets, iterating until every unconditional jump has a width that fits
        let mut off = vec![0usize; n + 1];
        let check = |t: usize| -> Result<usize, String> {
            if t < n {
                Ok(t)
            } else {
                Err(format!("branch target {} out of range (insns: {})", t, n))
            }
        };
        loop {
            let mut at = 0usize;
            for (i, it) in items.iter().enumerate() {
                off[i] = at;
                at += it.size(at);
            }
            off[n] = at;
            let mut changed = false;
            for (i, it) in items.iter_mut().enumerate() {
                match it {
                    Item::Jump { target, wide, .. } if !*wide => {
                        let d = off[check(*target)?] as i64 - off[i] as i64;
                        if d < -32768 || d > 32767 {
                            *wide = true;
                            changed = true;
                        }
                    }
                    _ => {}
                }
            }
            if !changed {
                break;
            }
        }
        let code_len = off[n];
        // In the collect pass the pool indices are provisional (first-use order), so `ldc` widths and with them all
        // distances may still change: limits are judged in the final pass only.
        let final_pass = self.pool.is_frozen();
        if final_pass && (code_len == 0 || code_len > 65535) {
            return Err(format!("code_length {} not in 1..=65535", code_len));
        }
        for (i, it) in items.iter().enumerate() {
            if !final_pass {
                break;
            }
            if let Item::Cond(_, t) = it {
                let d = off[check(*t)?] as i64 - off[i] as i64;
                if d < -32768 || d > 32767 {
                    return Err(format!("needs-trampoline: conditional branch insn[{}] offset {}", i, d));
                }
            }
        }

        self.w.u16(K::Other, "max_stack", c.max_stack);
        self.w.u16(K::Other, "max_locals", c.max_locals);
        self.w.u32(K::Length, "code_length", code_len as u32);
        let code_start = self.w.pos();
        for (i, it) in items.iter().enumerate() {
            let t = self.w.enter_i("insn", i);
            let base = self.w.pos();
            debug_assert_eq!(base - code_start, off[i]);
            let rel = |target: usize| -> Result<i64, String> { Ok(off[check(target)?] as i64 - off[i] as i64) };
            match it {
                Item::Fixed(b, spans) => {
                    if self.w.on {
                        let mut p = 0;
                        for (o, l, k, name) in spans {
                            debug_assert_eq!(*o, p);
                            self.w.bytes(k.clone(), name, &b[*o..*o + *l]);
                            p = o + l;
                        }
                        debug_assert_eq!(p, b.len());
                    } else {
                        self.w.buf.extend_from_slice(b);
                    }
                }
                Item::Cond(o, target) => {
                    self.w.u8(K::Opcode, "opcode", *o);
                    self.w.u16(K::BranchOffset, "branch", rel(*target)? as i16 as u16);
                }
                Item::Jump { jsr, target, wide } => {
                    let d = rel(*target)?;
                    if *wide {
                        self.w.u8(K::Opcode, "opcode", if *jsr { op::JSR_W } else { op::GOTO_W });
                        self.w.u32(K::BranchOffset, "branch", d as i32 as u32);
                    } else {
                        self.w.u8(K::Opcode, "opcode", if *jsr { op::JSR } else { op::GOTO });
                        self.w.u16(K::BranchOffset, "branch", d as i16 as u16);
                    }
                }
                Item::Table { default, low, targets } => {
                    self.w.u8(K::Opcode, "opcode", op::TABLESWITCH);
                    let p = pad(off[i]);
                    self.w.bytes(K::Other, "padding", &[0u8; 3][..p]);
                    self.w.u32(K::BranchOffset, "default", rel(*default)? as i32 as u32);
                    self.w.u32(K::Other, "low", *low as u32);
                    self.w.u32(K::Other, "high", (*low as i64 + targets.len() as i64 - 1) as i32 as u32);
                    for (j, tg) in targets.iter().enumerate() {
                        let t2 = self.w.enter_i("target", j);
                        self.w.u32(K::BranchOffset, "", rel(*tg)? as i32 as u32);
                        self.w.leave(t2);
                    }
                }
                Item::Lookup { default, pairs } => {
                    self.w.u8(K::Opcode, "opcode", op::LOOKUPSWITCH);
                    let p = pad(off[i]);
                    self.w.bytes(K::Other, "padding", &[0u8; 3][..p]);
                    self.w.u32(K::BranchOffset, "default", rel(*default)? as i32 as u32);
                    self.w.u32(K::Count, "npairs", pairs.len() as u32);
                    for (j, (key, tg)) in pairs.iter().enumerate() {
                        let t2 = self.w.enter_i("pair", j);
                        self.w.u32(K::Other, "match", *key as u32);
                        self.w.u32(K::BranchOffset, "offset", rel(*tg)? as i32 as u32);
                        self.w.leave(t2);
                    }
                }
            }
            self.w.leave(t);
        }
        debug_assert_eq!(self.w.pos() - code_start, code_len);
        self.w.span(code_start, K::CodeBytes(mi));

        let pc = |i: usize, what: &str| -> Result<u16, String> {
            off.get(i).map(|o| *o as u16).ok_or_else(|| format!("{}: instruction index {} out of range", what, i))
        };
        self.w.u16(K::Count, "exception_table_length", fit16(c.exceptions.len(), "exception_table_length")?);
        for (i, e) in c.exceptions.iter().enumerate() {
            let t = self.w.enter_i("exception", i);
            self.w.u16(K::CodeOffset, "start_pc", pc(e.start, "exception start")?);
            self.w.u16(K::CodeOffset, "end_pc", pc(e.end, "exception end")?);
            self.w.u16(K::CodeOffset, "handler_pc", pc(e.handler, "exception handler")?);
            match &e.catch_type {
                Some(ct) => self.cp_class("catch_type", ct)?,
                None => self.w.u16(K::CpIndex, "catch_type", 0),
            }
            self.w.leave(t);
        }
        self.attributes(Ctx::Code(m, c, &off))
    }

    pub(super) fn code_table(&mut self, it: &AttrItem, c: &Code, off: &[usize], a: usize, b: usize) -> Result<(), String> {
        let pc = |i: usize, what: &str| -> Result<u16, String> {
            off.get(i).map(|o| *o as u16).ok_or_else(|| format!("{}: instruction index {} out of range", what, i))
        };
        match it {
            AttrItem::LineNumbers(..) => {
                self.w.u16(K::Count, "line_number_table_length", fit16(b - a, "line_number_table_length")?);
                for (i, e) in c.line_numbers[a..b].iter().enumerate() {
                    let t = self.w.enter_i("entry", i);
                    if e.at >= off.len() - 1 {
                        return Err("line number: instruction index out of range".into());
                    }
                    self.w.u16(K::CodeOffset, "start_pc", pc(e.at, "line number")?);
                    self.w.u16(K::Other, "line_number", e.line);
                    self.w.leave(t);
                }
            }
            _ => {
                let is_type = matches!(it, AttrItem::LocalVarTypes(..));
                let list = if is_type { &c.local_var_types } else { &c.local_vars };
                let cname = if is_type { "local_variable_type_table_length" } else { "local_variable_table_length" };
                self.w.u16(K::Count, cname, fit16(b - a, cname)?);
                for (i, e) in list[a..b].iter().enumerate() {
                    let t = self.w.enter_i("entry", i);
                    let s = pc(e.start, "local variable start")?;
                    let en = pc(e.end, "local variable end")?;
                    if en < s {
                        return Err("local variable: end before start".into());
                    }
                    self.w.u16(K::CodeOffset, "start_pc", s);
                    self.w.u16(K::CodeOffset, "length", en - s);
                    self.cp_utf8("name_index", &e.name)?;
                    self.cp_utf8(if is_type { "signature_index" } else { "descriptor_index" }, &e.desc)?;
                    self.w.u16(K::Other, "index", e.slot);
                    self.w.leave(t);
                }
            }
        }
        Ok(())
    }

    fn vtype(&mut self, v: &VType, off: &[usize]) -> Result<(), String> {
        match v {
            VType::Top => self.w.u8(K::Tag, "tag", 0),
            VType::Integer => self.w.u8(K::Tag, "tag", 1),
            VType::Float => self.w.u8(K::Tag, "tag", 2),
            VType::Double => self.w.u8(K::Tag, "tag", 3),
            VType::Long => self.w.u8(K::Tag, "tag", 4),
            VType::Null => self.w.u8(K::Tag, "tag", 5),
            VType::UninitializedThis => self.w.u8(K::Tag, "tag", 6),
            VType::Object(c) => {
                self.w.u8(K::Tag, "tag", 7);
                self.cp_class("cpool_index", c)?;
            }
            VType::Uninitialized(i) => {
                self.w.u8(K::Tag, "tag", 8);
                if *i >= off.len() - 1 {
                    return Err("Uninitialized: instruction index out of range".into());
                }
                self.w.u16(K::CodeOffset, "offset", off[*i] as u16);
            }
        }
        Ok(())
    }

    fn vtypes(&mut self, name: &str, l: &[VType], off: &[usize]) -> Result<(), String> {
        for (i, v) in l.iter().enumerate() {
            let t = self.w.enter_i(name, i);
            self.vtype(v, off)?;
            self.w.leave(t);
        }
        Ok(())
    }

    pub(super) fn stack_map_table(&mut self, m: &Method, c: &Code, off: &[usize]) -> Result<(), String> {
        let l = self.layout;
        if l.frames == FrameEnc::Cldc {
            self.w.u16(K::Count, "number_of_entries", fit16(c.frames.len(), "number_of_entries")?);
            for (i, f) in c.frames.iter().enumerate().rev() {
                let t = self.w.enter_i("frame", i);
                if f.at >= off.len() - 1 {
                    return Err("frame: instruction index out of range".into());
                }
                self.w.u16(K::CodeOffset, "offset", fit16(off[f.at], "offset")?);
                self.w.u16(K::Count, "number_of_locals", fit16(f.locals.len(), "number_of_locals")?);
                self.vtypes("local", &f.locals, off)?;
                self.w.u16(K::Count, "number_of_stack_items", fit16(f.stack.len(), "number_of_stack_items")?);
                self.vtypes("stack", &f.stack, off)?;
                self.w.leave(t);
            }
            return Ok(());
        }
        let mut prev_locals = initial_locals(&self.sem.this_class, m.access, &m.name, &m.desc).unwrap_or_default();
        let mut prev_off: Option<usize> = None;
        self.w.u16(K::Count, "number_of_entries", fit16(c.frames.len(), "number_of_entries")?);
        for (i, f) in c.frames.iter().enumerate() {
            let t = self.w.enter_i("frame", i);
            if f.at >= off.len() - 1 {
                return Err("frame: instruction index out of range".into());
            }
            let o = off[f.at];
            let delta = match prev_off {
                None => o,
                Some(p) => {
                    if o <= p {
                        return Err("frames not strictly increasing".into());
                    }
                    o - p - 1
                }
            } as u16;
            prev_off = Some(o);
            let encs = frame_encodings(&prev_locals, f);
            if l.frames == FrameEnc::Mixed && !self.pool.is_frozen() {
                // the random choice may differ between the collect pass and the
                // final pass: make sure every class any encoding needs is pooled
                for v in f.locals.iter().chain(f.stack.iter()) {
                    if let VType::Object(c) = v {
                        self.pool.get(&CpKey::Class(c.clone()))?;
                    }
                }
            }
            let pick = match l.frames {
                FrameEnc::Compact => 0,
                FrameEnc::Full => encs.len() - 1,
                FrameEnc::Mixed => self.rng.below(encs.len() as u64) as usize,
                FrameEnc::Cldc => unreachable!(),
            };
            let ext = roll(&mut self.rng, l.p_frame_extended);
            match &encs[pick] {
                RawFrame::Same => {
                    if delta <= 63 && !ext {
                        self.w.u8(K::Tag, "frame_type", delta as u8);
                    } else {
                        self.w.u8(K::Tag, "frame_type", 251);
                        self.w.u16(K::CodeOffset, "offset_delta", delta);
                    }
                }
                RawFrame::SameLocals1(v) => {
                    if delta <= 63 && !ext {
                        self.w.u8(K::Tag, "frame_type", 64 + delta as u8);
                    } else {
                        self.w.u8(K::Tag, "frame_type", 247);
                        self.w.u16(K::CodeOffset, "offset_delta", delta);
                    }
                    self.vtypes("stack", std::slice::from_ref(v), off)?;
                }
                RawFrame::Chop(k) => {
                    self.w.u8(K::Tag, "frame_type", 251 - *k);
                    self.w.u16(K::CodeOffset, "offset_delta", delta);
                }
                RawFrame::Append(more) => {
                    self.w.u8(K::Tag, "frame_type", 251 + more.len() as u8);
                    self.w.u16(K::CodeOffset, "offset_delta", delta);
                    self.vtypes("local", more, off)?;
                }
                RawFrame::Full { locals, stack } => {
                    self.w.u8(K::Tag, "frame_type", 255);
                    self.w.u16(K::CodeOffset, "offset_delta", delta);
                    self.w.u16(K::Count, "number_of_locals", fit16(locals.len(), "number_of_locals")?);
                    self.vtypes("local", locals, off)?;
                    self.w.u16(K::Count, "number_of_stack_items", fit16(stack.len(), "number_of_stack_items")?);
                    self.vtypes("stack", stack, off)?;
                }
            }
            prev_locals = f.locals.clone();
            self.w.leave(t);
        }
        Ok(())
    }
}
