//! Constant pool construction: structural keys, two-phase (collect, frozen).

use std::collections::HashMap;

use super::{shuffle, CpOrder, Layout, SpanKind, W};
use crate::jstr::JStr;
use crate::sem::{Const, Handle, MemberRef};
use crate::{Choice, SplitMix};

/// A bootstrap method entry by value.
pub(crate) type BsmKey = Box<(Handle, Vec<Const>)>;

#[derive(Debug, Clone, PartialEq, Eq, Hash)]
pub(crate) enum CpKey {
    Utf8(JStr),
    Int(i32),
    Float(u32),
    Long(i64),
    Double(u64),
    Class(JStr),
    String(JStr),
    Fieldref(JStr, JStr, JStr),
    Methodref(JStr, JStr, JStr),
    IMethodref(JStr, JStr, JStr),
    Nat(JStr, JStr),
    MHandle(u8, Box<CpKey>),
    MType(JStr),
    Dynamic(BsmKey, JStr, JStr),
    Indy(BsmKey, JStr, JStr),
    Module(JStr),
    Package(JStr),
}

impl CpKey {
    pub fn tag(&self) -> u8 {
        match self {
            CpKey::Utf8(_) => 1,
            CpKey::Int(_) => 3,
            CpKey::Float(_) => 4,
            CpKey::Long(_) => 5,
            CpKey::Double(_) => 6,
            CpKey::Class(_) => 7,
            CpKey::String(_) => 8,
            CpKey::Fieldref(..) => 9,
            CpKey::Methodref(..) => 10,
            CpKey::IMethodref(..) => 11,
            CpKey::Nat(..) => 12,
            CpKey::MHandle(..) => 15,
            CpKey::MType(_) => 16,
            CpKey::Dynamic(..) => 17,
            CpKey::Indy(..) => 18,
            CpKey::Module(_) => 19,
            CpKey::Package(_) => 20,
        }
    }
    fn slots(&self) -> usize {
        if matches!(self, CpKey::Long(_) | CpKey::Double(_)) {
            2
        } else {
            1
        }
    }
    /// Keys of the entries this entry refers to (not the bootstrap entry).
    fn children(&self) -> Vec<CpKey> {
        match self {
            CpKey::Class(n) | CpKey::String(n) | CpKey::MType(n) | CpKey::Module(n) | CpKey::Package(n) => {
                vec![CpKey::Utf8(n.clone())]
            }
            CpKey::Fieldref(o, n, d) | CpKey::Methodref(o, n, d) | CpKey::IMethodref(o, n, d) => {
                vec![CpKey::Class(o.clone()), CpKey::Nat(n.clone(), d.clone())]
            }
            CpKey::Nat(n, d) => vec![CpKey::Utf8(n.clone()), CpKey::Utf8(d.clone())],
            CpKey::MHandle(_, m) => vec![(**m).clone()],
            CpKey::Dynamic(_, n, d) | CpKey::Indy(_, n, d) => vec![CpKey::Nat(n.clone(), d.clone())],
            _ => Vec::new(),
        }
    }
}

pub(crate) fn member_key(m: &MemberRef, is_field: bool) -> CpKey {
    if is_field {
        CpKey::Fieldref(m.owner.clone(), m.name.clone(), m.desc.clone())
    } else if m.is_interface {
        CpKey::IMethodref(m.owner.clone(), m.name.clone(), m.desc.clone())
    } else {
        CpKey::Methodref(m.owner.clone(), m.name.clone(), m.desc.clone())
    }
}

pub(crate) fn handle_key(h: &Handle) -> CpKey {
    CpKey::MHandle(h.kind, Box::new(member_key(&h.member, (1..=4).contains(&h.kind))))
}

pub(crate) fn const_key(c: &Const) -> CpKey {
    match c {
        Const::Int(v) => CpKey::Int(*v),
        Const::Float(v) => CpKey::Float(*v),
        Const::Long(v) => CpKey::Long(*v),
        Const::Double(v) => CpKey::Double(*v),
        Const::String(s) => CpKey::String(s.clone()),
        Const::Class(s) => CpKey::Class(s.clone()),
        Const::MethodType(s) => CpKey::MType(s.clone()),
        Const::MethodHandle(h) => handle_key(h),
        Const::Dynamic(d) => CpKey::Dynamic(Box::new((d.bsm.clone(), d.args.clone())), d.name.clone(), d.desc.clone()),
    }
}

pub(crate) struct Pool {
    frozen: bool,
    /// Entries in pool order (after `finalize`: final order incl. duplicates).
    order: Vec<CpKey>,
    index: HashMap<CpKey, Vec<u16>>,
    /// Bootstrap entries (after `finalize`: final order incl. duplicates).
    pub bsms: Vec<BsmKey>,
    bsm_index: HashMap<BsmKey, Vec<u16>>,
    rng: SplitMix,
}

impl Pool {
    pub fn new(seed: u64) -> Pool {
        Pool {
            frozen: false,
            order: Vec::new(),
            index: HashMap::new(),
            bsms: Vec::new(),
            bsm_index: HashMap::new(),
            rng: SplitMix::new(seed ^ 0x5eed_900d),
        }
    }

    pub fn is_frozen(&self) -> bool {
        self.frozen
    }

    /// Index of `key`. Collect phase: interns (with children). Frozen phase:
    /// looks up, choosing randomly among duplicates.
    pub fn get(&mut self, key: &CpKey) -> Result<u16, String> {
        if self.frozen {
            return match self.index.get(key) {
                Some(v) if v.len() == 1 => Ok(v[0]),
                Some(v) => Ok(v[self.rng.below(v.len() as u64) as usize]),
                None => Err(format!("internal: constant {:?} not collected", key)),
            };
        }
        if let Some(v) = self.index.get(key) {
            return Ok(v[0]);
        }
        let idx = (self.order.len() + 1).min(65535) as u16;
        self.order.push(key.clone());
        self.index.insert(key.clone(), vec![idx]);
        for c in key.children() {
            self.get(&c)?;
        }
        if let CpKey::Dynamic(b, ..) | CpKey::Indy(b, ..) = key {
            self.bsm(b)?;
        }
        Ok(idx)
    }

    /// Index of a bootstrap entry in the BootstrapMethods table.
    pub fn bsm(&mut self, b: &BsmKey) -> Result<u16, String> {
        if self.frozen {
            return match self.bsm_index.get(b) {
                Some(v) => Ok(v[self.rng.below(v.len() as u64) as usize]),
                None => Err("internal: bootstrap entry not collected".to_string()),
            };
        }
        if let Some(v) = self.bsm_index.get(b) {
            return Ok(v[0]);
        }
        let idx = self.bsms.len().min(65535) as u16;
        self.bsms.push(b.clone());
        self.bsm_index.insert(b.clone(), vec![idx]);
        Ok(idx)
    }

    /// Ends the collect phase: adds unused entries and duplicates, orders the
    /// pool and assigns final indices.
    pub fn finalize(&mut self, layout: &Layout) -> Result<(), String> {
        let mut rng = SplitMix::new(layout.seed ^ 0xc0_0150_0001);
        // unused extras (fresh keys; interned so their children exist)
        for i in 0..layout.cp_unused {
            let key = match rng.below(8) {
                0 => CpKey::Utf8(JStr::from_str(&format!("unused${}\u{0}\u{e9}\u{20ac}\u{1f600}", i))),
                1 => CpKey::Int(rng.next_u64() as i32),
                2 => CpKey::Float(rng.next_u64() as u32),
                3 => CpKey::Long(rng.next_u64() as i64),
                4 => CpKey::Double(rng.next_u64()),
                5 => CpKey::String(JStr::from_str(&format!("unused-string-{}", i))),
                6 => CpKey::Class(JStr::from_str(&format!("unused/Cls{}", i))),
                _ => CpKey::Nat(JStr::from_str(&format!("unused{}", i)), JStr::from_str("I")),
            };
            self.get(&key)?;
        }
        let mut order = std::mem::take(&mut self.order);
        match layout.cp_order {
            CpOrder::FirstUse => {}
            CpOrder::Reversed => order.reverse(),
            CpOrder::Shuffled => shuffle(&mut rng, &mut order),
        }
        // duplicates at random positions
        if !order.is_empty() {
            for _ in 0..layout.cp_duplicates {
                let k = order[rng.below(order.len() as u64) as usize].clone();
                let at = rng.below(order.len() as u64 + 1) as usize;
                order.insert(at, k);
            }
        }
        self.index.clear();
        let mut next = 1usize;
        for k in &order {
            if next + k.slots() - 1 > 65534 {
                return Err("constant pool overflow".to_string());
            }
            self.index.entry(k.clone()).or_default().push(next as u16);
            next += k.slots();
        }
        self.order = order;

        let mut bsms = std::mem::take(&mut self.bsms);
        match layout.cp_order {
            CpOrder::FirstUse => {}
            CpOrder::Reversed => bsms.reverse(),
            CpOrder::Shuffled => shuffle(&mut rng, &mut bsms),
        }
        if !bsms.is_empty() {
            for _ in 0..layout.bsm_duplicates {
                let k = bsms[rng.below(bsms.len() as u64) as usize].clone();
                let at = rng.below(bsms.len() as u64 + 1) as usize;
                bsms.insert(at, k);
            }
        }
        if bsms.len() > 65535 {
            return Err("too many bootstrap methods".to_string());
        }
        self.bsm_index.clear();
        for (i, b) in bsms.iter().enumerate() {
            self.bsm_index.entry(b.clone()).or_default().push(i as u16);
        }
        self.bsms = bsms;
        self.frozen = true;
        Ok(())
    }

    /// Writes constant_pool_count and all entries.
    pub fn write(&mut self, w: &mut W) -> Result<(), String> {
        let start = w.pos();
        let total: usize = self.order.iter().map(|k| k.slots()).sum::<usize>() + 1;
        let t = w.enter("cp");
        w.u16(SpanKind::Count, "count", total as u16);
        w.leave(t);
        let order = self.order.clone();
        let mut idx = 1usize;
        for k in &order {
            let es = w.pos();
            let t = w.enter_i("cp", idx);
            w.u8(SpanKind::Tag, "tag", k.tag());
            match k {
                CpKey::Utf8(s) => {
                    if s.len() > 65535 {
                        return Err("Utf8 constant longer than 65535 bytes".to_string());
                    }
                    w.u16(SpanKind::Length, "length", s.len() as u16);
                    w.bytes(SpanKind::Other, "bytes", s.as_bytes());
                }
                CpKey::Int(v) => w.u32(SpanKind::Other, "bytes", *v as u32),
                CpKey::Float(v) => w.u32(SpanKind::Other, "bytes", *v),
                CpKey::Long(v) => {
                    w.u32(SpanKind::Other, "high_bytes", ((*v as u64) >> 32) as u32);
                    w.u32(SpanKind::Other, "low_bytes", *v as u32);
                }
                CpKey::Double(v) => {
                    w.u32(SpanKind::Other, "high_bytes", (*v >> 32) as u32);
                    w.u32(SpanKind::Other, "low_bytes", *v as u32);
                }
                CpKey::Class(_) | CpKey::Module(_) | CpKey::Package(_) => {
                    let c = self.get(&k.children()[0])?;
                    w.u16(SpanKind::CpIndex, "name_index", c);
                }
                CpKey::String(_) => {
                    let c = self.get(&k.children()[0])?;
                    w.u16(SpanKind::CpIndex, "string_index", c);
                }
                CpKey::MType(_) => {
                    let c = self.get(&k.children()[0])?;
                    w.u16(SpanKind::CpIndex, "descriptor_index", c);
                }
                CpKey::Fieldref(..) | CpKey::Methodref(..) | CpKey::IMethodref(..) => {
                    let ch = k.children();
                    let c = self.get(&ch[0])?;
                    let n = self.get(&ch[1])?;
                    w.u16(SpanKind::CpIndex, "class_index", c);
                    w.u16(SpanKind::CpIndex, "name_and_type_index", n);
                }
                CpKey::Nat(..) => {
                    let ch = k.children();
                    let n = self.get(&ch[0])?;
                    let d = self.get(&ch[1])?;
                    w.u16(SpanKind::CpIndex, "name_index", n);
                    w.u16(SpanKind::CpIndex, "descriptor_index", d);
                }
                CpKey::MHandle(kind, m) => {
                    w.u8(SpanKind::Tag, "reference_kind", *kind);
                    let c = self.get(m)?;
                    w.u16(SpanKind::CpIndex, "reference_index", c);
                }
                CpKey::Dynamic(b, ..) | CpKey::Indy(b, ..) => {
                    let bi = self.bsm(b)?;
                    let n = self.get(&k.children()[0])?;
                    w.u16(SpanKind::Other, "bootstrap_method_attr_index", bi);
                    w.u16(SpanKind::CpIndex, "name_and_type_index", n);
                }
            }
            w.leave(t);
            let t = w.enter_i("cp", idx);
            w.span(es, SpanKind::CpEntry(idx as u16));
            w.leave(t);
            idx += k.slots();
        }
        let t = w.enter("cp");
        w.span(start, SpanKind::ConstantPool);
        w.leave(t);
        Ok(())
    }
}
