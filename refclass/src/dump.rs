// placeholder
