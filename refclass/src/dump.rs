//! Normalised text listing of a `Sem`, comparable with a normalisation of
//! `javap -v -p -c -l` (tools/javap_norm.py). One fact per line.
//!
//! Strings are shown lossily: only ASCII letters, digits and a safe subset of
//! punctuation survive (javap escapes differ), see [`norm`].

use crate::jstr::JStr;
use crate::sem::*;
use std::fmt::Write;

/// Lossy string normalisation shared with the javap normaliser.
pub fn norm(s: &JStr) -> String {
    let mut out = String::new();
    match s.to_utf16() {
        Some(u) => {
            for c in u {
                if c < 0x80 {
                    let ch = c as u8 as char;
                    if ch.is_ascii_alphanumeric() || "/;[()<>:.$_-+*=,!@#%&|^~{} ".contains(ch) {
                        out.push(ch);
                    }
                }
            }
        }
        None => out.push_str("<malformed>"),
    }
    out
}

fn name(s: &JStr) -> String {
    norm(s)
}

fn member(m: &MemberRef, field: bool) -> String {
    let k = if field {
        "Field"
    } else if m.is_interface {
        "InterfaceMethod"
    } else {
        "Method"
    };
    format!("{} {}.{}:{}", k, name(&m.owner), name(&m.name), name(&m.desc))
}

const REF_KINDS: [&str; 10] = [
    "?",
    "REF_getField",
    "REF_getStatic",
    "REF_putField",
    "REF_putStatic",
    "REF_invokeVirtual",
    "REF_invokeStatic",
    "REF_invokeSpecial",
    "REF_newInvokeSpecial",
    "REF_invokeInterface",
];

fn handle(h: &Handle) -> String {
    format!("{} {}", REF_KINDS.get(h.kind as usize).unwrap_or(&"?"), member(&h.member, h.kind <= 4))
}

fn dynamic(d: &Dynamic) -> String {
    let args: Vec<String> = d.args.iter().map(konst).collect();
    format!("{}:{} bsm={} args=[{}]", name(&d.name), name(&d.desc), handle(&d.bsm), args.join(", "))
}

pub fn konst(c: &Const) -> String {
    match c {
        Const::Int(v) => format!("int {}", v),
        Const::Float(v) => {
            let f = f32::from_bits(*v);
            if f.is_nan() {
                "float NaN".into()
            } else {
                format!("float {:#010x}", v)
            }
        }
        Const::Long(v) => format!("long {}", v),
        Const::Double(v) => {
            let f = f64::from_bits(*v);
            if f.is_nan() {
                "double NaN".into()
            } else {
                format!("double {:#018x}", v)
            }
        }
        Const::String(s) => format!("String {}", norm(s)),
        Const::Class(s) => format!("class {}", name(s)),
        Const::MethodType(s) => format!("MethodType {}", name(s)),
        Const::MethodHandle(h) => format!("MethodHandle {}", handle(h)),
        Const::Dynamic(d) => format!("Dynamic {}", dynamic(d)),
    }
}

fn insn(i: &Insn) -> String {
    let m = i.mnemonic();
    match i {
        Insn::Simple(_) => m,
        Insn::BiPush(v) => format!("{} {}", m, v),
        Insn::SiPush(v) => format!("{} {}", m, v),
        Insn::Ldc(c) => format!("{} {}", m, konst(c)),
        Insn::Load(_, n) | Insn::Store(_, n) | Insn::Ret(n) => format!("{} {}", m, n),
        Insn::Iinc(n, d) => format!("{} {} {}", m, n, d),
        Insn::Branch(_, t) | Insn::Goto(t) | Insn::Jsr(t) => format!("{} @{}", m, t),
        Insn::TableSwitch { default, low, targets } => {
            let mut s = format!("{} low={} default=@{}", m, low, default);
            for t in targets {
                write!(s, " @{}", t).unwrap();
            }
            s
        }
        Insn::LookupSwitch { default, pairs } => {
            let mut s = format!("{} default=@{}", m, default);
            for (k, t) in pairs {
                write!(s, " {}=@{}", k, t).unwrap();
            }
            s
        }
        Insn::Field(_, r) => format!("{} {}", m, member(r, true)),
        Insn::Invoke(_, r) => format!("{} {}", m, member(r, false)),
        Insn::InvokeDynamic(d) => format!("{} {}", m, dynamic(d)),
        Insn::New(c) | Insn::ANewArray(c) | Insn::CheckCast(c) | Insn::InstanceOf(c) => format!("{} class {}", m, name(c)),
        Insn::NewArray(t) => format!("{} {}", m, t.name()),
        Insn::MultiANewArray(c, d) => format!("{} class {} {}", m, name(c), d),
    }
}

fn vtype(v: &VType) -> String {
    match v {
        VType::Top => "top".into(),
        VType::Integer => "int".into(),
        VType::Float => "float".into(),
        VType::Long => "long".into(),
        VType::Double => "double".into(),
        VType::Null => "null".into(),
        VType::UninitializedThis => "this".into(),
        VType::Object(c) => format!("class {}", name(c)),
        VType::Uninitialized(i) => format!("uninit@{}", i),
    }
}

fn vtypes(l: &[VType]) -> String {
    let v: Vec<String> = l.iter().map(vtype).collect();
    format!("[{}]", v.join(", "))
}

const TARGET_NAMES: [(u8, &str); 22] = [
    (0x00, "CLASS_TYPE_PARAMETER"),
    (0x01, "METHOD_TYPE_PARAMETER"),
    (0x10, "CLASS_EXTENDS"),
    (0x11, "CLASS_TYPE_PARAMETER_BOUND"),
    (0x12, "METHOD_TYPE_PARAMETER_BOUND"),
    (0x13, "FIELD"),
    (0x14, "METHOD_RETURN"),
    (0x15, "METHOD_RECEIVER"),
    (0x16, "METHOD_FORMAL_PARAMETER"),
    (0x17, "THROWS"),
    (0x40, "LOCAL_VARIABLE"),
    (0x41, "RESOURCE_VARIABLE"),
    (0x42, "EXCEPTION_PARAMETER"),
    (0x43, "INSTANCEOF"),
    (0x44, "NEW"),
    (0x45, "CONSTRUCTOR_REFERENCE"),
    (0x46, "METHOD_REFERENCE"),
    (0x47, "CAST"),
    (0x48, "CONSTRUCTOR_INVOCATION_TYPE_ARGUMENT"),
    (0x49, "METHOD_INVOCATION_TYPE_ARGUMENT"),
    (0x4A, "CONSTRUCTOR_REFERENCE_TYPE_ARGUMENT"),
    (0x4B, "METHOD_REFERENCE_TYPE_ARGUMENT"),
];

/// One code-level type annotation: target kind, resolved target, type path,
/// annotation type.
fn tanno(t: &TypeAnnotation) -> String {
    let tt = t.target.target_type();
    let kind = TARGET_NAMES.iter().find(|(c, _)| *c == tt).map(|(_, n)| *n).unwrap_or("?");
    let detail = match &t.target {
        Target::LocalVar { table, .. } => {
            let v: Vec<String> = table.iter().map(|r| format!("{}-{}@{}", r.start, r.end, r.slot)).collect();
            format!("ranges=[{}]", v.join(","))
        }
        Target::Catch(i) => format!("exc={}", i),
        Target::Offset { at, .. } => format!("at={}", at),
        Target::TypeArgument { at, index, .. } => format!("at={} index={}", at, index),
        Target::TypeParameter { index, .. } => format!("param={}", index),
        Target::Supertype(i) => format!("index={}", i),
        Target::TypeParameterBound { param, bound, .. } => format!("param={} bound={}", param, bound),
        Target::Empty(_) => String::new(),
        Target::FormalParameter(i) => format!("param={}", i),
        Target::Throws(i) => format!("index={}", i),
    };
    let path: Vec<String> = t
        .path
        .iter()
        .map(|s| match s.kind {
            0 => "ARRAY".to_string(),
            1 => "INNER_TYPE".to_string(),
            2 => "WILDCARD".to_string(),
            _ => format!("TYPE_ARGUMENT({})", s.arg),
        })
        .collect();
    format!("{} {} path=[{}] type={}", kind, detail, path.join(","), name(&t.annotation.type_desc))
}

/// The listing. Sections: class header, fields, methods (code, exception
/// table, line numbers, local variables, raw frames), inner classes.
pub fn dump(s: &Sem) -> String {
    let mut o = String::new();
    writeln!(o, "class {} version {}.{} flags {:#06x}", name(&s.this_class), s.major, s.minor, s.access).unwrap();
    if let Some(sc) = &s.super_class {
        writeln!(o, "super {}", name(sc)).unwrap();
    }
    for i in &s.interfaces {
        writeln!(o, "interface {}", name(i)).unwrap();
    }
    if let Some(sf) = &s.source_file {
        writeln!(o, "source {}", norm(sf)).unwrap();
    }
    if let Some(sig) = &s.signature {
        writeln!(o, "signature {}", name(sig)).unwrap();
    }
    for f in &s.fields {
        writeln!(o, "field {} {} flags {:#06x}", name(&f.name), name(&f.desc), f.access).unwrap();
        if let Some(cv) = &f.constant_value {
            let c = match cv {
                ConstValue::Int(v) => Const::Int(*v),
                ConstValue::Float(v) => Const::Float(*v),
                ConstValue::Long(v) => Const::Long(*v),
                ConstValue::Double(v) => Const::Double(*v),
                ConstValue::String(v) => Const::String(v.clone()),
            };
            writeln!(o, "  const {}", konst(&c)).unwrap();
        }
        if let Some(sig) = &f.signature {
            writeln!(o, "  signature {}", name(sig)).unwrap();
        }
    }
    for m in &s.methods {
        writeln!(o, "method {} {} flags {:#06x}", name(&m.name), name(&m.desc), m.access).unwrap();
        if let Some(sig) = &m.signature {
            writeln!(o, "  signature {}", name(sig)).unwrap();
        }
        if let Some(e) = &m.exceptions {
            let v: Vec<String> = e.iter().map(name).collect();
            writeln!(o, "  throws {}", v.join(" ")).unwrap();
        }
        if let Some(c) = &m.code {
            writeln!(o, "  code stack={} locals={}", c.max_stack, c.max_locals).unwrap();
            for (i, ins) in c.insns.iter().enumerate() {
                writeln!(o, "    {}: {}", i, insn(ins)).unwrap();
            }
            for e in &c.exceptions {
                let t = e.catch_type.as_ref().map(|c| format!("class {}", name(c))).unwrap_or_else(|| "any".into());
                writeln!(o, "  try {} {} {} {}", e.start, e.end, e.handler, t).unwrap();
            }
            for l in &c.line_numbers {
                writeln!(o, "  line {} {}", l.line, l.at).unwrap();
            }
            for l in &c.local_vars {
                writeln!(o, "  local {} {} {} {} {}", l.start, l.end, l.slot, name(&l.name), name(&l.desc)).unwrap();
            }
            for l in &c.local_var_types {
                writeln!(o, "  localtype {} {} {} {} {}", l.start, l.end, l.slot, name(&l.name), name(&l.desc)).unwrap();
            }
            for (at, f) in &c.frames_raw.0 {
                let d = match f {
                    RawFrame::Same => "same".to_string(),
                    RawFrame::SameLocals1(v) => format!("same_locals_1 stack {}", vtypes(std::slice::from_ref(v))),
                    RawFrame::Chop(k) => format!("chop {}", k),
                    RawFrame::Append(l) => format!("append locals {}", vtypes(l)),
                    RawFrame::Full { locals, stack } => format!("full locals {} stack {}", vtypes(locals), vtypes(stack)),
                };
                writeln!(o, "  frame {} {}", at, d).unwrap();
            }
            let mut tl: Vec<String> = c.type_annotations.visible.iter().chain(c.type_annotations.invisible.iter()).map(tanno).collect();
            tl.sort();
            for l in tl {
                writeln!(o, "  tanno {}", l).unwrap();
            }
        }
    }
    if let Some(l) = &s.inner_classes {
        for ic in l {
            writeln!(
                o,
                "inner {} outer {} name {} flags {:#06x}",
                name(&ic.inner),
                ic.outer.as_ref().map(name).unwrap_or_else(|| "-".into()),
                ic.inner_name.as_ref().map(name).unwrap_or_else(|| "-".into()),
                ic.access
            )
            .unwrap();
        }
    }
    if let Some(em) = &s.enclosing_method {
        let m = em.method.as_ref().map(|(n, d)| format!("{}:{}", name(n), name(d))).unwrap_or_else(|| "-".into());
        writeln!(o, "enclosing {} {}", name(&em.class), m).unwrap();
    }
    if let Some(h) = &s.nest_host {
        writeln!(o, "nesthost {}", name(h)).unwrap();
    }
    if let Some(l) = &s.nest_members {
        for c in l {
            writeln!(o, "nestmember {}", name(c)).unwrap();
        }
    }
    if let Some(l) = &s.permitted_subclasses {
        for c in l {
            writeln!(o, "permitted {}", name(c)).unwrap();
        }
    }
    if let Some(l) = &s.record {
        for rc in l {
            writeln!(o, "component {} {}", name(&rc.name), name(&rc.desc)).unwrap();
        }
    }
    o
}
