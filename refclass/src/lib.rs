//! `refclass` — an independent reference model of the Java class-file format,
//! written from JVMS chapter 4. See README.md for the public API contract.
//!
//! Modules:
//! * [`jstr`]     — `JStr`, class-file modified-UTF-8 strings.
//! * [`sem`]      — `Sem`, the layout-independent semantic model + `Sem::diff`.
//! * [`op`]       — opcode tables.
//! * [`enc`]      — `encode(&Sem, &Layout) -> Encoded { bytes, map }`.
//! * [`parse`]    — `parse` / `parse_prefix` (strict) and the shared walker.
//! * [`validate`] — `validate(bytes)`: all structural problems with stable prefixes.
//! * [`gen`]      — `gen_class`, `gen_layout`, `gen_big_jump_method`.
//! * [`dump`]     — normalised text listing used by `refclass-dump`.

pub mod jstr;
pub mod op;
pub mod sem;
pub mod desc;
pub mod enc;
pub mod parse;
pub mod validate;
pub mod gen;
pub mod dump;

pub use jstr::JStr;
pub use sem::Sem;
pub use enc::{encode, Encoded, FieldSpan, Layout, SpanKind};
pub use parse::{parse, parse_prefix, ParseError};
pub use validate::validate;
pub use gen::{gen_class, gen_layout, GenCfg};

/// Source of nondeterminism for the generators. The harness supplies its own
/// implementation (so every decision is replayable); [`SplitMix`] is a small
/// built-in one.
pub trait Choice {
    /// Uniform in `0..n`. `n` must be >= 1.
    fn below(&mut self, n: u64) -> u64;

    /// True with probability `pct` percent (`pct >= 100` is always true).
    fn chance(&mut self, pct: u32) -> bool {
        self.below(100) < pct as u64
    }

    /// Uniform in `lo..=hi` (inclusive both ends). Requires `lo <= hi`.
    fn range(&mut self, lo: i64, hi: i64) -> i64 {
        let span = (hi as i128 - lo as i128 + 1) as u128;
        if span > u64::MAX as u128 {
            // full 64-bit range
            return self.below(u64::MAX) as i64;
        }
        (lo as i128 + self.below(span as u64) as i128) as i64
    }

    /// Uniformly picks an element of a non-empty slice.
    fn pick<'a, T>(&mut self, xs: &'a [T]) -> &'a T
    where
        Self: Sized,
    {
        &xs[self.below(xs.len() as u64) as usize]
    }
}

impl<'c> dyn Choice + 'c {
    /// `pick` usable through `&mut dyn Choice`.
    pub fn pick<'a, T>(&mut self, xs: &'a [T]) -> &'a T {
        &xs[self.below(xs.len() as u64) as usize]
    }
}

/// SplitMix64. Deterministic, tiny, good enough for test-case generation.
#[derive(Debug, Clone)]
pub struct SplitMix(pub u64);

impl SplitMix {
    pub fn new(seed: u64) -> SplitMix {
        SplitMix(seed)
    }
    pub fn next_u64(&mut self) -> u64 {
        self.0 = self.0.wrapping_add(0x9E37_79B9_7F4A_7C15);
        let mut z = self.0;
        z = (z ^ (z >> 30)).wrapping_mul(0xBF58_476D_1CE4_E5B9);
        z = (z ^ (z >> 27)).wrapping_mul(0x94D0_49BB_1331_11EB);
        z ^ (z >> 31)
    }
}

impl Choice for SplitMix {
    fn below(&mut self, n: u64) -> u64 {
        if n <= 1 {
            return 0;
        }
        // rejection sampling for exact uniformity
        let zone = u64::MAX - (u64::MAX % n);
        loop {
            let v = self.next_u64();
            if v < zone {
                return v % n;
            }
        }
    }
}
