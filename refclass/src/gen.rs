use crate::*;
pub struct GenCfg;
pub fn gen_class(_c: &mut dyn Choice, _cfg: &GenCfg) -> Sem { unimplemented!() }
pub fn gen_layout(_c: &mut dyn Choice) -> Layout { unimplemented!() }
