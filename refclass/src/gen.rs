//! Generators: well-formed (by [`crate::validate`]) semantic classes, layouts,
//! and targeted big-jump methods for class-writer tests.

#[path = "gen_code.rs"]
mod code;
#[path = "gen_big.rs"]
mod big;

pub use big::{gen_big_jump_method, BigJump, BigJumpKind};

use crate::enc::{CpOrder, FrameEnc, Layout};
use crate::jstr::JStr;
use crate::sem::*;
use crate::Choice;

/// Feature bits for [`GenCfg::features`].
pub mod feat {
    pub const CODE: u32 = 1 << 0;
    pub const FRAMES: u32 = 1 << 1;
    pub const ANNOTATIONS: u32 = 1 << 2;
    pub const TYPE_ANNOTATIONS: u32 = 1 << 3;
    pub const MODULE: u32 = 1 << 4;
    pub const RECORD: u32 = 1 << 5;
    pub const NEST: u32 = 1 << 6;
    pub const PERMITTED: u32 = 1 << 7;
    pub const INNER: u32 = 1 << 8;
    pub const INDY: u32 = 1 << 9;
    pub const CONDY: u32 = 1 << 10;
    pub const UNKNOWN_ATTRS: u32 = 1 << 11;
    pub const UNICODE: u32 = 1 << 12;
    pub const DEBUG_TABLES: u32 = 1 << 13;
    pub const JSR: u32 = 1 << 14;
    pub const SIGNATURES: u32 = 1 << 15;
    pub const SWITCHES: u32 = 1 << 16;
    pub const WIDE_LOCALS: u32 = 1 << 17;
    pub const EXCEPTION_TABLE: u32 = 1 << 18;
    pub const MISC_ATTRS: u32 = 1 << 19;
    pub const ALL: u32 = (1 << 20) - 1;
}

/// Size and feature knobs of [`gen_class`].
#[derive(Debug, Clone)]
pub struct GenCfg {
    /// Maximum number of fields and of methods (each).
    pub max_members: usize,
    /// Maximum number of instructions per method.
    pub max_insns: usize,
    /// Bitmask of [`feat`] bits.
    pub features: u32,
    /// Inclusive major-version range (clamped to 45..=67).
    pub major_min: u16,
    pub major_max: u16,
}

impl Default for GenCfg {
    fn default() -> GenCfg {
        GenCfg { max_members: 4, max_insns: 40, features: feat::ALL, major_min: 45, major_max: 67 }
    }
}

impl GenCfg {
    pub fn small() -> GenCfg {
        GenCfg { max_members: 2, max_insns: 12, ..GenCfg::default() }
    }
    pub fn large() -> GenCfg {
        GenCfg { max_members: 8, max_insns: 400, ..GenCfg::default() }
    }
}

pub(crate) struct G<'c> {
    pub c: &'c mut dyn Choice,
    pub cfg: &'c GenCfg,
    pub major: u16,
    pub this_class: JStr,
    /// the last method reference drawn (now and then the next one is its twin of the other pool kind)
    pub prev_method: Option<MemberRef>,
}

const ASCII_START: &[u8] = b"abcdefghijklmnopqrstuvwxyzABCDEFGHIJKLMNOPQRSTUVWXYZ_$";
const ASCII_PART: &[u8] = b"abcdefghijklmnopqrstuvwxyzABCDEFGHIJKLMNOPQRSTUVWXYZ_$0123456789";
const ODD_UNITS: &[u32] = &[0x0000, 0x007F, 0x0080, 0x00E9, 0x07FF, 0x0800, 0x20AC, 0xFFFF, 0x1_0000, 0x1_F600, 0x10_FFFF];

impl<'c> G<'c> {
    pub fn has(&self, f: u32) -> bool {
        self.cfg.features & f != 0
    }
    pub fn below(&mut self, n: usize) -> usize {
        self.c.below(n.max(1) as u64) as usize
    }
    pub fn chance(&mut self, pct: u32) -> bool {
        self.c.chance(pct)
    }
    pub fn range(&mut self, lo: i64, hi: i64) -> i64 {
        self.c.range(lo, hi)
    }
    pub fn bits(&mut self) -> u64 {
        let hi = self.c.below(1 << 32);
        let lo = self.c.below(1 << 32);
        (hi << 32) | lo
    }

    /// An unqualified name (legal for fields, methods, locals, classes).
    pub fn ident(&mut self) -> JStr {
        let len = if self.chance(15) { 1 } else { 1 + self.below(8) };
        let mut cps: Vec<u32> = Vec::new();
        for i in 0..len {
            if self.has(feat::UNICODE) && self.chance(6) {
                let u = ODD_UNITS[self.below(ODD_UNITS.len())];
                cps.push(u);
            } else {
                let set = if i == 0 { ASCII_START } else { ASCII_PART };
                cps.push(set[self.below(set.len())] as u32);
            }
        }
        JStr::from_code_points(cps).unwrap()
    }

    pub fn class_name(&mut self) -> JStr {
        if self.chance(20) {
            const WELL_KNOWN: &[&str] = &["java/lang/Object", "java/lang/String", "java/util/List", "java/lang/Runnable", "java/lang/Throwable"];
            return JStr::from_str(WELL_KNOWN[self.below(WELL_KNOWN.len())]);
        }
        let segs = 1 + self.below(3);
        let mut b = Vec::new();
        for i in 0..segs {
            if i > 0 {
                b.push(b'/');
            }
            b.extend_from_slice(self.ident().as_bytes());
        }
        JStr(b)
    }

    pub fn package_name(&mut self) -> JStr {
        self.class_name()
    }

    pub fn module_name(&mut self) -> JStr {
        let segs = 1 + self.below(3);
        let mut s = String::new();
        for i in 0..segs {
            if i > 0 {
                s.push('.');
            }
            let len = 1 + self.below(6);
            for j in 0..len {
                let set = if j == 0 { &ASCII_START[..52] } else { &ASCII_PART[..52] };
                s.push(set[self.below(set.len())] as char);
            }
        }
        if self.chance(5) {
            s.push_str("\\@x");
        }
        JStr::from_str(&s)
    }

    pub fn field_desc(&mut self) -> JStr {
        let mut b = Vec::new();
        if self.chance(25) {
            let dims = 1 + self.below(3);
            b.extend(std::iter::repeat(b'[').take(dims));
        }
        if self.chance(40) {
            b.push(b'L');
            b.extend_from_slice(self.class_name().as_bytes());
            b.push(b';');
        } else {
            b.push(b"BCDFIJSZ"[self.below(8)]);
        }
        JStr(b)
    }

    pub fn method_desc(&mut self) -> JStr {
        let mut b = vec![b'('];
        let n = self.below(5);
        for _ in 0..n {
            b.extend_from_slice(self.field_desc().as_bytes());
        }
        b.push(b')');
        if self.chance(30) {
            b.push(b'V');
        } else {
            b.extend_from_slice(self.field_desc().as_bytes());
        }
        JStr(b)
    }

    /// A class-entry name: mostly a class name, sometimes an array descriptor.
    pub fn class_or_array(&mut self) -> JStr {
        if self.chance(15) {
            let mut d = self.field_desc();
            if d.as_bytes()[0] != b'[' {
                d.0.insert(0, b'[');
            }
            d
        } else {
            self.class_name()
        }
    }

    /// Arbitrary string content (for String constants, SourceFile, ...).
    pub fn text(&mut self) -> JStr {
        let len = self.below(12);
        let mut units: Vec<u16> = Vec::new();
        for _ in 0..len {
            if self.has(feat::UNICODE) && self.chance(15) {
                match self.below(4) {
                    0 => units.push(0),
                    1 => units.push(0xD800 + self.below(0x800) as u16), // possibly unpaired surrogate
                    2 => {
                        units.push(0xD83D);
                        units.push(0xDE00 + self.below(64) as u16);
                    }
                    _ => units.push(self.below(0x10000) as u16),
                }
            } else {
                units.push(0x20 + self.below(0x5F) as u16);
            }
        }
        JStr::from_utf16(&units)
    }

    pub fn opt<T>(&mut self, pct: u32, f: impl FnOnce(&mut Self) -> T) -> Option<T> {
        if self.chance(pct) {
            Some(f(self))
        } else {
            None
        }
    }

    pub fn list<T>(&mut self, max: usize, mut f: impl FnMut(&mut Self) -> T) -> Vec<T> {
        let n = self.below(max + 1);
        (0..n).map(|_| f(self)).collect()
    }

    fn field_signature(&mut self) -> JStr {
        match self.below(3) {
            0 => JStr::from_str("TT;"),
            1 => JStr::from_str("Ljava/util/List<Ljava/lang/String;>;"),
            _ => JStr::from_str("Ljava/util/Map<TK;[Ljava/util/List<+Ljava/lang/Number;>;>.Entry<**>;"),
        }
    }

    pub fn unknown_attrs(&mut self) -> Vec<UnknownAttr> {
        if !self.has(feat::UNKNOWN_ATTRS) || !self.chance(20) {
            return Vec::new();
        }
        self.list(2, |g| {
            let mut name = b"x.".to_vec();
            name.extend_from_slice(g.ident().as_bytes());
            let len = if g.chance(30) { 0 } else { g.below(24) };
            let bytes = (0..len).map(|_| g.below(256) as u8).collect();
            UnknownAttr { name: JStr(name), bytes }
        })
    }

    // ---- annotations -----------------------------------------------------

    pub fn element_value(&mut self, depth: usize) -> ElementValue {
        let k = if depth >= 3 { self.below(11) } else { self.below(13) };
        match k {
            0 => ElementValue::Byte(self.range(-128, 127) as i32),
            1 => ElementValue::Char(self.range(0, 65535) as i32),
            2 => ElementValue::Double(self.bits()),
            3 => ElementValue::Float(self.bits() as u32),
            4 => ElementValue::Int(self.bits() as i32),
            5 => ElementValue::Long(self.bits() as i64),
            6 => ElementValue::Short(self.range(-32768, 32767) as i32),
            7 => ElementValue::Boolean(self.below(2) as i32),
            8 => ElementValue::String(self.text()),
            9 => {
                let mut d = vec![b'L'];
                d.extend_from_slice(self.class_name().as_bytes());
                d.push(b';');
                ElementValue::Enum { type_desc: JStr(d), const_name: self.ident() }
            }
            10 => ElementValue::Class(if self.chance(20) { JStr::from_str("V") } else { self.field_desc() }),
            11 => ElementValue::Annotation(Box::new(self.annotation(depth + 1))),
            _ => ElementValue::Array(self.list(3, |g| g.element_value(depth + 1))),
        }
    }

    pub fn annotation(&mut self, depth: usize) -> Annotation {
        let mut d = vec![b'L'];
        d.extend_from_slice(self.class_name().as_bytes());
        d.push(b';');
        let pairs = self.list(3, |g| Pair { name: g.ident(), value: g.element_value(depth + 1) });
        Annotation { type_desc: JStr(d), pairs }
    }

    pub fn annotations(&mut self) -> Annotations {
        if !self.has(feat::ANNOTATIONS) || self.major < 49 || !self.chance(30) {
            return Annotations::default();
        }
        Annotations { visible: self.list(2, |g| g.annotation(0)), invisible: self.list(2, |g| g.annotation(0)) }
    }

    pub fn type_path(&mut self) -> Vec<PathStep> {
        self.list(3, |g| {
            let kind = g.below(4) as u8;
            PathStep { kind, arg: if kind == 3 { g.below(4) as u8 } else { 0 } }
        })
    }

    pub fn type_annotations(&mut self, mut target: impl FnMut(&mut Self) -> Target) -> TypeAnnotations {
        if !self.has(feat::TYPE_ANNOTATIONS) || self.major < 52 || !self.chance(25) {
            return TypeAnnotations::default();
        }
        let mut mk = |g: &mut Self| {
            g.list(2, |g| TypeAnnotation { target: target(g), path: g.type_path(), annotation: g.annotation(0) })
        };
        let visible = mk(self);
        let invisible = mk(self);
        TypeAnnotations { visible, invisible }
    }

    // ---- constants -------------------------------------------------------

    pub fn member(&mut self, method: bool, is_interface: bool) -> MemberRef {
        // now and then the same (owner, name, descriptor) as the method reference before, under whatever pool kind is
        // asked for now: a class may name one method through a Methodref AND an InterfaceMethodref (seeded changes
        // C01-8 and C02-13: whoever keys method references without the kind confuses the two)
        if method && self.chance(10) {
            if let Some(prev) = self.prev_method.clone() {
                if prev.owner.as_bytes().first() != Some(&b'[') {
                    return MemberRef { is_interface, ..prev };
                }
            }
        }
        let m = self.member_fresh(method, is_interface);
        if method {
            self.prev_method = Some(m.clone());
        }
        m
    }
    fn member_fresh(&mut self, method: bool, is_interface: bool) -> MemberRef {
        MemberRef {
            // JVMS 4.4.2: only a Methodref may name an array type (e.g. `[I.clone()`); a Fieldref or an
            // InterfaceMethodref owner is a class or interface
            owner: if method && !is_interface { self.class_or_array() } else { self.class_name() },
            name: self.ident(),
            desc: if method { self.method_desc() } else { self.field_desc() },
            is_interface,
        }
    }

    pub fn handle(&mut self) -> Handle {
        let kind = 1 + self.below(9) as u8;
        let member = match kind {
            1..=4 => self.member(false, false),
            5 => self.member(true, false),
            6 | 7 => {
                let itf = self.major >= 52 && self.chance(30);
                self.member(true, itf)
            }
            8 => {
                let mut m = self.member(true, false);
                m.name = JStr::from_str("<init>");
                m
            }
            _ => self.member(true, true),
        };
        Handle { kind, member }
    }

    pub fn dynamic(&mut self, indy: bool, depth: usize) -> Dynamic {
        let bsm = self.handle();
        let args = self.list(3, |g| g.loadable(depth + 1, true));
        let desc = if indy {
            self.method_desc()
        } else if self.chance(25) {
            JStr::from_str(if self.chance(50) { "J" } else { "D" })
        } else {
            self.field_desc()
        };
        Dynamic { bsm, args, name: self.ident(), desc }
    }

    /// A loadable constant legal for the class version. `allow_wide`: Long,
    /// Double and wide Dynamic are allowed (bootstrap args, ldc2_w).
    pub fn loadable(&mut self, depth: usize, allow_wide: bool) -> Const {
        loop {
            let c = match self.below(9) {
                0 => Const::Int(self.bits() as i32),
                1 => Const::Float(self.bits() as u32),
                2 => Const::Long(self.bits() as i64),
                3 => Const::Double(self.bits()),
                4 => Const::String(self.text()),
                5 if self.major >= 49 => Const::Class(self.class_or_array()),
                6 if self.major >= 51 => Const::MethodType(self.method_desc()),
                7 if self.major >= 51 => Const::MethodHandle(self.handle()),
                8 if self.major >= 55 && self.has(feat::CONDY) && depth < 2 => Const::Dynamic(Box::new(self.dynamic(false, depth))),
                _ => continue,
            };
            if c.is_wide() && !allow_wide {
                continue;
            }
            return c;
        }
    }

    // ---- members ---------------------------------------------------------

    fn field(&mut self, in_interface: bool) -> Field {
        let mut access = if in_interface { 0x0019 } else { [0u16, 1, 2, 4][self.below(4)] };
        if !in_interface {
            if self.chance(40) {
                access |= 0x0008;
            }
            if self.chance(40) {
                access |= 0x0010;
            } else if self.chance(15) {
                access |= 0x0040;
            }
            if self.chance(10) {
                access |= 0x0080;
            }
            if self.chance(5) {
                access |= 0x4000;
            }
        }
        if self.chance(8) {
            access |= 0x1000;
        }
        let desc = self.field_desc();
        let constant_value = if access & 0x0008 != 0 && self.chance(50) {
            match desc.as_bytes() {
                b"I" => Some(ConstValue::Int(self.bits() as i32)),
                b"S" => Some(ConstValue::Int(self.range(-32768, 32767) as i32)),
                b"C" => Some(ConstValue::Int(self.range(0, 65535) as i32)),
                b"B" => Some(ConstValue::Int(self.range(-128, 127) as i32)),
                b"Z" => Some(ConstValue::Int(self.below(2) as i32)),
                b"F" => Some(ConstValue::Float(self.bits() as u32)),
                b"J" => Some(ConstValue::Long(self.bits() as i64)),
                b"D" => Some(ConstValue::Double(self.bits())),
                b"Ljava/lang/String;" => Some(ConstValue::String(self.text())),
                _ => None,
            }
        } else {
            None
        };
        let sig = self.has(feat::SIGNATURES) && self.major >= 49 && self.chance(20);
        Field {
            access,
            name: self.ident(),
            desc,
            constant_value,
            signature: if sig { Some(self.field_signature()) } else { None },
            synthetic: self.chance(5),
            deprecated: self.chance(5),
            annotations: self.annotations(),
            type_annotations: self.type_annotations(|_| Target::Empty(0x13)),
            unknown: self.unknown_attrs(),
        }
    }

    fn method(&mut self, in_interface: bool) -> Method {
        let mut access = if in_interface { 1 } else { [0u16, 1, 2, 4][self.below(4)] };
        let is_static = self.chance(35);
        if is_static {
            access |= 0x0008;
        }
        let kind = self.below(10); // 0 abstract, 1 native, else with code
        let has_code = self.has(feat::CODE) && kind >= 2;
        if !has_code {
            if kind == 1 && !in_interface {
                access |= 0x0100;
            } else {
                access = (access & !0x0008) | 0x0400;
            }
        } else {
            if self.chance(15) {
                access |= 0x0010;
            }
            if self.chance(10) {
                access |= 0x0020;
            }
            if self.chance(5) && self.major < 61 {
                access |= 0x0800;
            }
        }
        if self.chance(8) {
            access |= 0x0040 | 0x1000;
        }
        if self.chance(8) {
            access |= 0x0080;
        }
        if self.chance(5) {
            access |= 0x1000;
        }
        let name = match self.below(12) {
            0 if has_code && access & 0x0008 == 0 => JStr::from_str("<init>"),
            1 if has_code && access & 0x0008 != 0 => JStr::from_str("<clinit>"),
            _ => self.ident(),
        };
        let desc = if name.as_bytes() == b"<clinit>" {
            JStr::from_str("()V")
        } else if name.as_bytes() == b"<init>" {
            let mut d = self.method_desc();
            let close = d.0.iter().position(|b| *b == b')').unwrap();
            d.0.truncate(close + 1);
            d.0.push(b'V');
            d
        } else {
            self.method_desc()
        };
        let nparams = crate::desc::parse_method_desc(desc.as_bytes()).map(|p| p.0.len()).unwrap_or(0);
        let misc = self.has(feat::MISC_ATTRS);
        let annos = self.has(feat::ANNOTATIONS) && self.major >= 49;
        let mut m = Method { access, name, desc, ..Method::default() };
        if has_code {
            m.code = Some(code::gen_code(self, &m));
        }
        if misc && self.chance(25) {
            m.exceptions = Some(self.list(3, |g| g.class_name()));
        }
        if misc && self.major >= 52 && self.chance(25) {
            let n = if self.chance(80) { nparams } else { self.below(4) };
            m.method_parameters = Some(
                (0..n)
                    .map(|_| MethodParameter {
                        name: if self.chance(80) { Some(self.ident()) } else { None },
                        access: [0u16, 0x0010, 0x1000, 0x8000, 0x8010][self.below(5)],
                    })
                    .collect(),
            );
        }
        if annos && self.chance(10) {
            m.annotation_default = Some(self.element_value(0));
        }
        if annos && self.chance(15) {
            let n = if self.chance(80) { nparams } else { self.below(4) };
            if self.chance(70) {
                m.parameter_annotations.visible = Some((0..n).map(|_| self.list(2, |g| g.annotation(0))).collect());
            }
            if self.chance(50) {
                m.parameter_annotations.invisible = Some((0..n).map(|_| self.list(2, |g| g.annotation(0))).collect());
            }
        }
        m.annotations = self.annotations();
        m.type_annotations = self.type_annotations(|g| match g.below(6) {
            0 => Target::TypeParameter { target_type: 0x01, index: g.below(3) as u8 },
            1 => Target::TypeParameterBound { target_type: 0x12, param: g.below(3) as u8, bound: g.below(3) as u8 },
            2 => Target::Empty(0x14),
            3 => Target::Empty(0x15),
            4 => Target::FormalParameter(g.below(4) as u8),
            _ => Target::Throws(g.below(3) as u16),
        });
        if self.has(feat::SIGNATURES) && self.major >= 49 && self.chance(15) {
            m.signature = Some(JStr::from_str("<T:Ljava/lang/Object;:Ljava/lang/Comparable<-TT;>;>(TT;[I)TT;^Ljava/lang/Exception;"));
        }
        m.synthetic = self.chance(5);
        m.deprecated = self.chance(5);
        m.unknown = self.unknown_attrs();
        m
    }

    fn module(&mut self) -> Module {
        let ver = |g: &mut Self| g.opt(50, |g| JStr::from_str(&format!("{}.{}-ea+{}", g.below(20), g.below(10), g.below(99))));
        Module {
            name: self.module_name(),
            flags: [0u16, 0x0020, 0x1000, 0x8000][self.below(4)],
            version: ver(self),
            requires: self.list(3, |g| Requires {
                module: g.module_name(),
                flags: [0u16, 0x0020, 0x0040, 0x1000, 0x8000][g.below(5)],
                version: ver(g),
            }),
            exports: self.list(3, |g| Exports {
                package: g.package_name(),
                flags: [0u16, 0x1000, 0x8000][g.below(3)],
                to: g.list(2, |g| g.module_name()),
            }),
            opens: self.list(2, |g| Exports {
                package: g.package_name(),
                flags: [0u16, 0x1000, 0x8000][g.below(3)],
                to: g.list(2, |g| g.module_name()),
            }),
            uses: self.list(2, |g| g.class_name()),
            provides: self.list(2, |g| Provides { service: g.class_name(), with: { let mut w = g.list(2, |g| g.class_name()); w.push(g.class_name()); w } }),
        }
    }
}

/// Generates a semantic class that is well-formed by [`crate::validate`]
/// once encoded with any [`Layout`].
pub fn gen_class(c: &mut dyn Choice, cfg: &GenCfg) -> Sem {
    let lo = cfg.major_min.clamp(45, 67);
    let hi = cfg.major_max.clamp(lo, 67);
    let major = c.range(lo as i64, hi as i64) as u16;
    let mut g = G { c, cfg, major, this_class: JStr::new(), prev_method: None };
    let minor = if major == 45 {
        3
    } else if major >= 56 && g.chance(5) {
        65535
    } else {
        0
    };
    let mut s = Sem { major, minor, ..Sem::default() };
    s.this_class = g.class_name();
    g.this_class = s.this_class.clone();

    // module-info
    if g.has(feat::MODULE) && major >= 53 && g.chance(8) {
        s.access = 0x8000;
        s.this_class = JStr::from_str("module-info");
        s.module = Some(g.module());
        if g.chance(50) {
            s.module_packages = Some(g.list(3, |g| g.package_name()));
        }
        if g.chance(40) {
            s.module_main_class = Some(g.class_name());
        }
        s.source_file = g.opt(70, |_| JStr::from_str("module-info.java"));
        s.annotations = g.annotations();
        s.unknown = g.unknown_attrs();
        return s;
    }

    let kind = g.below(10); // 0 interface, 1 annotation, 2 enum, else class
    s.access = match kind {
        0 => 0x0600,
        1 => 0x2600,
        2 => 0x4030,
        _ => 0x0020 | if g.chance(20) { 0x0400 } else if g.chance(30) { 0x0010 } else { 0 },
    };
    if g.chance(70) {
        s.access |= 1;
    }
    if g.chance(5) {
        s.access |= 0x1000;
    }
    let in_interface = kind <= 1;
    s.super_class = Some(if in_interface || g.chance(50) { JStr::from_str("java/lang/Object") } else { g.class_name() });
    s.interfaces = g.list(3, |g| g.class_name());
    let nf = g.below(cfg.max_members + 1);
    for _ in 0..nf {
        let f = g.field(in_interface);
        s.fields.push(f);
    }
    let nm = g.below(cfg.max_members + 1);
    for _ in 0..nm {
        let m = g.method(in_interface);
        s.methods.push(m);
    }

    let misc = g.has(feat::MISC_ATTRS);
    if misc {
        s.source_file = g.opt(60, |g| {
            let mut n = g.ident();
            n.0.extend_from_slice(b".java");
            n
        });
        if major >= 49 {
            // JVMS 4.7.11: the debug extension is a modified UTF-8 string (no terminating zero byte)
            s.source_debug_extension = g.opt(8, |g| {
                let mut b = vec![];
                for _ in 0..g.below(5) {
                    b.extend_from_slice(g.text().as_bytes());
                }
                b
            });
            s.enclosing_method = g.opt(10, |g| EnclosingMethod { class: g.class_name(), method: g.opt(60, |g| (g.ident(), g.method_desc())) });
        }
    }
    if g.has(feat::INNER) && g.chance(25) {
        s.inner_classes = Some(g.list(3, |g| InnerClass {
            inner: g.class_name(),
            outer: g.opt(60, |g| g.class_name()),
            inner_name: g.opt(70, |g| g.ident()),
            access: [0x0000u16, 0x0009, 0x000A, 0x0608, 0x4018, 0x1000, 0x2609][g.below(7)],
        }));
    }
    if g.has(feat::SIGNATURES) && major >= 49 && g.chance(20) {
        s.signature = Some(JStr::from_str("<T:Ljava/lang/Object;U::Ljava/lang/Runnable;>Ljava/lang/Object;Ljava/lang/Comparable<TT;>;"));
    }
    s.synthetic = g.chance(4);
    s.deprecated = g.chance(5);
    s.annotations = g.annotations();
    s.type_annotations = g.type_annotations(|g| match g.below(3) {
        0 => Target::TypeParameter { target_type: 0x00, index: g.below(3) as u8 },
        1 => Target::Supertype(if g.chance(40) { 65535 } else { g.below(3) as u16 }),
        _ => Target::TypeParameterBound { target_type: 0x11, param: g.below(3) as u8, bound: g.below(3) as u8 },
    });
    if g.has(feat::NEST) && major >= 55 {
        if g.chance(12) {
            s.nest_host = Some(g.class_name());
        } else if g.chance(12) {
            s.nest_members = Some(g.list(3, |g| g.class_name()));
        }
    }
    if g.has(feat::PERMITTED) && major >= 61 && s.access & 0x0010 == 0 && g.chance(12) {
        s.permitted_subclasses = Some(g.list(3, |g| g.class_name()));
    }
    if g.has(feat::RECORD) && major >= 60 && kind >= 3 && g.chance(15) {
        s.access |= 0x0010;
        s.access &= !0x0400;
        s.permitted_subclasses = None;
        s.super_class = Some(JStr::from_str("java/lang/Record"));
        s.record = Some(g.list(3, |g| {
            let sig = g.has(feat::SIGNATURES) && g.chance(25);
            RecordComponent {
                name: g.ident(),
                desc: g.field_desc(),
                signature: if sig { Some(g.field_signature()) } else { None },
                annotations: g.annotations(),
                type_annotations: g.type_annotations(|_| Target::Empty(0x13)),
                unknown: g.unknown_attrs(),
            }
        }));
    }
    s.unknown = g.unknown_attrs();
    s
}

/// Draws a layout: every knob random.
pub fn gen_layout(c: &mut dyn Choice) -> Layout {
    let pct = |c: &mut dyn Choice| -> u32 { [0u32, 0, 10, 50, 100][c.below(5) as usize] };
    Layout {
        seed: (c.below(1 << 32) << 32) | c.below(1 << 32),
        cp_order: [CpOrder::FirstUse, CpOrder::Reversed, CpOrder::Shuffled][c.below(3) as usize],
        cp_duplicates: if c.chance(40) { c.below(12) as u32 } else { 0 },
        cp_unused: if c.chance(40) { c.below(8) as u32 } else { 0 },
        bsm_duplicates: if c.chance(30) { c.below(4) as u32 } else { 0 },
        shuffle_attrs: c.chance(50),
        p_ldc_w: pct(c),
        p_local_explicit: pct(c),
        p_local_wide: pct(c),
        p_iinc_wide: pct(c),
        p_goto_w: pct(c),
        frames: [FrameEnc::Compact, FrameEnc::Full, FrameEnc::Mixed][c.below(3) as usize],
        p_frame_extended: pct(c),
        split_line_numbers: 1 + c.below(3) as u32,
        split_local_vars: 1 + c.below(3) as u32,
        lvt_before_lnt: c.chance(50),
        emit_map: true,
    }
}
