fn main(){}
