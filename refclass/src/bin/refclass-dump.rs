//! refclass-dump FILE.class            normalised listing (see refclass::dump)
//! refclass-dump --validate FILE.class validator messages
//! refclass-dump --gen SEED OUT.class  write a generated class (random layout)
//! refclass-dump --debug FILE.class    `{:#?}` of the Sem

use refclass::*;

fn main() {
    let args: Vec<String> = std::env::args().skip(1).collect();
    let die = |m: &str| -> ! {
        eprintln!("{}", m);
        std::process::exit(2)
    };
    match args.as_slice() {
        [f] => {
            let b = std::fs::read(f).unwrap_or_else(|e| die(&format!("{}: {}", f, e)));
            match parse(&b) {
                Ok(s) => print!("{}", dump::dump(&s)),
                Err(e) => die(&format!("{}: {}", f, e)),
            }
        }
        [o, f] if o == "--debug" => {
            let b = std::fs::read(f).unwrap_or_else(|e| die(&format!("{}: {}", f, e)));
            match parse(&b) {
                Ok(s) => println!("{:#?}", s),
                Err(e) => die(&format!("{}: {}", f, e)),
            }
        }
        [o, f] if o == "--validate" => {
            let b = std::fs::read(f).unwrap_or_else(|e| die(&format!("{}: {}", f, e)));
            match validate(&b) {
                Ok(()) => println!("ok"),
                Err(v) => {
                    for m in v {
                        println!("{}", m);
                    }
                    std::process::exit(1);
                }
            }
        }
        [o, seed, out] if o == "--gen" => {
            let seed: u64 = seed.parse().unwrap_or_else(|_| die("bad seed"));
            let mut rng = SplitMix::new(seed);
            let sem = gen_class(&mut rng, &GenCfg::default());
            let layout = gen_layout(&mut rng);
            let enc = encode(&sem, &layout).unwrap_or_else(|e| die(&e));
            std::fs::write(out, enc.bytes).unwrap_or_else(|e| die(&e.to_string()));
        }
        _ => die("usage: refclass-dump [--validate|--debug] FILE.class | --gen SEED OUT.class"),
    }
}
