//! Structural well-formedness per JVMS chapter 4.
//!
//! `validate` runs the same walker as `parse` in collect mode: every hard
//! problem (would make `parse` fail) and every soft problem (representable in
//! `Sem` but forbidden by JVMS) is reported. Each message is
//! `prefix: detail (at byte N)`; the prefix is stable (see README).

/// `Ok(())` iff the walker found no problem at all. Otherwise all problems.
pub fn validate(bytes: &[u8]) -> Result<(), Vec<String>> {
    let p = crate::parse::collect(bytes);
    if p.is_empty() {
        Ok(())
    } else {
        Err(p)
    }
}

/// The stable prefix of a validator message (text before the first `:`).
pub fn prefix(msg: &str) -> &str {
    msg.split(':').next().unwrap_or(msg)
}
