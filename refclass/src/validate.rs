pub fn validate(_b: &[u8]) -> Result<(), Vec<String>> { unimplemented!() }
