//! Targeted generators for class-*writer* tests: jump offsets at the 16-bit
//! boundary, widening chains, switch alignment, wide constants and locals,
//! code near 65535 bytes. The `Sem` is the ground truth; byte distances below
//! are stated for the shortest encoding of every instruction (fillers only
//! use instructions that have exactly one encoding).

use crate::jstr::JStr;
use crate::op;
use crate::sem::*;
use crate::Choice;

#[derive(Debug, Clone, Copy, PartialEq, Eq)]
pub enum BigJumpKind {
    /// (a) forward `goto`, distance 32766..=32769 with a 3-byte goto.
    ForwardGoto,
    /// (a) forward conditional branch, same distances.
    ForwardCond,
    /// (b) backward `goto`, distance -32767..=-32770.
    BackwardGoto,
    /// (b) backward conditional branch.
    BackwardCond,
    /// (c) 2..=5 nested forward gotos; widening the innermost pushes the
    /// next one over the limit, and so on.
    ChainGoto,
    /// (c) the same with conditional branches.
    ChainCond,
    /// (d) a switch behind 0..=3 nops (all four paddings) with far targets,
    /// spanned by a goto whose distance is at the limit, so widening the goto
    /// changes the switch padding.
    SwitchFar,
    /// (e) more than 255 constants before an `ldc`.
    ManyConstants,
    /// (f) locals 255/256/65535 and iinc deltas at the 8-bit boundary.
    BigLocals,
    /// (g) code_length 65533..=65535 with a far jump.
    NearLimit,
}

impl BigJumpKind {
    pub const ALL: [BigJumpKind; 10] = [
        BigJumpKind::ForwardGoto,
        BigJumpKind::ForwardCond,
        BigJumpKind::BackwardGoto,
        BigJumpKind::BackwardCond,
        BigJumpKind::ChainGoto,
        BigJumpKind::ChainCond,
        BigJumpKind::SwitchFar,
        BigJumpKind::ManyConstants,
        BigJumpKind::BigLocals,
        BigJumpKind::NearLimit,
    ];
}

#[derive(Debug, Clone)]
pub struct BigJump {
    /// A class `BigJump` with one static method `m()V` holding the code.
    pub sem: Sem,
    /// True if some *conditional* branch needs more than 16 bits, i.e. a
    /// writer has to insert a trampoline (`refclass::encode` returns
    /// `Err("needs-trampoline: ...")` for these).
    pub needs_trampoline: bool,
    /// Human-readable description of the drawn parameters.
    pub note: String,
}

const RETURN: Insn = Insn::Simple(op::RETURN);
const NOP: Insn = Insn::Simple(op::NOP);

/// Appends filler occupying exactly `bytes` bytes.
fn fill(c: &mut dyn Choice, v: &mut Vec<Insn>, bytes: usize, nops_only: bool) {
    let mut left = bytes;
    if !nops_only {
        while left >= 3 && c.chance(90) {
            v.push(Insn::SiPush(0x1234));
            left -= 3;
        }
    }
    for _ in 0..left {
        v.push(NOP);
    }
}

fn wrap(insns: Vec<Insn>, major: u16, max_locals: u16) -> Sem {
    let code = Code { max_stack: 4, max_locals, insns, ..Code::default() };
    Sem {
        major,
        minor: 0,
        access: 0x0021,
        this_class: JStr::from_str("BigJump"),
        super_class: Some(JStr::from_str("java/lang/Object")),
        methods: vec![Method { access: 0x0009, name: JStr::from_str("m"), desc: JStr::from_str("()V"), code: Some(code), ..Method::default() }],
        ..Sem::default()
    }
}

pub fn gen_big_jump_method(c: &mut dyn Choice, kind: BigJumpKind) -> BigJump {
    use BigJumpKind as K;
    let conds = op::cond_branch_opcodes();
    let cond = conds[c.below(conds.len() as u64) as usize];
    let nops_only = c.chance(50);
    match kind {
        K::ForwardGoto | K::ForwardCond => {
            let is_cond = kind == K::ForwardCond;
            let d = 32766 + c.below(4) as usize;
            let mut v = vec![NOP]; // placeholder for the jump
            fill(c, &mut v, d - 3, nops_only);
            let t = v.len();
            v.push(RETURN);
            v[0] = if is_cond { Insn::Branch(cond, t) } else { Insn::Goto(t) };
            BigJump { sem: wrap(v, 52, 1), needs_trampoline: is_cond && d > 32767, note: format!("forward distance {}", d) }
        }
        K::BackwardGoto | K::BackwardCond => {
            let is_cond = kind == K::BackwardCond;
            let d = 32767 + c.below(4) as usize;
            let mut v = Vec::new();
            fill(c, &mut v, d, nops_only);
            v.push(if is_cond { Insn::Branch(cond, 0) } else { Insn::Goto(0) });
            v.push(RETURN);
            BigJump { sem: wrap(v, 52, 1), needs_trampoline: is_cond && d > 32768, note: format!("backward distance -{}", d) }
        }
        K::ChainGoto | K::ChainCond => {
            let is_cond = kind == K::ChainCond;
            let k = 2 + c.below(4) as usize;
            // jump i sits at byte 3i; j = k-1-i jumps are nested inside it
            let dist = |j: usize| if j == 0 { 32768 } else { 32767 - 2 * (j - 1) };
            let mut v: Vec<Insn> = Vec::new();
            let mut targets = Vec::new();
            for i in 0..k {
                targets.push(3 * i + dist(k - 1 - i));
                v.push(NOP);
            }
            let last = *targets.iter().max().unwrap();
            // nop region starts at byte 3k; byte b there is instruction k + (b - 3k)
            for _ in 3 * k..=last {
                v.push(NOP);
            }
            v.push(RETURN);
            for i in 0..k {
                let t = k + (targets[i] - 3 * k);
                v[i] = if is_cond { Insn::Branch(cond, t) } else { Insn::Goto(t) };
            }
            BigJump { sem: wrap(v, 52, 1), needs_trampoline: is_cond, note: format!("chain of {} nested jumps", k) }
        }
        K::SwitchFar => {
            let p = c.below(4) as usize;
            let table = c.chance(50);
            let d = 32766 + c.below(3) as usize;
            let mut v = vec![NOP];
            for _ in 0..p {
                v.push(NOP);
            }
            let sw_at = v.len();
            v.push(NOP); // placeholder for the switch
            let sw_off = 3 + p;
            let pad = (4 - ((sw_off + 1) % 4)) % 4;
            let sw_size = if table { 1 + pad + 12 + 4 * 3 } else { 1 + pad + 8 + 8 * 3 };
            fill(c, &mut v, d - sw_off - sw_size, nops_only);
            let mid = sw_at + 1 + (v.len() - sw_at - 1) / 2;
            let end = v.len();
            v.push(RETURN);
            v[0] = Insn::Goto(end);
            v[sw_at] = if table {
                Insn::TableSwitch { default: end, low: -1, targets: vec![0, mid, end] }
            } else {
                Insn::LookupSwitch { default: end, pairs: vec![(i32::MIN, 0), (0, mid), (i32::MAX, end)] }
            };
            BigJump { sem: wrap(v, 52, 1), needs_trampoline: false, note: format!("switch after {} nops, spanning goto distance {}", p, d) }
        }
        K::ManyConstants => {
            let n = 256 + c.below(200) as usize;
            let mut v = Vec::new();
            for i in 0..n {
                v.push(Insn::Ldc(Const::Int(100_000 + i as i32)));
                v.push(Insn::Simple(op::POP));
            }
            v.push(Insn::Ldc(Const::String(JStr::from_str("after many constants"))));
            v.push(Insn::Ldc(Const::Float(0x4049_0fdb)));
            v.push(Insn::Ldc(Const::Long(1 << 40)));
            v.push(Insn::Ldc(Const::Class(JStr::from_str("java/lang/String"))));
            v.push(RETURN);
            BigJump { sem: wrap(v, 52, 1), needs_trampoline: false, note: format!("{} int constants before ldc", n) }
        }
        K::BigLocals => {
            let mut v = Vec::new();
            for idx in [0u16, 3, 4, 255, 256, 257, 65534, 65535] {
                for k in LocalKind::ALL {
                    if idx == 65535 && matches!(k, LocalKind::L | LocalKind::D) {
                        continue;
                    }
                    v.push(Insn::Load(k, idx));
                    v.push(Insn::Store(k, idx));
                }
                for d in [0i16, 127, 128, -128, -129, 32767, -32768] {
                    v.push(Insn::Iinc(idx, d));
                }
                v.push(Insn::Ret(idx));
            }
            v.push(RETURN);
            BigJump { sem: wrap(v, 50, 65535), needs_trampoline: false, note: "locals up to 65535".into() }
        }
        K::NearLimit => {
            let total = 65533 + c.below(3) as usize;
            let mut v = vec![NOP];
            // goto_w (5) + filler + return (1) == total
            fill(c, &mut v, total - 6, nops_only);
            let end = v.len();
            v.push(RETURN);
            v[0] = Insn::Goto(end);
            BigJump { sem: wrap(v, 52, 1), needs_trampoline: false, note: format!("code_length {}", total) }
        }
    }
}
