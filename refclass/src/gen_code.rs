//! Random Code attributes: every instruction family, tables, frames.

use super::{feat, G};
use crate::jstr::JStr;
use crate::op;
use crate::sem::*;

fn local_index(g: &mut G<'_>) -> u16 {
    if g.has(feat::WIDE_LOCALS) && g.chance(8) {
        256 + g.below(2000) as u16
    } else if g.chance(25) {
        4 + g.below(252) as u16
    } else {
        g.below(4) as u16
    }
}

fn vtype(g: &mut G<'_>, news: &[usize], allow_this: bool) -> VType {
    match g.below(if news.is_empty() { 8 } else { 9 }) {
        0 => VType::Top,
        1 => VType::Integer,
        2 => VType::Float,
        3 => VType::Long,
        4 => VType::Double,
        5 => VType::Null,
        6 if allow_this => VType::UninitializedThis,
        6 => VType::Integer,
        7 => VType::Object(g.class_or_array()),
        _ => VType::Uninitialized(news[g.below(news.len())]),
    }
}

fn insn(g: &mut G<'_>, n: usize) -> Insn {
    let simple = op::simple_opcodes();
    let conds = op::cond_branch_opcodes();
    loop {
        let target = g.below(n);
        let i = match g.below(24) {
            0..=4 => Insn::Simple(simple[g.below(simple.len())]),
            5 => Insn::BiPush(g.range(-128, 127) as i8),
            6 => Insn::SiPush(g.range(-32768, 32767) as i16),
            7 | 8 => {
                let wide = g.chance(35);
                let c = loop {
                    let c = g.loadable(0, wide);
                    if c.is_wide() == wide {
                        break c;
                    }
                };
                Insn::Ldc(c)
            }
            9 => Insn::Load(LocalKind::ALL[g.below(5)], local_index(g)),
            10 => Insn::Store(LocalKind::ALL[g.below(5)], local_index(g)),
            11 => {
                let d = if g.chance(30) { g.range(-32768, 32767) } else { g.range(-128, 127) };
                Insn::Iinc(local_index(g), d as i16)
            }
            12 | 13 => Insn::Branch(conds[g.below(conds.len())], target),
            14 => Insn::Goto(target),
            15 if g.has(feat::JSR) && g.major <= 50 => {
                if g.chance(50) {
                    Insn::Jsr(target)
                } else {
                    Insn::Ret(local_index(g))
                }
            }
            16 if g.has(feat::SWITCHES) => {
                if g.chance(50) {
                    let len = if g.chance(20) { 1 } else { 1 + g.below(6) };
                    let low = match g.below(4) {
                        0 => i32::MIN,
                        1 => i32::MAX - len as i32 + 1,
                        2 => -(g.below(10) as i32),
                        _ => g.bits() as i32 % 1000,
                    };
                    Insn::TableSwitch { default: target, low, targets: (0..len).map(|_| g.below(n)).collect() }
                } else {
                    let len = if g.chance(20) { 0 } else { g.below(6) };
                    let mut keys: Vec<i32> = (0..len)
                        .map(|_| match g.below(4) {
                            0 => i32::MIN,
                            1 => i32::MAX,
                            2 => -(g.below(100) as i32),
                            _ => g.bits() as i32,
                        })
                        .collect();
                    keys.sort();
                    keys.dedup();
                    Insn::LookupSwitch { default: target, pairs: keys.into_iter().map(|k| (k, g.below(n))).collect() }
                }
            }
            17 => Insn::Field(FieldOp::ALL[g.below(4)], g.member(false, false)),
            18 | 19 => {
                let o = InvokeOp::ALL[g.below(4)];
                let itf = match o {
                    InvokeOp::Virtual => false,
                    InvokeOp::Interface => true,
                    _ => g.major >= 52 && g.chance(30),
                };
                let mut m = g.member(true, itf);
                if o == InvokeOp::Special && g.chance(40) {
                    m.name = JStr::from_str("<init>");
                    let close = m.desc.0.iter().position(|b| *b == b')').unwrap();
                    m.desc.0.truncate(close + 1);
                    m.desc.0.push(b'V');
                }
                Insn::Invoke(o, m)
            }
            20 if g.has(feat::INDY) && g.major >= 51 => Insn::InvokeDynamic(Box::new(g.dynamic(true, 0))),
            21 => match g.below(4) {
                0 => Insn::New(g.class_name()),
                1 => Insn::ANewArray(g.class_or_array()),
                2 => Insn::CheckCast(g.class_or_array()),
                _ => Insn::InstanceOf(g.class_or_array()),
            },
            22 => Insn::NewArray(PrimType::ALL[g.below(8)]),
            23 => {
                // the dimension byte is an operand that can look like any opcode (16 = bipush, 17 = sipush, 167 = goto,
                // 170 = tableswitch ...): a pass that mis-sizes the instruction is only visible then
                let dims = if g.chance(20) { 1 + g.below(255) } else { 1 + g.below(4) };
                let base = g.field_desc();
                let base = base.as_bytes();
                let own = base.iter().take_while(|b| **b == b'[').count();
                let extra = if dims + own < 255 { g.below(2) } else { 0 };
                let mut d = vec![b'['; dims + extra];
                if dims + extra + own > 255 {
                    d.extend_from_slice(&base[own..]);
                } else {
                    d.extend_from_slice(base);
                }
                Insn::MultiANewArray(JStr(d), dims as u8)
            }
            _ => continue,
        };
        return i;
    }
}

pub(super) fn gen_code(g: &mut G<'_>, m: &Method) -> Code {
    let n = 1 + g.below(g.cfg.max_insns.max(1));
    let mut c = Code::default();
    for _ in 0..n {
        let i = insn(g, n);
        c.insns.push(i);
    }
    let news: Vec<usize> = c.insns.iter().enumerate().filter(|(_, i)| matches!(i, Insn::New(_))).map(|(i, _)| i).collect();

    if g.has(feat::EXCEPTION_TABLE) && g.chance(35) {
        c.exceptions = g.list(3, |g| {
            let start = g.below(n);
            let end = if g.chance(25) { n } else { start + 1 + g.below(n - start) };
            ExceptionEntry { start, end, handler: g.below(n), catch_type: g.opt(70, |g| g.class_name()) }
        });
    }
    if g.has(feat::DEBUG_TABLES) {
        if g.chance(50) {
            c.line_numbers = g.list(6, |g| LineNumber { at: g.below(n), line: g.below(65536) as u16 });
            if g.chance(70) {
                c.line_numbers.sort_by_key(|l| l.at);
            }
        }
        let lv = |g: &mut G<'_>, sig: bool| {
            let start = g.below(n);
            let end = if g.chance(30) { n } else { start + g.below(n - start + 1) };
            LocalVar {
                start,
                end,
                name: g.ident(),
                desc: if sig { JStr::from_str(["TT;", "Ljava/util/List<TT;>;", "[TE;"][g.below(3)]) } else { g.field_desc() },
                slot: local_index(g),
            }
        };
        if g.chance(40) {
            c.local_vars = g.list(4, |g| lv(g, false));
        }
        if g.major >= 49 && g.chance(20) {
            c.local_var_types = g.list(3, |g| lv(g, true));
        }
    }

    // frames: strictly increasing instruction indices, one of every raw kind
    if g.has(feat::FRAMES) && g.major >= 50 && g.chance(50) {
        let mut at: Vec<usize> = (0..n).filter(|_| g.chance(25)).collect();
        at.truncate(12);
        let is_init = m.name.as_bytes() == b"<init>";
        let mut prev = initial_locals(&g.this_class, m.access, &m.name, &m.desc).unwrap_or_default();
        for a in at {
            let mut f = Frame { at: a, locals: prev.clone(), stack: Vec::new() };
            match g.below(6) {
                0 => {}
                1 => f.stack.push(vtype(g, &news, is_init)),
                2 => {
                    let k = 1 + g.below(3);
                    let keep = f.locals.len().saturating_sub(k);
                    f.locals.truncate(keep);
                }
                3 => {
                    let k = 1 + g.below(3);
                    for _ in 0..k {
                        f.locals.push(vtype(g, &news, is_init));
                    }
                }
                _ => {
                    f.locals = g.list(5, |g| vtype(g, &news, is_init));
                    f.stack = g.list(3, |g| vtype(g, &news, is_init));
                }
            }
            prev = f.locals.clone();
            c.frames.push(f);
        }
    }

    let nex = c.exceptions.len();
    c.type_annotations = g.type_annotations(|g| match g.below(if nex > 0 { 4 } else { 3 }) {
        0 => Target::LocalVar {
            target_type: 0x40 + g.below(2) as u8,
            table: g.list(3, |g| {
                let start = g.below(n);
                let end = if g.chance(30) { n } else { start + g.below(n - start + 1) };
                LocalVarRange { start, end, slot: local_index(g) }
            }),
        },
        1 => Target::Offset { target_type: 0x43 + g.below(4) as u8, at: g.below(n) },
        2 => Target::TypeArgument { target_type: 0x47 + g.below(5) as u8, at: g.below(n), index: g.below(3) as u8 },
        _ => Target::Catch(g.below(nex) as u16),
    });
    c.unknown = g.unknown_attrs();

    // max_locals must cover every local the debug tables mention
    let mut max_slot: u32 = 0;
    for i in &c.insns {
        match i {
            Insn::Load(k, s) | Insn::Store(k, s) => {
                let w = matches!(k, LocalKind::L | LocalKind::D) as u32;
                max_slot = max_slot.max(*s as u32 + w);
            }
            Insn::Iinc(s, _) | Insn::Ret(s) => max_slot = max_slot.max(*s as u32),
            _ => {}
        }
    }
    for lv in c.local_vars.iter().chain(c.local_var_types.iter()) {
        max_slot = max_slot.max(lv.slot as u32 + 1);
    }
    c.max_locals = (max_slot + 1 + g.below(3) as u32).min(65535) as u16;
    c.max_stack = g.below(12) as u16;
    c
}
