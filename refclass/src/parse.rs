//! Strict class-file parser (bytes -> `Sem`) and the shared walker used by
//! the validator.
//!
//! The walker runs in one of two modes:
//! * strict (`parse`, `parse_prefix`): the first *hard* problem is returned as
//!   `ParseError`; *soft* problems (facts that `Sem` can represent although
//!   JVMS forbids them, e.g. a malformed descriptor) are ignored.
//! * collect (`validate`): every problem, hard or soft, is recorded and the
//!   walk continues with a placeholder wherever possible.
//!
//! The parser never panics: all indexing is checked, recursion is bounded,
//! and nothing is allocated proportionally to an untrusted count.

#[path = "parse_code.rs"]
mod code;

use std::collections::HashMap;

use crate::desc;
use crate::jstr::JStr;
use crate::sem::*;

#[derive(Debug, Clone, PartialEq, Eq)]
pub struct ParseError {
    /// Byte offset in the input at which the problem was detected.
    pub offset: usize,
    /// `prefix: detail` (same prefixes as the validator).
    pub what: String,
}

impl std::fmt::Display for ParseError {
    fn fmt(&self, f: &mut std::fmt::Formatter<'_>) -> std::fmt::Result {
        write!(f, "{} (at byte {})", self.what, self.offset)
    }
}
impl std::error::Error for ParseError {}

pub(crate) type R<T> = Result<T, ParseError>;

/// Maximum nesting of annotations / element values.
pub const MAX_ANNOTATION_DEPTH: usize = 64;
/// Maximum nesting of CONSTANT_Dynamic inside bootstrap arguments.
pub const MAX_DYNAMIC_DEPTH: usize = 16;
/// Maximum total number of constants materialised for Dynamic arguments.
const DYNAMIC_BUDGET: usize = 1 << 16;

#[derive(Debug, Clone, PartialEq)]
pub(crate) enum Cp {
    /// Index 0 or the slot after a Long/Double.
    Unusable,
    Utf8(JStr),
    Int(i32),
    Float(u32),
    Long(i64),
    Double(u64),
    Class(u16),
    String(u16),
    Field(u16, u16),
    Method(u16, u16),
    IMethod(u16, u16),
    Nat(u16, u16),
    MHandle(u8, u16),
    MType(u16),
    Dynamic(u16, u16),
    Indy(u16, u16),
    Module(u16),
    Package(u16),
}

impl Cp {
    fn kind(&self) -> &'static str {
        match self {
            Cp::Unusable => "unusable",
            Cp::Utf8(_) => "Utf8",
            Cp::Int(_) => "Integer",
            Cp::Float(_) => "Float",
            Cp::Long(_) => "Long",
            Cp::Double(_) => "Double",
            Cp::Class(_) => "Class",
            Cp::String(_) => "String",
            Cp::Field(..) => "Fieldref",
            Cp::Method(..) => "Methodref",
            Cp::IMethod(..) => "InterfaceMethodref",
            Cp::Nat(..) => "NameAndType",
            Cp::MHandle(..) => "MethodHandle",
            Cp::MType(_) => "MethodType",
            Cp::Dynamic(..) => "Dynamic",
            Cp::Indy(..) => "InvokeDynamic",
            Cp::Module(_) => "Module",
            Cp::Package(_) => "Package",
        }
    }
}

/// Attribute location.
#[derive(Debug, Clone, Copy, PartialEq, Eq)]
pub(crate) enum Loc {
    Class,
    Field,
    Method,
    Code,
    Component,
}

/// Everything an attribute table can contain; each location takes what it
/// recognises.
#[derive(Default)]
pub(crate) struct Attrs {
    seen: Vec<&'static str>,
    pub constant_value: Option<ConstValue>,
    pub code: Option<Code>,
    pub exceptions: Option<Vec<JStr>>,
    pub method_parameters: Option<Vec<MethodParameter>>,
    pub annotation_default: Option<ElementValue>,
    pub parameter_annotations: ParamAnnotations,
    pub signature: Option<JStr>,
    pub synthetic: bool,
    pub deprecated: bool,
    pub annotations: Annotations,
    pub type_annotations: TypeAnnotations,
    pub source_file: Option<JStr>,
    pub source_debug_extension: Option<Vec<u8>>,
    pub inner_classes: Option<Vec<InnerClass>>,
    pub enclosing_method: Option<EnclosingMethod>,
    pub nest_host: Option<JStr>,
    pub nest_members: Option<Vec<JStr>>,
    pub permitted_subclasses: Option<Vec<JStr>>,
    pub record: Option<Vec<RecordComponent>>,
    pub module: Option<Module>,
    pub module_packages: Option<Vec<JStr>>,
    pub module_main_class: Option<JStr>,
    pub line_numbers: Vec<LineNumber>,
    pub local_vars: Vec<LocalVar>,
    pub local_var_types: Vec<LocalVar>,
    pub frames_raw: Option<Vec<(usize, RawFrame)>>,
    pub unknown: Vec<UnknownAttr>,
}

/// Context for attributes inside a Code attribute.
pub(crate) struct CodeCx {
    /// Absolute file offset of code[0].
    pub code_len: usize,
    /// For each byte offset 0..=code_len: instruction index or u32::MAX.
    pub idx_of: Vec<u32>,
    pub n_insns: usize,
    /// Opcode byte at each instruction (for soft checks).
    pub opcodes: Vec<u8>,
    /// Decoding failed (collect mode): offsets cannot be checked.
    pub broken: bool,
    pub n_exceptions: usize,
}

impl CodeCx {
    /// Instruction index of a bytecode offset that must be an instruction start.
    pub fn insn_at(&self, off: usize) -> Option<usize> {
        match self.idx_of.get(off) {
            Some(&i) if i != u32::MAX && (i as usize) < self.n_insns => Some(i as usize),
            _ => None,
        }
    }
    /// Like `insn_at` but `code_len` maps to `n_insns`.
    pub fn insn_or_end(&self, off: usize) -> Option<usize> {
        if off == self.code_len {
            Some(self.n_insns)
        } else {
            self.insn_at(off)
        }
    }
}

pub(crate) struct P<'b> {
    pub b: &'b [u8],
    pub pos: usize,
    /// Reads may not go past this offset (end of the enclosing attribute).
    pub limit: usize,
    pub collect: bool,
    pub problems: Vec<String>,
    pub cp: Vec<Cp>,
    pub major: u16,
    /// Raw BootstrapMethods table (located by a pre-scan).
    pub bsm: Option<Vec<(u16, Vec<u16>)>>,
    dyn_cache: HashMap<u16, (Const, usize)>,
    dyn_budget: usize,
    pub this_class: JStr,
}

pub(crate) fn err<T>(offset: usize, prefix: &str, msg: impl AsRef<str>) -> R<T> {
    Err(ParseError { offset, what: format!("{}: {}", prefix, msg.as_ref()) })
}

impl<'b> P<'b> {
    pub fn new(b: &'b [u8], collect: bool) -> P<'b> {
        P {
            b,
            pos: 0,
            limit: b.len(),
            collect,
            problems: Vec::new(),
            cp: Vec::new(),
            major: 0,
            bsm: None,
            dyn_cache: HashMap::new(),
            dyn_budget: DYNAMIC_BUDGET,
            this_class: JStr::new(),
        }
    }

    /// Reports a problem. Strict mode: hard -> `Err`, soft -> ignored.
    /// Collect mode: recorded, `Ok`.
    pub fn problem(&mut self, at: usize, prefix: &str, msg: impl AsRef<str>, hard: bool) -> R<()> {
        if self.collect {
            self.problems.push(format!("{}: {} (at byte {})", prefix, msg.as_ref(), at));
            Ok(())
        } else if hard {
            err(at, prefix, msg)
        } else {
            Ok(())
        }
    }
    pub fn hard(&mut self, at: usize, prefix: &str, msg: impl AsRef<str>) -> R<()> {
        self.problem(at, prefix, msg, true)
    }
    pub fn soft(&mut self, at: usize, prefix: &str, msg: impl AsRef<str>) {
        let _ = self.problem(at, prefix, msg, false);
    }

    // ---- primitive reads -------------------------------------------------

    pub fn need(&self, n: usize) -> R<()> {
        let end = self.pos.checked_add(n);
        match end {
            Some(e) if e <= self.limit => Ok(()),
            _ => {
                if self.limit < self.b.len() {
                    err(self.pos, "attr-length", "content runs past attribute_length")
                } else {
                    err(self.pos, "truncated", format!("need {} more byte(s)", n))
                }
            }
        }
    }
    pub fn u8(&mut self) -> R<u8> {
        self.need(1)?;
        let v = self.b[self.pos];
        self.pos += 1;
        Ok(v)
    }
    pub fn u16(&mut self) -> R<u16> {
        self.need(2)?;
        let v = u16::from_be_bytes([self.b[self.pos], self.b[self.pos + 1]]);
        self.pos += 2;
        Ok(v)
    }
    pub fn u32(&mut self) -> R<u32> {
        self.need(4)?;
        let p = self.pos;
        let v = u32::from_be_bytes([self.b[p], self.b[p + 1], self.b[p + 2], self.b[p + 3]]);
        self.pos += 4;
        Ok(v)
    }
    pub fn take(&mut self, n: usize) -> R<&'b [u8]> {
        self.need(n)?;
        let s = &self.b[self.pos..self.pos + n];
        self.pos += n;
        Ok(s)
    }

    // ---- constant pool ---------------------------------------------------

    fn read_cp(&mut self) -> R<()> {
        let count_at = self.pos;
        let count = self.u16()? as usize;
        if count == 0 {
            self.hard(count_at, "cp-count", "constant_pool_count is 0")?;
        }
        let mut cp: Vec<Cp> = Vec::new();
        cp.push(Cp::Unusable);
        while cp.len() < count {
            let at = self.pos;
            let tag = self.u8()?;
            let e = match tag {
                1 => {
                    let n = self.u16()? as usize;
                    Cp::Utf8(JStr::from_bytes(self.take(n)?))
                }
                3 => Cp::Int(self.u32()? as i32),
                4 => Cp::Float(self.u32()?),
                5 => {
                    let h = self.u32()? as u64;
                    let l = self.u32()? as u64;
                    Cp::Long(((h << 32) | l) as i64)
                }
                6 => {
                    let h = self.u32()? as u64;
                    let l = self.u32()? as u64;
                    Cp::Double((h << 32) | l)
                }
                7 => Cp::Class(self.u16()?),
                8 => Cp::String(self.u16()?),
                9 => Cp::Field(self.u16()?, self.u16()?),
                10 => Cp::Method(self.u16()?, self.u16()?),
                11 => Cp::IMethod(self.u16()?, self.u16()?),
                12 => Cp::Nat(self.u16()?, self.u16()?),
                15 => Cp::MHandle(self.u8()?, self.u16()?),
                16 => Cp::MType(self.u16()?),
                17 => Cp::Dynamic(self.u16()?, self.u16()?),
                18 => Cp::Indy(self.u16()?, self.u16()?),
                19 => Cp::Module(self.u16()?),
                20 => Cp::Package(self.u16()?),
                t => return err(at, "cp-tag", format!("unknown constant pool tag {} at index {}", t, cp.len())),
            };
            let wide = matches!(e, Cp::Long(_) | Cp::Double(_));
            cp.push(e);
            if wide {
                if cp.len() >= count {
                    self.hard(at, "cp-count", "Long/Double entry at last index has no second slot")?;
                }
                cp.push(Cp::Unusable);
            }
        }
        self.cp = cp;
        Ok(())
    }

    pub fn cp_get(&mut self, idx: u16, at: usize, want: &str) -> R<Option<Cp>> {
        match self.cp.get(idx as usize) {
            None => {
                self.hard(at, "cp-index-range", format!("index {} out of range (count {}), wanted {}", idx, self.cp.len(), want))?;
                Ok(None)
            }
            Some(Cp::Unusable) => {
                self.hard(at, "cp-index-range", format!("index {} is unusable (0 or second slot of Long/Double), wanted {}", idx, want))?;
                Ok(None)
            }
            Some(e) => Ok(Some(e.clone())),
        }
    }

    fn kind_err(&mut self, idx: u16, at: usize, want: &str, got: &Cp) -> R<()> {
        self.hard(at, "cp-index-kind", format!("index {} is {}, wanted {}", idx, got.kind(), want))
    }

    pub fn utf8(&mut self, idx: u16, at: usize) -> R<JStr> {
        match self.cp_get(idx, at, "Utf8")? {
            Some(Cp::Utf8(s)) => Ok(s),
            Some(o) => {
                self.kind_err(idx, at, "Utf8", &o)?;
                Ok(JStr::new())
            }
            None => Ok(JStr::new()),
        }
    }
    pub fn utf8_opt(&mut self, idx: u16, at: usize) -> R<Option<JStr>> {
        if idx == 0 {
            Ok(None)
        } else {
            self.utf8(idx, at).map(Some)
        }
    }
    pub fn class(&mut self, idx: u16, at: usize) -> R<JStr> {
        match self.cp_get(idx, at, "Class")? {
            Some(Cp::Class(n)) => self.utf8(n, at),
            Some(o) => {
                self.kind_err(idx, at, "Class", &o)?;
                Ok(JStr::new())
            }
            None => Ok(JStr::new()),
        }
    }
    pub fn class_opt(&mut self, idx: u16, at: usize) -> R<Option<JStr>> {
        if idx == 0 {
            Ok(None)
        } else {
            self.class(idx, at).map(Some)
        }
    }
    fn named(&mut self, idx: u16, at: usize, want: &'static str) -> R<JStr> {
        match self.cp_get(idx, at, want)? {
            Some(Cp::Module(n)) if want == "Module" => self.utf8(n, at),
            Some(Cp::Package(n)) if want == "Package" => self.utf8(n, at),
            Some(o) => {
                self.kind_err(idx, at, want, &o)?;
                Ok(JStr::new())
            }
            None => Ok(JStr::new()),
        }
    }
    pub fn nat(&mut self, idx: u16, at: usize) -> R<(JStr, JStr)> {
        match self.cp_get(idx, at, "NameAndType")? {
            Some(Cp::Nat(n, d)) => Ok((self.utf8(n, at)?, self.utf8(d, at)?)),
            Some(o) => {
                self.kind_err(idx, at, "NameAndType", &o)?;
                Ok((JStr::new(), JStr::new()))
            }
            None => Ok((JStr::new(), JStr::new())),
        }
    }
    /// Resolves a Fieldref (`field == true`) or a Methodref /
    /// InterfaceMethodref.
    pub fn member(&mut self, idx: u16, at: usize, field: bool) -> R<MemberRef> {
        let want = if field { "Fieldref" } else { "Methodref/InterfaceMethodref" };
        let (c, n, itf) = match self.cp_get(idx, at, want)? {
            Some(Cp::Field(c, n)) if field => (c, n, false),
            Some(Cp::Method(c, n)) if !field => (c, n, false),
            Some(Cp::IMethod(c, n)) if !field => (c, n, true),
            Some(o) => {
                self.kind_err(idx, at, want, &o)?;
                return Ok(MemberRef::default());
            }
            None => return Ok(MemberRef::default()),
        };
        let owner = self.class(c, at)?;
        let (name, desc) = self.nat(n, at)?;
        Ok(MemberRef { owner, name, desc, is_interface: itf })
    }
    pub fn handle(&mut self, idx: u16, at: usize) -> R<Handle> {
        let dflt = Handle { kind: 1, member: MemberRef::default() };
        match self.cp_get(idx, at, "MethodHandle")? {
            Some(Cp::MHandle(kind, r)) => {
                if !(1..=9).contains(&kind) {
                    self.hard(at, "cp-handle-kind", format!("reference_kind {} not in 1..=9", kind))?;
                    return Ok(dflt);
                }
                let member = self.member(r, at, kind <= 4)?;
                if !member.is_interface && kind == 9 {
                    self.soft(at, "cp-index-kind", "invokeInterface handle must refer to an InterfaceMethodref");
                }
                if member.is_interface && (kind == 5 || kind == 8) {
                    self.soft(at, "cp-index-kind", "invokeVirtual/newInvokeSpecial handle must refer to a Methodref");
                }
                if kind >= 5 {
                    let n = member.name.as_bytes();
                    if kind == 8 && n != b"<init>" {
                        self.soft(at, "cp-handle-kind", "newInvokeSpecial handle must name <init>");
                    }
                    if kind != 8 && (n == b"<init>" || n == b"<clinit>") {
                        self.soft(at, "cp-handle-kind", "handle names <init>/<clinit> with wrong kind");
                    }
                }
                Ok(Handle { kind, member })
            }
            Some(o) => {
                self.kind_err(idx, at, "MethodHandle", &o)?;
                Ok(dflt)
            }
            None => Ok(dflt),
        }
    }

    /// Resolves the pieces of a Dynamic / InvokeDynamic constant.
    pub fn dynamic(&mut self, bsm_idx: u16, nat_idx: u16, at: usize, depth: usize) -> R<Dynamic> {
        let dflt = || Dynamic { bsm: Handle { kind: 6, member: MemberRef::default() }, args: Vec::new(), name: JStr::new(), desc: JStr::new() };
        if depth > MAX_DYNAMIC_DEPTH {
            self.hard(at, "cp-cycle", "Dynamic constants nested too deeply (cycle?)")?;
            return Ok(dflt());
        }
        let (name, desc) = self.nat(nat_idx, at)?;
        let entry = match &self.bsm {
            None => {
                self.hard(at, "bootstrap", "Dynamic/InvokeDynamic constant but no BootstrapMethods attribute")?;
                return Ok(dflt());
            }
            Some(t) => t.get(bsm_idx as usize).cloned(),
        };
        let (h, args_idx) = match entry {
            Some(e) => e,
            None => {
                self.hard(at, "bootstrap", format!("bootstrap_method_attr_index {} out of range", bsm_idx))?;
                return Ok(dflt());
            }
        };
        let bsm = self.handle(h, at)?;
        let mut args = Vec::new();
        for a in args_idx {
            args.push(self.loadable(a, at, depth + 1)?);
        }
        Ok(Dynamic { bsm, args, name, desc })
    }

    /// Resolves a loadable constant (JVMS 4.4 table 4.4-C).
    pub fn loadable(&mut self, idx: u16, at: usize, depth: usize) -> R<Const> {
        Ok(match self.cp_get(idx, at, "loadable constant")? {
            Some(Cp::Int(v)) => Const::Int(v),
            Some(Cp::Float(v)) => Const::Float(v),
            Some(Cp::Long(v)) => Const::Long(v),
            Some(Cp::Double(v)) => Const::Double(v),
            Some(Cp::String(s)) => Const::String(self.utf8(s, at)?),
            Some(Cp::Class(n)) => Const::Class(self.utf8(n, at)?),
            Some(Cp::MType(d)) => Const::MethodType(self.utf8(d, at)?),
            Some(Cp::MHandle(..)) => Const::MethodHandle(self.handle(idx, at)?),
            Some(Cp::Dynamic(b, n)) => {
                if let Some((c, size)) = self.dyn_cache.get(&idx) {
                    if *size > self.dyn_budget {
                        return err(at, "cp-cycle", "Dynamic constants expand to too many values");
                    }
                    self.dyn_budget -= *size;
                    return Ok(c.clone());
                }
                let d = self.dynamic(b, n, at, depth)?;
                let c = Const::Dynamic(Box::new(d));
                let size = const_size(&c);
                if size > self.dyn_budget {
                    return err(at, "cp-cycle", "Dynamic constants expand to too many values");
                }
                self.dyn_budget -= size;
                self.dyn_cache.insert(idx, (c.clone(), size));
                c
            }
            Some(o) => {
                self.kind_err(idx, at, "loadable constant", &o)?;
                Const::Int(0)
            }
            None => Const::Int(0),
        })
    }

    /// Checks every constant-pool entry's own references (JVMS 4.4.x).
    fn check_cp(&mut self, at: usize) -> R<()> {
        for i in 1..self.cp.len() {
            let e = self.cp[i].clone();
            let i16_ = i as u16;
            match e.clone() {
                Cp::Unusable | Cp::Int(_) | Cp::Float(_) | Cp::Long(_) | Cp::Double(_) => {}
                Cp::Utf8(s) => {
                    if !s.is_well_formed() {
                        self.soft(at, "utf8", format!("constant {} is not well-formed modified UTF-8", i));
                    }
                }
                Cp::Class(n) => {
                    let s = self.utf8(n, at)?;
                    if !desc::is_class_entry_name(s.as_bytes()) {
                        self.soft(at, "name", format!("Class constant {} has malformed name {:?}", i, s));
                    }
                }
                Cp::String(n) | Cp::MType(n) => {
                    let s = self.utf8(n, at)?;
                    if matches!(e, Cp::MType(_)) && desc::parse_method_desc(s.as_bytes()).is_none() {
                        self.soft(at, "descriptor", format!("MethodType constant {} has malformed descriptor {:?}", i, s));
                    }
                }
                Cp::Module(n) => {
                    let s = self.utf8(n, at)?;
                    if !desc::is_module_name(s.as_bytes()) {
                        self.soft(at, "name", format!("Module constant {} has malformed name {:?}", i, s));
                    }
                }
                Cp::Package(n) => {
                    let s = self.utf8(n, at)?;
                    if !desc::is_binary_class_name(s.as_bytes()) {
                        self.soft(at, "name", format!("Package constant {} has malformed name {:?}", i, s));
                    }
                }
                Cp::Nat(n, d) => {
                    let name = self.utf8(n, at)?;
                    let d = self.utf8(d, at)?;
                    if !desc::is_unqualified_name(name.as_bytes()) && name.as_bytes() != b"<init>" && name.as_bytes() != b"<clinit>" {
                        self.soft(at, "name", format!("NameAndType constant {} has malformed name {:?}", i, name));
                    }
                    if desc::parse_field_desc(d.as_bytes()).is_none() && desc::parse_method_desc(d.as_bytes()).is_none() {
                        self.soft(at, "descriptor", format!("NameAndType constant {} has malformed descriptor {:?}", i, d));
                    }
                }
                Cp::Field(..) => {
                    let m = self.member(i16_, at, true)?;
                    if desc::parse_field_desc(m.desc.as_bytes()).is_none() {
                        self.soft(at, "descriptor", format!("Fieldref constant {} has malformed descriptor {:?}", i, m.desc));
                    }
                }
                Cp::Method(..) | Cp::IMethod(..) => {
                    let m = self.member(i16_, at, false)?;
                    if desc::parse_method_desc(m.desc.as_bytes()).is_none() {
                        self.soft(at, "descriptor", format!("method ref constant {} has malformed descriptor {:?}", i, m.desc));
                    }
                    if !desc::is_method_name(m.name.as_bytes()) || m.name.as_bytes() == b"<clinit>" {
                        self.soft(at, "name", format!("method ref constant {} has malformed name {:?}", i, m.name));
                    }
                }
                Cp::MHandle(..) => {
                    self.handle(i16_, at)?;
                    if self.major != 0 && self.major < 51 {
                        self.soft(at, "version-feature", "MethodHandle constant before version 51");
                    }
                }
                Cp::Dynamic(b, n) | Cp::Indy(b, n) => {
                    let is_indy = matches!(e, Cp::Indy(..));
                    let d = if is_indy {
                        self.dynamic(b, n, at, 0)?
                    } else {
                        match self.loadable(i16_, at, 0)? {
                            Const::Dynamic(d) => *d,
                            _ => continue,
                        }
                    };
                    let ok = if is_indy { desc::parse_method_desc(d.desc.as_bytes()).is_some() } else { desc::parse_field_desc(d.desc.as_bytes()).is_some() };
                    if !ok {
                        self.soft(at, "descriptor", format!("Dynamic/InvokeDynamic constant {} has malformed descriptor {:?}", i, d.desc));
                    }
                    let min = if is_indy { 51 } else { 55 };
                    if self.major < min {
                        self.soft(at, "version-feature", format!("{} constant before version {}", e.kind(), min));
                    }
                }
            }
            if matches!(e, Cp::Module(_) | Cp::Package(_)) && self.major < 53 {
                self.soft(at, "version-feature", "Module/Package constant before version 53");
            }
            if matches!(e, Cp::MType(_)) && self.major < 51 {
                self.soft(at, "version-feature", "MethodType constant before version 51");
            }
        }
        Ok(())
    }

    // ---- pre-scan for BootstrapMethods ----------------------------------

    fn skip_attrs(&mut self) -> R<()> {
        let n = self.u16()?;
        for _ in 0..n {
            self.u16()?;
            let l = self.u32()? as usize;
            self.take(l)?;
        }
        Ok(())
    }

    fn prescan_bsm(&mut self) -> R<()> {
        let save = self.pos;
        let r = (|| -> R<()> {
            self.take(6)?; // access, this, super
            let n = self.u16()? as usize;
            self.take(n.checked_mul(2).unwrap_or(usize::MAX))?;
            for _ in 0..2 {
                let n = self.u16()?;
                for _ in 0..n {
                    self.take(6)?;
                    self.skip_attrs()?;
                }
            }
            let n = self.u16()?;
            for _ in 0..n {
                let name = self.u16()?;
                let l = self.u32()? as usize;
                let body = self.take(l)?;
                if self.bsm.is_none() && matches!(self.cp.get(name as usize), Some(Cp::Utf8(s)) if s.as_bytes() == b"BootstrapMethods") {
                    // raw table; malformed content is reported by the main walk
                    let mut t = Vec::new();
                    let mut q = P::new(body, false);
                    let cnt = q.u16()?;
                    let mut ok = true;
                    for _ in 0..cnt {
                        let r = (|| -> R<(u16, Vec<u16>)> {
                            let h = q.u16()?;
                            let na = q.u16()?;
                            let mut a = Vec::new();
                            for _ in 0..na {
                                a.push(q.u16()?);
                            }
                            Ok((h, a))
                        })();
                        match r {
                            Ok(e) => t.push(e),
                            Err(_) => {
                                ok = false;
                                break;
                            }
                        }
                    }
                    let _ = ok;
                    self.bsm = Some(t);
                }
            }
            Ok(())
        })();
        let _ = r;
        self.pos = save;
        Ok(())
    }

    // ---- class -----------------------------------------------------------

    pub fn class_file(&mut self) -> R<Sem> {
        let magic = self.u32()?;
        if magic != 0xCAFEBABE {
            // nothing sensible can follow
            return err(0, "magic", format!("bad magic {:#010x}", magic));
        }
        let minor = self.u16()?;
        let major = self.u16()?;
        self.major = major;
        if major < 45 {
            self.soft(6, "version", format!("major version {} < 45", major));
        }
        if major >= 56 && minor != 0 && minor != 65535 {
            self.soft(4, "version", format!("minor version {} must be 0 or 65535 for major >= 56", minor));
        }
        let cp_at = self.pos;
        self.read_cp()?;
        self.prescan_bsm()?;
        self.check_cp(cp_at)?;

        let mut s = Sem { minor, major, ..Sem::default() };
        let at = self.pos;
        s.access = self.u16()?;
        let at_this = self.pos;
        let this = self.u16()?;
        s.this_class = self.class(this, at_this)?;
        self.this_class = s.this_class.clone();
        let at_super = self.pos;
        let sup = self.u16()?;
        s.super_class = self.class_opt(sup, at_super)?;
        self.check_class_flags(at, &s);
        let n = self.u16()?;
        for _ in 0..n {
            let at = self.pos;
            let i = self.u16()?;
            let c = self.class(i, at)?;
            s.interfaces.push(c);
        }
        let n = self.u16()?;
        for _ in 0..n {
            let f = self.field()?;
            s.fields.push(f);
        }
        let n = self.u16()?;
        for _ in 0..n {
            let m = self.method()?;
            s.methods.push(m);
        }
        let a = self.attributes(Loc::Class, None, None)?;
        s.source_file = a.source_file;
        s.source_debug_extension = a.source_debug_extension;
        s.inner_classes = a.inner_classes;
        s.enclosing_method = a.enclosing_method;
        s.signature = a.signature;
        s.synthetic = a.synthetic;
        s.deprecated = a.deprecated;
        s.annotations = a.annotations;
        s.type_annotations = a.type_annotations;
        s.nest_host = a.nest_host;
        s.nest_members = a.nest_members;
        s.permitted_subclasses = a.permitted_subclasses;
        s.record = a.record;
        s.module = a.module;
        s.module_packages = a.module_packages;
        s.module_main_class = a.module_main_class;
        s.unknown = a.unknown;

        // BootstrapMethods must exist if the pool has Dynamic/InvokeDynamic
        if self.bsm.is_none() && self.cp.iter().any(|e| matches!(e, Cp::Dynamic(..) | Cp::Indy(..))) {
            self.hard(cp_at, "bootstrap", "pool has Dynamic/InvokeDynamic constants but there is no BootstrapMethods attribute")?;
        }
        if s.access & 0x8000 != 0 {
            if s.super_class.is_some() || !s.interfaces.is_empty() || !s.fields.is_empty() || !s.methods.is_empty() {
                self.soft(at, "module-class", "ACC_MODULE class must have no super class, interfaces, fields or methods");
            }
            if s.module.is_none() {
                self.soft(at, "module-class", "ACC_MODULE class without Module attribute");
            }
        } else if s.super_class.is_none() && s.this_class.as_bytes() != b"java/lang/Object" {
            self.soft(at_super, "super-class", "super_class is 0 but the class is not java/lang/Object or a module");
        }
        Ok(s)
    }

    fn check_class_flags(&mut self, at: usize, s: &Sem) {
        let f = s.access;
        if f & 0x0200 != 0 {
            if f & 0x0400 == 0 {
                self.soft(at, "flags", "ACC_INTERFACE without ACC_ABSTRACT");
            }
            if f & (0x0010 | 0x0020 | 0x4000 | 0x8000) != 0 && f & 0x8000 == 0 {
                self.soft(at, "flags", "ACC_INTERFACE with FINAL/SUPER/ENUM");
            }
        } else if f & 0x2000 != 0 {
            self.soft(at, "flags", "ACC_ANNOTATION without ACC_INTERFACE");
        }
        if f & 0x0010 != 0 && f & 0x0400 != 0 {
            self.soft(at, "flags", "class is both FINAL and ABSTRACT");
        }
    }

    fn field(&mut self) -> R<Field> {
        let at = self.pos;
        let access = self.u16()?;
        let ni = self.u16()?;
        let name = self.utf8(ni, at + 2)?;
        let di = self.u16()?;
        let desc_ = self.utf8(di, at + 4)?;
        if !desc::is_unqualified_name(name.as_bytes()) {
            self.soft(at + 2, "name", format!("malformed field name {:?}", name));
        }
        if desc::parse_field_desc(desc_.as_bytes()).is_none() {
            self.soft(at + 4, "descriptor", format!("malformed field descriptor {:?}", desc_));
        }
        let vis = (access & 1 != 0) as u8 + (access & 2 != 0) as u8 + (access & 4 != 0) as u8;
        if vis > 1 || (access & 0x0010 != 0 && access & 0x0040 != 0) {
            self.soft(at, "flags", "illegal field access flag combination");
        }
        let a = self.attributes(Loc::Field, None, None)?;
        if let Some(cv) = &a.constant_value {
            let ok = match (cv, desc_.as_bytes()) {
                (ConstValue::Int(_), b"I") | (ConstValue::Int(_), b"S") | (ConstValue::Int(_), b"C") | (ConstValue::Int(_), b"B") | (ConstValue::Int(_), b"Z") => true,
                (ConstValue::Float(_), b"F") | (ConstValue::Long(_), b"J") | (ConstValue::Double(_), b"D") => true,
                (ConstValue::String(_), b"Ljava/lang/String;") => true,
                _ => false,
            };
            if !ok {
                self.soft(at, "const-value", "ConstantValue kind does not match the field descriptor");
            }
        }
        Ok(Field {
            access,
            name,
            desc: desc_,
            constant_value: a.constant_value,
            signature: a.signature,
            synthetic: a.synthetic,
            deprecated: a.deprecated,
            annotations: a.annotations,
            type_annotations: a.type_annotations,
            unknown: a.unknown,
        })
    }

    fn method(&mut self) -> R<Method> {
        let at = self.pos;
        let access = self.u16()?;
        let ni = self.u16()?;
        let name = self.utf8(ni, at + 2)?;
        let di = self.u16()?;
        let desc_ = self.utf8(di, at + 4)?;
        if !desc::is_method_name(name.as_bytes()) {
            self.soft(at + 2, "name", format!("malformed method name {:?}", name));
        }
        match desc::method_arg_slots(desc_.as_bytes()) {
            None => self.soft(at + 4, "descriptor", format!("malformed method descriptor {:?}", desc_)),
            Some(n) => {
                if n + (access & 8 == 0) as usize > 255 {
                    self.soft(at + 4, "descriptor", "method has more than 255 parameter slots");
                }
            }
        }
        let vis = (access & 1 != 0) as u8 + (access & 2 != 0) as u8 + (access & 4 != 0) as u8;
        if vis > 1 {
            self.soft(at, "flags", "illegal method access flag combination");
        }
        let mi = MethodInfo { access, name: name.clone(), desc: desc_.clone() };
        let a = self.attributes(Loc::Method, None, Some(&mi))?;
        let is_clinit = name.as_bytes() == b"<clinit>";
        let wants_code = access & (0x0100 | 0x0400) == 0;
        if !is_clinit || self.major < 51 || access & 8 != 0 {
            if wants_code && a.code.is_none() {
                self.soft(at, "code-presence", "non-native, non-abstract method without Code");
            }
            if !wants_code && a.code.is_some() {
                self.soft(at, "code-presence", "native or abstract method with Code");
            }
        }
        Ok(Method {
            access,
            name,
            desc: desc_,
            code: a.code,
            exceptions: a.exceptions,
            method_parameters: a.method_parameters,
            annotation_default: a.annotation_default,
            parameter_annotations: a.parameter_annotations,
            annotations: a.annotations,
            type_annotations: a.type_annotations,
            signature: a.signature,
            synthetic: a.synthetic,
            deprecated: a.deprecated,
            unknown: a.unknown,
        })
    }

    // ---- attributes ------------------------------------------------------

    pub fn attributes(&mut self, loc: Loc, cx: Option<&CodeCx>, mi: Option<&MethodInfo>) -> R<Attrs> {
        let mut a = Attrs::default();
        let n = self.u16()?;
        for _ in 0..n {
            let at = self.pos;
            let ni = self.u16()?;
            let name = self.utf8(ni, at)?;
            let len = self.u32()? as usize;
            let end = match self.pos.checked_add(len) {
                Some(e) if e <= self.limit => e,
                _ => {
                    return if self.limit < self.b.len() {
                        err(at, "attr-length", format!("attribute {} ({} bytes) runs past the enclosing attribute", name, len))
                    } else {
                        err(at, "truncated", format!("attribute {} needs {} bytes", name, len))
                    }
                }
            };
            let outer = self.limit;
            self.limit = end;
            let r = self.attribute(loc, &name, len, &mut a, cx, mi);
            self.limit = outer;
            match r {
                Ok(()) => {
                    if self.pos != end {
                        self.hard(at, "attr-length", format!("attribute {}: attribute_length {} but content is {} bytes", name, len, self.pos + len - end))?;
                        self.pos = end;
                    }
                }
                Err(e) => {
                    if self.collect {
                        self.problems.push(format!("{} (at byte {})", e.what, e.offset));
                        self.pos = end;
                    } else {
                        return Err(e);
                    }
                }
            }
        }
        Ok(a)
    }

    fn once(&mut self, a: &mut Attrs, name: &'static str, at: usize) -> R<bool> {
        if a.seen.contains(&name) {
            self.hard(at, "attr-duplicate", format!("more than one {} attribute", name))?;
            return Ok(false);
        }
        a.seen.push(name);
        Ok(true)
    }

    fn class_list(&mut self) -> R<Vec<JStr>> {
        let n = self.u16()?;
        let mut v = Vec::new();
        for _ in 0..n {
            let at = self.pos;
            let i = self.u16()?;
            v.push(self.class(i, at)?);
        }
        Ok(v)
    }

    fn attribute(&mut self, loc: Loc, name: &JStr, len: usize, a: &mut Attrs, cx: Option<&CodeCx>, mi: Option<&MethodInfo>) -> R<()> {
        let at = self.pos;
        let nm = name.as_bytes();
        macro_rules! skip_dup {
            ($n:expr) => {
                if !self.once(a, $n, at)? {
                    self.pos = self.limit;
                    return Ok(());
                }
            };
        }
        let any_member = matches!(loc, Loc::Class | Loc::Field | Loc::Method);
        let annotatable = matches!(loc, Loc::Class | Loc::Field | Loc::Method | Loc::Component);
        match nm {
            b"ConstantValue" if loc == Loc::Field => {
                skip_dup!("ConstantValue");
                let i = self.u16()?;
                a.constant_value = Some(match self.cp_get(i, at, "Integer/Float/Long/Double/String")? {
                    Some(Cp::Int(v)) => ConstValue::Int(v),
                    Some(Cp::Float(v)) => ConstValue::Float(v),
                    Some(Cp::Long(v)) => ConstValue::Long(v),
                    Some(Cp::Double(v)) => ConstValue::Double(v),
                    Some(Cp::String(s)) => ConstValue::String(self.utf8(s, at)?),
                    Some(o) => {
                        self.kind_err(i, at, "Integer/Float/Long/Double/String", &o)?;
                        ConstValue::Int(0)
                    }
                    None => ConstValue::Int(0),
                });
            }
            b"Code" if loc == Loc::Method => {
                skip_dup!("Code");
                let mi = mi.expect("method info");
                a.code = Some(self.code(mi)?);
            }
            b"Exceptions" if loc == Loc::Method => {
                skip_dup!("Exceptions");
                a.exceptions = Some(self.class_list()?);
            }
            b"MethodParameters" if loc == Loc::Method => {
                skip_dup!("MethodParameters");
                let n = self.u8()?;
                let mut v = Vec::new();
                for _ in 0..n {
                    let at = self.pos;
                    let ni = self.u16()?;
                    let name = self.utf8_opt(ni, at)?;
                    let access = self.u16()?;
                    v.push(MethodParameter { name, access });
                }
                a.method_parameters = Some(v);
            }
            b"AnnotationDefault" if loc == Loc::Method => {
                skip_dup!("AnnotationDefault");
                a.annotation_default = Some(self.element_value(0)?);
            }
            b"RuntimeVisibleParameterAnnotations" | b"RuntimeInvisibleParameterAnnotations" if loc == Loc::Method => {
                let vis = nm == b"RuntimeVisibleParameterAnnotations";
                skip_dup!(if vis { "RuntimeVisibleParameterAnnotations" } else { "RuntimeInvisibleParameterAnnotations" });
                let n = self.u8()?;
                let mut v = Vec::new();
                for _ in 0..n {
                    v.push(self.annotation_list()?);
                }
                if vis {
                    a.parameter_annotations.visible = Some(v);
                } else {
                    a.parameter_annotations.invisible = Some(v);
                }
            }
            b"Signature" if annotatable => {
                skip_dup!("Signature");
                let i = self.u16()?;
                a.signature = Some(self.utf8(i, at)?);
            }
            b"Synthetic" if any_member => {
                if len != 0 {
                    self.hard(at, "attr-length", "Synthetic attribute must be empty")?;
                    self.pos = self.limit;
                }
                a.synthetic = true;
            }
            b"Deprecated" if any_member => {
                if len != 0 {
                    self.hard(at, "attr-length", "Deprecated attribute must be empty")?;
                    self.pos = self.limit;
                }
                a.deprecated = true;
            }
            b"RuntimeVisibleAnnotations" | b"RuntimeInvisibleAnnotations" if annotatable => {
                let vis = nm == b"RuntimeVisibleAnnotations";
                skip_dup!(if vis { "RuntimeVisibleAnnotations" } else { "RuntimeInvisibleAnnotations" });
                let l = self.annotation_list()?;
                if vis {
                    a.annotations.visible = l;
                } else {
                    a.annotations.invisible = l;
                }
            }
            b"RuntimeVisibleTypeAnnotations" | b"RuntimeInvisibleTypeAnnotations" => {
                let vis = nm == b"RuntimeVisibleTypeAnnotations";
                skip_dup!(if vis { "RuntimeVisibleTypeAnnotations" } else { "RuntimeInvisibleTypeAnnotations" });
                let n = self.u16()?;
                let mut v = Vec::new();
                for _ in 0..n {
                    v.push(self.type_annotation(loc, cx)?);
                }
                if vis {
                    a.type_annotations.visible = v;
                } else {
                    a.type_annotations.invisible = v;
                }
            }
            b"SourceFile" if loc == Loc::Class => {
                skip_dup!("SourceFile");
                let i = self.u16()?;
                a.source_file = Some(self.utf8(i, at)?);
            }
            b"SourceDebugExtension" if loc == Loc::Class => {
                skip_dup!("SourceDebugExtension");
                a.source_debug_extension = Some(self.take(len)?.to_vec());
            }
            b"InnerClasses" if loc == Loc::Class => {
                skip_dup!("InnerClasses");
                let n = self.u16()?;
                let mut v = Vec::new();
                for _ in 0..n {
                    let at = self.pos;
                    let i = self.u16()?;
                    let inner = self.class(i, at)?;
                    let o = self.u16()?;
                    let outer = self.class_opt(o, at + 2)?;
                    let ni = self.u16()?;
                    let inner_name = self.utf8_opt(ni, at + 4)?;
                    let access = self.u16()?;
                    v.push(InnerClass { inner, outer, inner_name, access });
                }
                a.inner_classes = Some(v);
            }
            b"EnclosingMethod" if loc == Loc::Class => {
                skip_dup!("EnclosingMethod");
                let c = self.u16()?;
                let class = self.class(c, at)?;
                let m = self.u16()?;
                let method = if m == 0 { None } else { Some(self.nat(m, at + 2)?) };
                a.enclosing_method = Some(EnclosingMethod { class, method });
            }
            b"NestHost" if loc == Loc::Class => {
                skip_dup!("NestHost");
                let i = self.u16()?;
                a.nest_host = Some(self.class(i, at)?);
            }
            b"NestMembers" if loc == Loc::Class => {
                skip_dup!("NestMembers");
                a.nest_members = Some(self.class_list()?);
            }
            b"PermittedSubclasses" if loc == Loc::Class => {
                skip_dup!("PermittedSubclasses");
                a.permitted_subclasses = Some(self.class_list()?);
            }
            b"ModuleMainClass" if loc == Loc::Class => {
                skip_dup!("ModuleMainClass");
                let i = self.u16()?;
                a.module_main_class = Some(self.class(i, at)?);
            }
            b"ModulePackages" if loc == Loc::Class => {
                skip_dup!("ModulePackages");
                let n = self.u16()?;
                let mut v = Vec::new();
                for _ in 0..n {
                    let at = self.pos;
                    let i = self.u16()?;
                    v.push(self.named(i, at, "Package")?);
                }
                a.module_packages = Some(v);
            }
            b"Module" if loc == Loc::Class => {
                skip_dup!("Module");
                a.module = Some(self.module()?);
            }
            b"Record" if loc == Loc::Class => {
                skip_dup!("Record");
                let n = self.u16()?;
                let mut v = Vec::new();
                for _ in 0..n {
                    let at = self.pos;
                    let ni = self.u16()?;
                    let name = self.utf8(ni, at)?;
                    let di = self.u16()?;
                    let desc_ = self.utf8(di, at + 2)?;
                    if !desc::is_unqualified_name(name.as_bytes()) {
                        self.soft(at, "name", format!("malformed record component name {:?}", name));
                    }
                    if desc::parse_field_desc(desc_.as_bytes()).is_none() {
                        self.soft(at + 2, "descriptor", format!("malformed record component descriptor {:?}", desc_));
                    }
                    let ca = self.attributes(Loc::Component, None, None)?;
                    v.push(RecordComponent {
                        name,
                        desc: desc_,
                        signature: ca.signature,
                        annotations: ca.annotations,
                        type_annotations: ca.type_annotations,
                        unknown: ca.unknown,
                    });
                }
                a.record = Some(v);
            }
            b"BootstrapMethods" if loc == Loc::Class => {
                skip_dup!("BootstrapMethods");
                let n = self.u16()?;
                for _ in 0..n {
                    let at = self.pos;
                    let h = self.u16()?;
                    self.handle(h, at)?;
                    let na = self.u16()?;
                    for _ in 0..na {
                        let at = self.pos;
                        let ai = self.u16()?;
                        self.loadable(ai, at, 1)?;
                    }
                }
            }
            b"LineNumberTable" if loc == Loc::Code => {
                let cx = cx.expect("code cx");
                let n = self.u16()?;
                for _ in 0..n {
                    let at = self.pos;
                    let pc = self.u16()? as usize;
                    let line = self.u16()?;
                    let idx = match cx.insn_at(pc) {
                        Some(i) => i,
                        None => {
                            if !cx.broken {
                                self.hard(at, "line-number", format!("start_pc {} is not an instruction boundary", pc))?;
                            }
                            0
                        }
                    };
                    a.line_numbers.push(LineNumber { at: idx, line });
                }
            }
            b"LocalVariableTable" | b"LocalVariableTypeTable" if loc == Loc::Code => {
                let cx = cx.expect("code cx");
                let is_type = nm == b"LocalVariableTypeTable";
                let n = self.u16()?;
                for _ in 0..n {
                    let at = self.pos;
                    let pc = self.u16()? as usize;
                    let l = self.u16()? as usize;
                    let ni = self.u16()?;
                    let name = self.utf8(ni, at + 4)?;
                    let di = self.u16()?;
                    let d = self.utf8(di, at + 6)?;
                    let slot = self.u16()?;
                    let (start, end) = match (cx.insn_at(pc), cx.insn_or_end(pc + l)) {
                        (Some(s), Some(e)) => (s, e),
                        _ => {
                            if !cx.broken {
                                self.hard(at, "local-var", format!("range [{}, {}) is not on instruction boundaries", pc, pc + l))?;
                            }
                            (0, 0)
                        }
                    };
                    if !desc::is_unqualified_name(name.as_bytes()) {
                        self.soft(at + 4, "name", format!("malformed local variable name {:?}", name));
                    }
                    if !is_type && desc::parse_field_desc(d.as_bytes()).is_none() {
                        self.soft(at + 6, "descriptor", format!("malformed local variable descriptor {:?}", d));
                    }
                    let lv = LocalVar { start, end, name, desc: d, slot };
                    if is_type {
                        a.local_var_types.push(lv);
                    } else {
                        a.local_vars.push(lv);
                    }
                }
            }
            b"StackMapTable" if loc == Loc::Code => {
                skip_dup!("StackMapTable");
                let cx = cx.expect("code cx");
                a.frames_raw = Some(self.stack_map_table(cx)?);
            }
            _ => {
                let bytes = self.take(len)?.to_vec();
                a.unknown.push(UnknownAttr { name: name.clone(), bytes });
            }
        }
        Ok(())
    }

    fn module(&mut self) -> R<Module> {
        let at = self.pos;
        let ni = self.u16()?;
        let name = self.named(ni, at, "Module")?;
        let flags = self.u16()?;
        let vi = self.u16()?;
        let version = self.utf8_opt(vi, at + 4)?;
        let mut m = Module { name, flags, version, ..Module::default() };
        let n = self.u16()?;
        for _ in 0..n {
            let at = self.pos;
            let i = self.u16()?;
            let module = self.named(i, at, "Module")?;
            let flags = self.u16()?;
            let vi = self.u16()?;
            let version = self.utf8_opt(vi, at + 4)?;
            m.requires.push(Requires { module, flags, version });
        }
        for which in 0..2 {
            let n = self.u16()?;
            for _ in 0..n {
                let at = self.pos;
                let i = self.u16()?;
                let package = self.named(i, at, "Package")?;
                let flags = self.u16()?;
                let nt = self.u16()?;
                let mut to = Vec::new();
                for _ in 0..nt {
                    let at = self.pos;
                    let i = self.u16()?;
                    to.push(self.named(i, at, "Module")?);
                }
                let e = Exports { package, flags, to };
                if which == 0 {
                    m.exports.push(e);
                } else {
                    m.opens.push(e);
                }
            }
        }
        m.uses = self.class_list()?;
        let n = self.u16()?;
        for _ in 0..n {
            let at = self.pos;
            let i = self.u16()?;
            let service = self.class(i, at)?;
            let with = self.class_list()?;
            m.provides.push(Provides { service, with });
        }
        Ok(m)
    }

    // ---- annotations -----------------------------------------------------

    fn annotation_list(&mut self) -> R<Vec<Annotation>> {
        let n = self.u16()?;
        let mut v = Vec::new();
        for _ in 0..n {
            v.push(self.annotation(0)?);
        }
        Ok(v)
    }

    fn annotation(&mut self, depth: usize) -> R<Annotation> {
        if depth > MAX_ANNOTATION_DEPTH {
            return err(self.pos, "annotation-depth", "annotations nested too deeply");
        }
        let at = self.pos;
        let ti = self.u16()?;
        let type_desc = self.utf8(ti, at)?;
        if desc::parse_field_desc(type_desc.as_bytes()).is_none() {
            self.soft(at, "descriptor", format!("malformed annotation type descriptor {:?}", type_desc));
        }
        let n = self.u16()?;
        let mut pairs = Vec::new();
        for _ in 0..n {
            let at = self.pos;
            let ni = self.u16()?;
            let name = self.utf8(ni, at)?;
            let value = self.element_value(depth + 1)?;
            pairs.push(Pair { name, value });
        }
        Ok(Annotation { type_desc, pairs })
    }

    fn int_const(&mut self, what: &str) -> R<i32> {
        let at = self.pos;
        let i = self.u16()?;
        Ok(match self.cp_get(i, at, "Integer")? {
            Some(Cp::Int(v)) => v,
            Some(o) => {
                self.kind_err(i, at, what, &o)?;
                0
            }
            None => 0,
        })
    }

    fn element_value(&mut self, depth: usize) -> R<ElementValue> {
        if depth > MAX_ANNOTATION_DEPTH {
            return err(self.pos, "annotation-depth", "element values nested too deeply");
        }
        let at = self.pos;
        let tag = self.u8()?;
        Ok(match tag {
            b'B' => {
                let v = self.int_const("Integer")?;
                if !(-128..=127).contains(&v) {
                    self.soft(at, "element-value-range", "byte value out of range");
                }
                ElementValue::Byte(v)
            }
            b'C' => {
                let v = self.int_const("Integer")?;
                if !(0..=65535).contains(&v) {
                    self.soft(at, "element-value-range", "char value out of range");
                }
                ElementValue::Char(v)
            }
            b'I' => ElementValue::Int(self.int_const("Integer")?),
            b'S' => {
                let v = self.int_const("Integer")?;
                if !(-32768..=32767).contains(&v) {
                    self.soft(at, "element-value-range", "short value out of range");
                }
                ElementValue::Short(v)
            }
            b'Z' => {
                let v = self.int_const("Integer")?;
                if !(0..=1).contains(&v) {
                    self.soft(at, "element-value-range", "boolean value out of range");
                }
                ElementValue::Boolean(v)
            }
            b'D' | b'F' | b'J' => {
                let at = self.pos;
                let i = self.u16()?;
                match (tag, self.cp_get(i, at, "Double/Float/Long")?) {
                    (b'D', Some(Cp::Double(v))) => ElementValue::Double(v),
                    (b'F', Some(Cp::Float(v))) => ElementValue::Float(v),
                    (b'J', Some(Cp::Long(v))) => ElementValue::Long(v),
                    (_, Some(o)) => {
                        self.kind_err(i, at, "constant matching element_value tag", &o)?;
                        ElementValue::Int(0)
                    }
                    (_, None) => ElementValue::Int(0),
                }
            }
            b's' => {
                let at = self.pos;
                let i = self.u16()?;
                ElementValue::String(self.utf8(i, at)?)
            }
            b'e' => {
                let at = self.pos;
                let t = self.u16()?;
                let type_desc = self.utf8(t, at)?;
                let c = self.u16()?;
                let const_name = self.utf8(c, at + 2)?;
                if desc::parse_field_desc(type_desc.as_bytes()).is_none() {
                    self.soft(at, "descriptor", format!("malformed enum type descriptor {:?}", type_desc));
                }
                ElementValue::Enum { type_desc, const_name }
            }
            b'c' => {
                let at = self.pos;
                let i = self.u16()?;
                let d = self.utf8(i, at)?;
                if d.as_bytes() != b"V" && desc::parse_field_desc(d.as_bytes()).is_none() {
                    self.soft(at, "descriptor", format!("malformed class element descriptor {:?}", d));
                }
                ElementValue::Class(d)
            }
            b'@' => ElementValue::Annotation(Box::new(self.annotation(depth + 1)?)),
            b'[' => {
                let n = self.u16()?;
                let mut v = Vec::new();
                for _ in 0..n {
                    v.push(self.element_value(depth + 1)?);
                }
                ElementValue::Array(v)
            }
            t => return err(at, "element-value-tag", format!("unknown element_value tag {:#04x}", t)),
        })
    }

    fn type_annotation(&mut self, loc: Loc, cx: Option<&CodeCx>) -> R<TypeAnnotation> {
        let at = self.pos;
        let tt = self.u8()?;
        let code_pc = |p: &mut P<'b>, pc: usize, at: usize, end_ok: bool| -> R<usize> {
            match cx {
                None => {
                    p.hard(at, "type-annotation-target", "code-relative target outside a Code attribute")?;
                    Ok(0)
                }
                Some(cx) => {
                    let r = if end_ok { cx.insn_or_end(pc) } else { cx.insn_at(pc) };
                    match r {
                        Some(i) => Ok(i),
                        None => {
                            if !cx.broken {
                                p.hard(at, "type-annotation-offset", format!("offset {} is not an instruction boundary", pc))?;
                            }
                            Ok(0)
                        }
                    }
                }
            }
        };
        let (target, allowed): (Target, &[Loc]) = match tt {
            0x00 | 0x01 => (Target::TypeParameter { target_type: tt, index: self.u8()? }, if tt == 0 { &[Loc::Class] } else { &[Loc::Method] }),
            0x10 => (Target::Supertype(self.u16()?), &[Loc::Class]),
            0x11 | 0x12 => {
                let param = self.u8()?;
                let bound = self.u8()?;
                (Target::TypeParameterBound { target_type: tt, param, bound }, if tt == 0x11 { &[Loc::Class] } else { &[Loc::Method] })
            }
            0x13 => (Target::Empty(tt), &[Loc::Field, Loc::Component]),
            0x14 | 0x15 => (Target::Empty(tt), &[Loc::Method]),
            0x16 => (Target::FormalParameter(self.u8()?), &[Loc::Method]),
            0x17 => (Target::Throws(self.u16()?), &[Loc::Method]),
            0x40 | 0x41 => {
                let n = self.u16()?;
                let mut table = Vec::new();
                for _ in 0..n {
                    let at = self.pos;
                    let pc = self.u16()? as usize;
                    let l = self.u16()? as usize;
                    let slot = self.u16()?;
                    let start = code_pc(self, pc, at, false)?;
                    let end = code_pc(self, pc + l, at, true)?;
                    table.push(LocalVarRange { start, end, slot });
                }
                (Target::LocalVar { target_type: tt, table }, &[Loc::Code])
            }
            0x42 => {
                let i = self.u16()?;
                if let Some(cx) = cx {
                    if i as usize >= cx.n_exceptions {
                        self.soft(at, "type-annotation-target", "catch target index out of range");
                    }
                }
                (Target::Catch(i), &[Loc::Code])
            }
            0x43..=0x46 => {
                let pc = self.u16()? as usize;
                (Target::Offset { target_type: tt, at: code_pc(self, pc, at + 1, false)? }, &[Loc::Code])
            }
            0x47..=0x4B => {
                let pc = self.u16()? as usize;
                let index = self.u8()?;
                (Target::TypeArgument { target_type: tt, at: code_pc(self, pc, at + 1, false)?, index }, &[Loc::Code])
            }
            t => return err(at, "type-annotation-target", format!("unknown target_type {:#04x}", t)),
        };
        if !allowed.contains(&loc) {
            self.soft(at, "type-annotation-target", format!("target_type {:#04x} not allowed in {:?}", tt, loc));
        }
        let n = self.u8()?;
        let mut path = Vec::new();
        for _ in 0..n {
            let at = self.pos;
            let kind = self.u8()?;
            let arg = self.u8()?;
            if kind > 3 || (kind < 3 && arg != 0) {
                self.soft(at, "type-path", "illegal type_path entry");
            }
            path.push(PathStep { kind, arg });
        }
        let annotation = self.annotation(0)?;
        Ok(TypeAnnotation { target, path, annotation })
    }
}

pub(crate) struct MethodInfo {
    pub access: u16,
    pub name: JStr,
    pub desc: JStr,
}

fn const_size(c: &Const) -> usize {
    match c {
        Const::Dynamic(d) => 1 + d.args.iter().map(const_size).sum::<usize>(),
        _ => 1,
    }
}

/// Parses one class file from the start of `bytes`; returns the class and the
/// number of bytes it occupies.
pub fn parse_prefix(bytes: &[u8]) -> Result<(Sem, usize), ParseError> {
    let mut p = P::new(bytes, false);
    let s = p.class_file()?;
    Ok((s, p.pos))
}

/// Parses exactly one class file; trailing bytes are an error
/// (`trailing-bytes:`).
pub fn parse(bytes: &[u8]) -> Result<Sem, ParseError> {
    let (s, n) = parse_prefix(bytes)?;
    if n != bytes.len() {
        return err(n, "trailing-bytes", format!("{} byte(s) after the class", bytes.len() - n));
    }
    Ok(s)
}

/// Runs the walker in collect mode. Used by `validate`.
pub(crate) fn collect(bytes: &[u8]) -> Vec<String> {
    let mut p = P::new(bytes, true);
    match p.class_file() {
        Ok(_) => {
            if p.pos != bytes.len() {
                p.problems.push(format!("trailing-bytes: {} byte(s) after the class (at byte {})", bytes.len() - p.pos, p.pos));
            }
        }
        Err(e) => p.problems.push(format!("{} (at byte {})", e.what, e.offset)),
    }
    p.problems
}
