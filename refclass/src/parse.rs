#[derive(Debug, Clone, PartialEq, Eq)]
pub struct ParseError { pub offset: usize, pub what: String }
pub fn parse(_b: &[u8]) -> Result<crate::sem::Sem, ParseError> { unimplemented!() }
pub fn parse_prefix(_b: &[u8]) -> Result<(crate::sem::Sem, usize), ParseError> { unimplemented!() }
