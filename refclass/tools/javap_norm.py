#!/usr/bin/env python3
"""Normalises `javap -v -p -c -l` output (stdin) into the listing format of
`refclass-dump` (see src/dump.rs) so the two can be diffed.

Dev-time tool only. Covered: class header, fields (ConstantValue, Signature),
methods (Signature, Exceptions, code with resolved operands and branch targets
as instruction indices, exception table, line numbers, local variables, raw
StackMapTable frames), InnerClasses, EnclosingMethod, NestHost/NestMembers,
PermittedSubclasses. Interfaces and record components are not extracted (the
cross-check script drops those lines from the refclass side).
"""
import re
import struct
import sys

ALLOWED = set("abcdefghijklmnopqrstuvwxyzABCDEFGHIJKLMNOPQRSTUVWXYZ0123456789/;[()<>:.$_-+*=,!@#%&|^~{} ")


def norm(s):
    s = re.sub(r"\\u[0-9a-fA-F]{4}", "", s)
    s = re.sub(r"\\.", "", s)
    return "".join(c for c in s if c in ALLOWED)


lines = sys.stdin.read().split("\n")
cp = {}
for ln in lines:
    m = re.match(r"^\s*#(\d+) = (\w+)\s*(.*)$", ln)
    if m:
        idx, kind, rest = int(m.group(1)), m.group(2), m.group(3)
        if kind != "Utf8":
            rest = rest.split("//")[0].strip()
        cp[idx] = (kind, rest)


def utf8(i):
    k, v = cp[i]
    assert k == "Utf8", (i, k)
    return norm(v)


def ref1(i):
    return int(cp[i][1].lstrip("#"))


def cls(i):
    assert cp[i][0] == "Class", cp[i]
    return utf8(ref1(i))


def nat(i):
    a, b = cp[i][1].split(":")
    return utf8(int(a[1:])), utf8(int(b[1:]))


def member(i):
    k, v = cp[i]
    a, b = v.split(".")
    n, d = nat(int(b[1:]))
    kind = {"Fieldref": "Field", "Methodref": "Method", "InterfaceMethodref": "InterfaceMethod"}[k]
    return "%s %s.%s:%s" % (kind, cls(int(a[1:])), n, d)


REF = ["?", "REF_getField", "REF_getStatic", "REF_putField", "REF_putStatic", "REF_invokeVirtual",
       "REF_invokeStatic", "REF_invokeSpecial", "REF_newInvokeSpecial", "REF_invokeInterface"]
bsm = {}


def handle(i):
    k, v = cp[i]
    assert k == "MethodHandle"
    a, b = v.split(":")
    return "%s %s" % (REF[int(a)], member(int(b[1:])))


def dynamic(i):
    k, v = cp[i]
    a, b = v.split(":")
    n, d = nat(int(b[1:]))
    h, args = bsm[int(a[1:])]
    return "%s:%s bsm=%s args=[%s]" % (n, d, handle(h), ", ".join(konst(x) for x in args))


def fbits(text, double):
    t = text.rstrip("fd")
    if t == "NaN":
        return None
    x = float(t.replace("Infinity", "inf"))
    if double:
        return struct.unpack(">Q", struct.pack(">d", x))[0]
    return struct.unpack(">I", struct.pack(">f", x))[0]


def konst(i):
    k, v = cp[i]
    if k == "Integer":
        return "int %d" % int(v)
    if k == "Long":
        return "long %d" % int(v.rstrip("l"))
    if k == "Float":
        b = fbits(v, False)
        return "float NaN" if b is None else "float 0x%08x" % b
    if k == "Double":
        b = fbits(v, True)
        return "double NaN" if b is None else "double 0x%016x" % b
    if k == "String":
        return "String %s" % utf8(ref1(i))
    if k == "Class":
        return "class %s" % cls(i)
    if k == "MethodType":
        return "MethodType %s" % utf8(ref1(i))
    if k == "MethodHandle":
        return "MethodHandle %s" % handle(i)
    if k == "Dynamic":
        return "Dynamic %s" % dynamic(i)
    raise Exception("not loadable: %r" % (cp[i],))


# BootstrapMethods section
i = 0
while i < len(lines):
    if lines[i].startswith("BootstrapMethods:"):
        i += 1
        cur = None
        while i < len(lines):
            m = re.match(r"^\s+(\d+): #(\d+) ", lines[i])
            a = re.match(r"^\s+#(\d+)(\s|$)", lines[i])
            if m:
                cur = int(m.group(1))
                bsm[cur] = (int(m.group(2)), [])
            elif a and cur is not None:
                bsm[cur][1].append(int(a.group(1)))
            elif lines[i].strip() == "Method arguments:":
                pass
            else:
                break
            i += 1
    else:
        i += 1

out = []
hdr = {}
for ln in lines:
    m = re.match(r"^\s+(minor|major) version: (\d+)", ln)
    if m:
        hdr[m.group(1)] = int(m.group(2))
    m = re.match(r"^\s+flags: \((0x[0-9a-f]+)\)", ln)
    if m and "flags" not in hdr:
        hdr["flags"] = m.group(1)
    m = re.match(r"^\s+(this_class|super_class): #(\d+)", ln)
    if m:
        hdr[m.group(1)] = int(m.group(2))
    if ln.startswith("{"):
        break
this_name = cls(hdr["this_class"])
out.append("class %s version %d.%d flags %s" % (this_name, hdr["major"], hdr["minor"], hdr["flags"]))
if hdr.get("super_class"):
    out.append("super %s" % cls(hdr["super_class"]))

# locate sections
try:
    body_start = next(i for i, l in enumerate(lines) if l.startswith("{") or l == "{")
    body_end = max(i for i, l in enumerate(lines) if l.startswith("}"))
except (StopIteration, ValueError):
    body_start, body_end = len(lines), len(lines)
tail = lines[body_end + 1:] if body_end < len(lines) else []
if body_start == len(lines):
    # module-info and similar: no member block
    first_cp = max(i for i, l in enumerate(lines) if re.match(r"^\s*#\d+ = ", l))
    tail = lines[first_cp + 1:]

for ln in tail:
    m = re.match(r'^\s*SourceFile: "(.*)"', ln)
    if m:
        out.insert(2 if hdr.get("super_class") else 1, "source %s" % norm(m.group(1)))
for ln in tail:
    m = re.match(r"^Signature: #(\d+)", ln)
    if m:
        out.append("signature %s" % utf8(int(m.group(1))))


def simple_type(t):
    t = t.strip()
    if t.startswith("class "):
        return "class %s" % norm(t[6:].strip().strip('"'))
    if t.startswith("uninitialized "):
        return ("uninit", int(t.split()[1]))
    return {"int": "int", "float": "float", "long": "long", "double": "double", "null": "null", "top": "top",
            "this": "this", "uninitialized_this": "this"}[t]


def parse_member(block):
    """block: list of lines of one member (declaration line first)."""
    decl = block[0].strip()
    desc = flags = None
    for l in block[1:]:
        m = re.match(r"^\s+descriptor: (.*)$", l)
        if m and desc is None:
            desc = norm(m.group(1))
        m = re.match(r"^\s+flags: \((0x[0-9a-f]+)\)", l)
        if m and flags is None:
            flags = m.group(1)
    is_method = desc.startswith("(")
    if decl.endswith("{};"):
        name = "<clinit>"
    elif is_method:
        before = decl.split("(")[0]
        name = before.split()[-1]
        if name.replace(".", "/") == this_name:
            name = "<init>"
    else:
        name = decl.rstrip(";").split()[-1]
    head = ["%s %s %s flags %s" % ("method" if is_method else "field", norm(name), desc, flags)]
    res = []   # const / signature / throws, ordered below
    code_res = []
    i = 1
    code_lines = None
    while i < len(block):
        l = block[i]
        s = l.strip()
        if not is_method:
            m = re.match(r"^ConstantValue: (\w+) (.*)$", s)
            if m:
                k, v = m.group(1), m.group(2)
                if k in ("int", "short", "byte", "char", "boolean"):
                    if v in ("true", "false"):
                        v = "1" if v == "true" else "0"
                    res.append("  const int %d" % int(v))
                elif k == "long":
                    res.append("  const long %d" % int(v.rstrip("l")))
                elif k == "float":
                    b = fbits(v, False)
                    res.append("  const float NaN" if b is None else "  const float 0x%08x" % b)
                elif k == "double":
                    b = fbits(v, True)
                    res.append("  const double NaN" if b is None else "  const double 0x%016x" % b)
                elif k == "String":
                    res.append("  const String %s" % norm(v))
        m = re.match(r"^Signature: #(\d+)", s)
        if m and l.startswith("    Signature"):
            res.append("  signature %s" % utf8(int(m.group(1))))
        if s == "Exceptions:" and l.startswith("    Exceptions"):
            t = block[i + 1].strip()
            names = [x.strip().replace(".", "/") for x in t[7:].split(",")] if t.startswith("throws ") else []
            res.append("  throws %s" % " ".join(norm(n) for n in names))
        if s == "Code:" and l.startswith("    Code"):
            j = i + 1
            while j < len(block) and (block[j].startswith("      ") or block[j].strip() == ""):
                j += 1
            code_lines = block[i + 1:j]
            code_res = parse_code(code_lines)
            i = j
            continue
        i += 1
    order = {"const": 0, "signature": 1, "throws": 2}
    res.sort(key=lambda l: order[l.split()[0]])
    return head + res + code_res


def parse_code(cl):
    res = []
    m = re.match(r"^\s+stack=(\d+), locals=(\d+)", cl[0])
    res.append("  code stack=%s locals=%s" % (m.group(1), m.group(2)))
    insns = []  # (offset, mnemonic, operand text, extra lines)
    i = 1
    while i < len(cl):
        m = re.match(r"^\s+(\d+): (\w+)\s*(.*)$", cl[i])
        if not m:
            break
        off, mn, rest = int(m.group(1)), m.group(2), m.group(3)
        extra = []
        if mn in ("tableswitch", "lookupswitch"):
            i += 1
            while not cl[i].strip().startswith("}"):
                extra.append(cl[i].strip())
                i += 1
        insns.append((off, mn, rest, extra))
        i += 1
    rest_lines = cl[i:]
    idx = {o: k for k, (o, _, _, _) in enumerate(insns)}
    n = len(insns)

    def at(o):
        o = int(o)
        if o in idx:
            return idx[o]
        assert o > insns[-1][0], "offset %d not an instruction" % o
        return n

    for k, (off, mn, rest, extra) in enumerate(insns):
        arg = rest.split("//")[0].strip()
        m = re.match(r"^([ilfda])(load|store)_(\d)$", mn)
        if m:
            text = "%s%s %s" % (m.group(1), m.group(2), m.group(3))
        elif re.match(r"^[ilfda](load|store)(_w)?$", mn) or mn in ("ret", "ret_w"):
            text = "%s %s" % (mn.replace("_w", ""), arg)
        elif mn in ("iinc", "iinc_w"):
            a, b = [x.strip() for x in arg.split(",")]
            text = "iinc %s %s" % (a, b)
        elif mn in ("bipush", "sipush"):
            text = "%s %s" % (mn, arg)
        elif mn in ("ldc", "ldc_w", "ldc2_w"):
            text = "%s %s" % ("ldc2_w" if mn == "ldc2_w" else "ldc", konst(int(arg[1:])))
        elif mn.startswith("if") or mn in ("goto", "goto_w", "jsr", "jsr_w"):
            text = "%s @%d" % (mn.replace("_w", ""), at(arg))
        elif mn == "tableswitch":
            lo = int(re.search(r"// (-?\d+) to", rest).group(1))
            targets, default = [], None
            for e in extra:
                a, b = [x.strip() for x in e.split(":")]
                if a == "default":
                    default = at(b)
                else:
                    targets.append(at(b))
            text = "tableswitch low=%d default=@%d%s" % (lo, default, "".join(" @%d" % t for t in targets))
        elif mn == "lookupswitch":
            pairs, default = [], None
            for e in extra:
                a, b = [x.strip() for x in e.split(":")]
                if a == "default":
                    default = at(b)
                else:
                    pairs.append((int(a), at(b)))
            text = "lookupswitch default=@%d%s" % (default, "".join(" %d=@%d" % p for p in pairs))
        elif mn in ("getstatic", "putstatic", "getfield", "putfield", "invokevirtual", "invokespecial", "invokestatic"):
            text = "%s %s" % (mn, member(int(arg[1:])))
        elif mn == "invokeinterface":
            text = "%s %s" % (mn, member(int(arg.split(",")[0][1:])))
        elif mn == "invokedynamic":
            text = "%s %s" % (mn, dynamic(int(arg.split(",")[0][1:])))
        elif mn in ("new", "anewarray", "checkcast", "instanceof"):
            text = "%s class %s" % (mn, cls(int(arg[1:])))
        elif mn == "multianewarray":
            a, b = [x.strip() for x in arg.split(",")]
            text = "%s class %s %s" % (mn, cls(int(a[1:])), b)
        elif mn == "newarray":
            text = "newarray %s" % arg
        else:
            assert arg == "", (mn, arg)
            text = mn
        res.append("    %d: %s" % (k, text))

    i = 0
    frames = []
    tannos = []
    while i < len(rest_lines):
        s = rest_lines[i].strip()
        if s == "Exception table:":
            i += 2
            while i < len(rest_lines):
                m = re.match(r"^\s+(\d+)\s+(\d+)\s+(\d+)\s+(any|Class (.*))$", rest_lines[i])
                if not m:
                    break
                t = "any" if m.group(4) == "any" else "class %s" % norm(m.group(5).strip().strip('"'))
                res.append("  try %d %d %d %s" % (at(m.group(1)), at(m.group(2)), at(m.group(3)), t))
                i += 1
            continue
        if s == "LineNumberTable:":
            i += 1
            while i < len(rest_lines):
                m = re.match(r"^\s+line (\d+): (\d+)$", rest_lines[i])
                if not m:
                    break
                res.append("  line %s %d" % (m.group(1), at(m.group(2))))
                i += 1
            continue
        if s in ("LocalVariableTable:", "LocalVariableTypeTable:"):
            kind = "local" if s == "LocalVariableTable:" else "localtype"
            i += 2
            while i < len(rest_lines):
                m = re.match(r"^\s+(\d+)\s+(\d+)\s+(\d+)\s+(\S+)\s+(\S+)$", rest_lines[i])
                if not m:
                    break
                st, ln_ = int(m.group(1)), int(m.group(2))
                res.append("  %s %d %d %s %s %s" % (kind, at(st), at(st + ln_), m.group(3), norm(m.group(4)), norm(m.group(5))))
                i += 1
            continue
        m = re.match(r"^\d+: #(\d+)\(.*\): ([A-Z_]+)(.*)$", s)
        if m and rest_lines[i].startswith("        "):
            kind, det = m.group(2), m.group(3)
            loc = re.search(r"location=\[(.*)\]", det)
            path = loc.group(1).replace(" ", "") if loc else ""
            det = re.sub(r",?\s*location=\[.*\]", "", det)
            d = ""
            rng = re.findall(r"\{start_pc=(\d+), length=(\d+), index=(\d+)\}", det)
            if kind in ("LOCAL_VARIABLE", "RESOURCE_VARIABLE"):
                d = "ranges=[%s]" % ",".join("%d-%d@%s" % (at(a), at(int(a) + int(b)), c) for a, b, c in rng)
            elif kind == "EXCEPTION_PARAMETER":
                d = "exc=%s" % re.search(r"exception_index=(\d+)", det).group(1)
            else:
                o = re.search(r"offset=(\d+)", det)
                d = "at=%d" % at(o.group(1))
                ti = re.search(r"type_index=(\d+)", det)
                if ti:
                    d += " index=%s" % ti.group(1)
            tannos.append("  tanno %s %s path=[%s] type=%s" % (kind, d, path, utf8(int(m.group(1)))))
            i += 1
            continue
        if s.startswith("StackMapTable:"):
            i += 1
            prev = None
            while i < len(rest_lines):
                m = re.match(r"^\s+frame_type = (\d+)", rest_lines[i])
                if not m:
                    break
                ft = int(m.group(1))
                i += 1
                delta, locs, stk = None, [], []
                while i < len(rest_lines) and not re.match(r"^\s+frame_type = ", rest_lines[i]):
                    t = rest_lines[i].strip()
                    m2 = re.match(r"^offset_delta = (\d+)$", t)
                    m3 = re.match(r"^(locals|stack) = \[(.*)\]$", t)
                    if m2:
                        delta = int(m2.group(1))
                    elif m3:
                        items = [simple_type(x) for x in m3.group(2).split(",") if x.strip()]
                        if m3.group(1) == "locals":
                            locs = items
                        else:
                            stk = items
                    else:
                        break
                    i += 1
                if ft <= 63:
                    delta = ft
                elif ft <= 127:
                    delta = ft - 64
                off = delta if prev is None else prev + delta + 1
                prev = off

                def fmt(l):
                    return "[%s]" % ", ".join(("uninit@%d" % at(x[1])) if isinstance(x, tuple) else x for x in l)
                if ft <= 63 or ft == 251:
                    d = "same"
                elif ft <= 127 or ft == 247:
                    d = "same_locals_1 stack %s" % fmt(stk)
                elif 248 <= ft <= 250:
                    d = "chop %d" % (251 - ft)
                elif 252 <= ft <= 254:
                    d = "append locals %s" % fmt(locs)
                else:
                    d = "full locals %s stack %s" % (fmt(locs), fmt(stk))
                frames.append("  frame %d %s" % (at(off), d))
            continue
        i += 1
    res.extend(frames)
    res.extend(sorted(tannos))
    return res


# split member block
if body_start < len(lines):
    blocks = []
    cur = None
    for l in lines[body_start + 1:body_end]:
        if re.match(r"^  \S", l):
            cur = [l]
            blocks.append(cur)
        elif cur is not None:
            cur.append(l)
    for b in blocks:
        out.extend(parse_member(b))

tail_out = []
_real_out = out
out = tail_out
i = 0
while i < len(tail):
    s = tail[i]
    if s.startswith("InnerClasses:"):
        i += 1
        while i < len(tail) and tail[i].startswith("  "):
            t = tail[i].split("//")[0].strip().rstrip(";").strip()
            m = re.match(r"^(.*?)(?:#(\d+)= )?#(\d+)(?: of #(\d+))?$", t)
            if not m:
                i += 1
                continue
            nm = utf8(int(m.group(2))) if m.group(2) else "-"
            outer = cls(int(m.group(4))) if m.group(4) else "-"
            out.append("inner %s outer %s name %s" % (cls(int(m.group(3))), outer, nm))
            i += 1
        continue
    m = re.match(r"^EnclosingMethod: #(\d+)\.#(\d+)", s)
    if m:
        meth = "-"
        if int(m.group(2)) != 0:
            meth = "%s:%s" % nat(int(m.group(2)))
        out.append("enclosing %s %s" % (cls(int(m.group(1))), meth))
    m = re.match(r"^NestHost: class (.*)$", s)
    if m:
        out.append("nesthost %s" % norm(m.group(1)))
    for key, word in (("NestMembers:", "nestmember"), ("PermittedSubclasses:", "permitted")):
        if s.startswith(key):
            i += 1
            while i < len(tail) and tail[i].startswith("  "):
                out.append("%s %s" % (word, norm(tail[i].strip())))
                i += 1
            i -= 1
    i += 1

order = {"inner": 0, "enclosing": 1, "nesthost": 2, "nestmember": 3, "permitted": 4}
tail_out.sort(key=lambda l: order[l.split()[0]])
out = _real_out + tail_out
print("\n".join(out))
