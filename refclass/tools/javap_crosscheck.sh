#!/bin/sh
# Dev-time cross-check of the refclass parser against javap (JDK 17).
# usage: [MODE=insns] tools/javap_crosscheck.sh [DIR-or-FILES...]   (default: ../corpus/classes)
# MODE=insns compares only class/field/method headers, instructions and exception tables
# (for classes written by refclass-dump --gen, whose attribute order is shuffled).
# For every class file: refclass-dump listing vs. normalised `javap -v -p -c -l`.
# Lines javap_norm.py does not extract (interfaces, record components, inner
# class flags) are dropped from the refclass side before diffing.
set -u
here=$(cd "$(dirname "$0")/.." && pwd)
CARGO_NET_OFFLINE=true cargo build --quiet --manifest-path "$here/Cargo.toml" --bin refclass-dump || exit 2
dump="$here/target/debug/refclass-dump"
[ $# -eq 0 ] && set -- "$here/../corpus/classes"
fail=0; n=0
tmp=$(mktemp -d)
for f in $(find "$@" -name '*.class' | sort); do
  n=$((n+1))
  "$dump" "$f" | grep -v '^interface \|^component ' | sed -E 's/^(inner .*) flags 0x[0-9a-f]+$/\1/' > "$tmp/a" || { echo "DUMP FAILED $f"; fail=$((fail+1)); continue; }
  javap -J-Dfile.encoding=UTF-8 -J-Dstdout.encoding=UTF-8 -v -p -c -l "$f" 2>/dev/null | python3 "$here/tools/javap_norm.py" > "$tmp/b" 2>"$tmp/err" || { echo "NORM FAILED $f"; tail -3 "$tmp/err"; fail=$((fail+1)); continue; }
  if [ "${MODE:-full}" = "insns" ]; then
    # generated classes: attribute order / table splitting is arbitrary; compare code only
    for x in a b; do grep -E '^    [0-9]+: |^  try |^method |^field |^  code |^class ' "$tmp/$x" > "$tmp/$x.f"; mv "$tmp/$x.f" "$tmp/$x"; done
  fi
  if ! diff -u "$tmp/a" "$tmp/b" > "$tmp/d"; then
    echo "DIFF $f"; head -${DIFFLINES:-12} "$tmp/d"; fail=$((fail+1))
  fi
done
rm -rf "$tmp"
echo "javap cross-check: $n files, $fail disagreement(s)"
[ $fail -eq 0 ]
