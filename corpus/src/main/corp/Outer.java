package corp;

public class Outer {
    private int secret = 42;
    static int counter;
    static { counter = 7; System.setProperty("corp.outer", "loaded"); }
    { secret++; }

    public class Inner { int peek() { return secret; } }
    public static class StaticNested { int v = counter; }
    private static final class Hidden { }
    protected interface Callback { void call(int x); }

    public Object anon(final int k) {
        return new Callback() {
            int calls;
            @Override public void call(int x) { calls += x + k + secret; }
        };
    }
    public Object local() {
        class Local implements Callback {
            @Override public void call(int x) { secret = x; }
        }
        return new Local();
    }
    public static Runnable staticAnon() { return new Runnable() { public void run() { counter++; } }; }
    Hidden hidden() { return new Hidden(); }
}
