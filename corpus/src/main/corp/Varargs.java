package corp;

public abstract class Varargs {
    public static int sum(int... xs) { int s = 0; for (int x : xs) s += x; return s; }
    public static String fmt(String f, Object... args) { return String.format(f, args); }
    public abstract void abs(String... s);
    public native int nat(int[] a, long b);
    public strictfp double strict(double d) { return d * 2; }
    protected transient volatile int tv;
    public static void callers() { sum(); sum(1); sum(1, 2, 3); fmt("%s %d", "a", 1); }
    @SafeVarargs public final <T> java.util.List<T> listOf(T... ts) { return java.util.Arrays.asList(ts); }
}
