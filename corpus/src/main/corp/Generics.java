package corp;

import java.util.*;

public class Generics<K extends Comparable<? super K> & java.io.Serializable, V> extends AbstractMap<K, List<? extends V>> implements Comparable<Generics<K, V>> {
    private final Map<K, List<? extends V>> inner = new TreeMap<>();
    public Map.Entry<K, ? super V>[] entries;
    public <E extends Exception, R> R call(java.util.concurrent.Callable<R> c, Class<E> e) throws E { return null; }
    @Override public Set<Map.Entry<K, List<? extends V>>> entrySet() { return inner.entrySet(); }
    @Override public int compareTo(Generics<K, V> o) { return 0; }
    @Override public List<? extends V> put(K k, List<? extends V> v) { return inner.put(k, v); }

    public static class Node<T> implements Comparable<Node<T>> {
        T value; Node<? extends T> next;
        @Override public int compareTo(Node<T> o) { return 0; }
    }
    public class Inner<X> { X x; K k; Generics<K, V>.Inner<X> self; }
    static abstract class Base<T> { abstract T get(); abstract void set(T t); }
    static class Impl extends Base<String> {
        @Override String get() { return "x"; }
        @Override void set(String s) { }
    }
}
