package corp;

import java.util.*;
import corp.Marks.*;

@Vis("class") @Invis(n = 3)
@All(b = -128, c = '￿', d = Double.NaN, f = Float.POSITIVE_INFINITY, i = 7, j = -1L, s = 32767, z = false, str = "", e = Level.LOW,
     k = Map.Entry.class, nested = @Vis, ints = {1, 2, 3}, strs = {}, many = {}, ks = {})
@Deprecated
public class Annotated<@TU(1) T extends @TU(2) Object & @TI Comparable<@TU(3) T>> extends @TU(4) ArrayList<@TU(5) T> implements @TI Cloneable {
    @Vis @Invis public @TU(6) Map<@TU(7) String, @TI List<@TU(8) ? extends @TU(9) Number>> field;
    public @TU(10) int @TU(11) [] @TU(12) [] arr;
    @Deprecated public static final int OLD = 1;

    @Vis("ctor") public Annotated(@Vis("p0") int a, @Invis String b, long c) { }

    @All @Invis
    public <@TU(13) M extends @TU(14) Runnable> @TU(15) String method(@TU(16) Annotated<T> this, @Vis @TU(17) M m, final int plain, @Invis(n = 9) @TI Object o) throws @TU(18) Exception, @TI Error {
        @TU(19) List<@TU(20) String> local = new @TU(21) ArrayList<@TU(22) String>();
        Object x = (@TU(23) Comparable<?> & @TI Cloneable) null;
        if (o instanceof @TU(24) String) local.add((@TU(25) String) o);
        try (java.io.@TU(26) StringReader r = new java.io.StringReader("")) { r.read(); } catch (@TU(27) RuntimeException e) { throw e; }
        java.util.function.Supplier<List<String>> s = @TU(28) ArrayList<@TU(29) String>::new;
        java.util.function.Function<String, Integer> f = @TU(30) String::length;
        Collections.<@TU(31) String>emptyList();
        new <@TU(32) String>Annotated<T>(1, "", 2L).toString();
        return local.toString() + x + s + f;
    }
    public @TU(33) Outer.@TU(34) Inner nestedType;
}
