@Deprecated
package corp;
