package corp;

public class Switches {
    public static int strings(String s) {
        switch (s) {
            case "alpha": return 1;
            case "beta": return 2;
            case "Aa": case "BB": return 3; // same hashCode
            case "\0nulé€😀": return 4;
            default: return -1;
        }
    }
    public static int table(int i) {
        switch (i) {
            case 0: return 10; case 1: return 11; case 2: return 12; case 3: return 13; case 4: return 14;
            case 5: return 15; case 6: return 16; case 7: return 17; case 9: return 19; case 10: return 20;
            case 11: return 21; case 12: return 22; case 13: return 23; case 14: return 24; case 15: return 25;
            default: return 0;
        }
    }
    public static int lookup(int i) {
        switch (i) {
            case Integer.MIN_VALUE: return 1; case -1000: return 2; case -1: return 3; case 7: return 4;
            case 1000: return 5; case 100000: return 6; case Integer.MAX_VALUE: return 7;
        }
        return 0;
    }
    public static int tableNeg(int i) {
        int r = 0;
        switch (i) { case -2: r += 1; case -1: r += 2; case 0: r += 3; break; case 1: r = 9; }
        return r;
    }
    public static int padded(int i) { int a = i + 1; switch (a) { case 1: return 5; case 2: return 6; case 3: return 7; } return a; }
    public static int padded2(int i) { int a = i + 1; a++; switch (a) { case 1: return 5; case 2: return 6; case 3: return 7; } return a; }
    public static int padded3(int i) { int a = i + 1; a++; a *= 2; switch (a) { case 1: return 5; case 200: return 6; case 30000: return 7; } return a; }
}
