package corp;

public record Point<T extends Comparable<T>>(@Marks.Vis("x") int x, long y, T tag, double... rest) implements Comparable<Point<T>> {
    public static final Point<String> ORIGIN = new Point<>(0, 0L, "origin");

    public Point {
        if (x < 0) throw new IllegalArgumentException("x<0: " + x);
    }

    public double norm() { return Math.sqrt((double) x * x + (double) y * y); }

    @Override
    public int compareTo(Point<T> o) { return Double.compare(norm(), o.norm()); }
}
