package corp;
@FunctionalInterface
public interface Iface<T> extends java.util.function.Supplier<T>, java.io.Serializable { }
