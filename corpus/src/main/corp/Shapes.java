package corp;

public interface Shapes {
    int SIDES = 4;
    String NAME = "shapes";
    double area();
    default String describe() { return name() + ":" + area(); }
    static Shapes unit() { return () -> 1.0; }
    private String name() { return helper(); }
    private static String helper() { return "shape"; }
    default int sides(Object... extra) { return SIDES + extra.length; }
}
