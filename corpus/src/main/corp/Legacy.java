package corp;

import java.util.*;

/** Compiles with --release 8 as well. */
public class Legacy implements Comparable<Legacy> {
    private final List<String> items = new ArrayList<String>();
    static final String K = "k";
    public int compareTo(Legacy o) { return items.size() - o.items.size(); }
    public String join(String a, int b) { return a + b + K; }
    public Runnable r() { return new Runnable() { public void run() { items.add("x"); } }; }
    public Comparator<String> c() { return (x, y) -> x.compareTo(y); }
    public int sw(String s) { switch (s) { case "a": return 1; case "b": return 2; default: return 0; } }
    public int tcf(int[] a) { try { return a[0]; } catch (RuntimeException e) { return -1; } finally { items.clear(); } }
    class In { int v() { return items.size(); } }
    static int st(long l, double d) { return (int) (l + d); }
}
