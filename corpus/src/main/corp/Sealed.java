package corp;

public sealed interface Sealed permits Sealed.A, Sealed.B, Sealed.C {
    record A(int v) implements Sealed { }
    final class B implements Sealed { }
    non-sealed class C implements Sealed { }

    static String test(Object o) {
        if (o instanceof A a && a.v() > 0) return "A" + a.v();
        if (!(o instanceof B b)) return "other";
        return b.toString();
    }
}
