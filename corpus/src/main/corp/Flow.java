package corp;

import java.util.*;

public class Flow {
    public static int ternaries(int a, Object o, boolean b) {
        int x = a > 0 ? (b ? 1 : 2) : (o == null ? 3 : o != this_() ? 4 : 5);
        long y = b && a > 1 || !b && a < -1 ? 1L : 2L;
        return x + (int) y;
    }
    static Object this_() { return Flow.class; }
    public static String iter(List<String> l, Map<String, int[]> m) {
        StringBuilder sb = new StringBuilder();
        for (String s : l) { if (s == null) continue; sb.append(s); }
        for (Map.Entry<String, int[]> e : m.entrySet()) for (int i : e.getValue()) sb.append(i);
        Iterator<String> it = l.iterator();
        while (it.hasNext()) if (it.next().isEmpty()) it.remove();
        return sb.toString();
    }
    public static long fib(int n) { return n < 2 ? n : fib(n - 1) + fib(n - 2); }
    public Object newAndInit(boolean b) { return new ArrayList<Object>(b ? new ArrayList<>() : new LinkedList<>()); }
    public static void asserts(int x) { assert x > 0 : "x must be positive: " + x; }
    public static int patternSwitchLike(Object o) {
        if (o instanceof Integer i) return i;
        else if (o instanceof String s && !s.isEmpty()) return s.length();
        else if (o instanceof int[] arr) return arr.length;
        return 0;
    }
}
