package corp;

public class Arrays2 {
    public static Object all() {
        boolean[] z = new boolean[1]; byte[] b = new byte[2]; char[] c = new char[3]; short[] s = new short[4];
        int[] i = new int[5]; long[] j = new long[6]; float[] f = new float[7]; double[] d = new double[8];
        String[] str = new String[9]; int[][] ii = new int[2][3]; long[][][] jjj = new long[2][3][]; Object[][][] ooo = new Object[1][2][3];
        z[0] = true; b[0] = 1; c[0] = 'x'; s[0] = 2; i[0] = 3; j[0] = 4; f[0] = 5; d[0] = 6; str[0] = "s";
        int sum = (z[0] ? 1 : 0) + b[0] + c[0] + s[0] + i[0] + (int) j[0] + (int) f[0] + (int) d[0] + str[0].length() + ii.length + jjj[0].length + ooo.length;
        int[] init = {1, 2, 3, 1000, 100000};
        Object o = init.clone();
        if (o instanceof int[] && ((int[]) o).length == sum) return (Object[][]) (Object) ooo[0];
        return new Object[] { z, b, c, s, i, j, f, d };
    }
    public static int manyLocals(int a0, long a1, double a2) {
        int l0=0,l1=1,l2=2,l3=3,l4=4,l5=5,l6=6,l7=7,l8=8,l9=9; long w = a1; double x = a2; float y = 1f; Object z = null;
        return a0+l0+l1+l2+l3+l4+l5+l6+l7+l8+l9+(int)w+(int)x+(int)y+(z==null?0:1);
    }
}
