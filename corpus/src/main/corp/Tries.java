package corp;

import java.io.*;

public class Tries {
    public static int tcf(String s) {
        int r = 0;
        try {
            r = Integer.parseInt(s);
        } catch (NumberFormatException | NullPointerException e) {
            r = -1;
        } catch (RuntimeException e) {
            r = -2;
            throw e;
        } finally {
            r += 100;
            System.out.println(r);
        }
        return r;
    }
    public static String twr(String path) throws IOException {
        try (Reader a = new StringReader(path); BufferedReader b = new BufferedReader(a)) {
            return b.readLine();
        }
    }
    public static int nested(int[] a) {
        try {
            try { return a[0]; } finally { a[1]++; }
        } catch (ArrayIndexOutOfBoundsException e) {
            return -1;
        }
    }
    public synchronized void syncMethod() { }
    public int syncBlock(Object o) { synchronized (o) { return o.hashCode(); } }
    public static void loops(int n) {
        outer:
        for (int i = 0; i < n; i++) {
            int j = 0;
            while (true) { if (++j > i) continue outer; if (j == 7) break outer; }
        }
        do { n--; } while (n > 0);
    }
}
