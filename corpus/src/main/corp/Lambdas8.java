package corp;

import java.util.function.*;

/** Lambdas without Java 9+ features, for --release 8. */
public class Lambdas8 {
    int base;
    public Supplier<String> sup() { return () -> "s" + base; }
    public static Function<String, Integer> len() { return String::length; }
    public static Supplier<Object> ctor() { return Object::new; }
    public interface WithDefault { default int d() { return s() + 1; } static int s() { return 1; } }
}
