package corp;

public class Numbers {
    public static final long BIG = 0x7fff_ffff_ffff_ffffL;
    public static final long NEG = Long.MIN_VALUE;
    public static final double PI2 = 6.283185307179586;
    public static final double NAN = Double.NaN;
    public static final double NZERO = -0.0;
    public static final float FMAX = Float.MAX_VALUE;
    public static final float FNAN = Float.NaN;
    public static final int IMIN = Integer.MIN_VALUE;
    public static final short SH = -32768;
    public static final char CH = '￿';
    public static final byte BY = -128;
    public static final boolean BO = true;
    public static final String STR = "const \u0000 ߿ ࠀ ￿ 😀";
    public final int instanceConst = 99;

    public static double arith(int i, long l, float f, double d) {
        long a = l * 3 + (l >> 2) - (l >>> 3) ^ (l << 1) | (l & 0xff) % 7;
        int b = i * 3 + (i >> 2) - (i >>> 3) ^ (i << 1) | (i & 0xff) % 7 / 2;
        float c = f * 2f + f / 3f - f % 5f; c = -c;
        double e = d * 2.0 + d / 3.0 - d % 5.0; e = -e;
        i++; i += 200; i -= 100000;
        return a + b + c + e + (int) l + (long) f + (float) d + (double) i + (byte) i + (char) i + (short) i + (int) d + (long) d + (int) f + (float) l + (double) l + (double) f + (float) i;
    }
    public static int cmp(long a, long b, float c, float d, double e, double f) {
        int r = 0;
        if (a < b) r++; if (c < d) r++; if (c > d) r++; if (e < f) r++; if (e >= f) r++;
        return r + (a == b ? 1 : 0);
    }
    public static Object consts() {
        int i = -1 + 0 + 1 + 2 + 3 + 4 + 5; long l = 0L + 1L; float f = 0f + 1f + 2f; double d = 0.0 + 1.0;
        Object[] o = { i, l, f, d, 127, 128, 32767, 32768, 65536L, 3.0f, 4.0, null, "s", String.class, int.class, int[][].class };
        return o;
    }
}
