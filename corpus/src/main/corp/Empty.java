package corp;
public class Empty { }
