package corp;

public enum Color {
    RED(1), GREEN(2) { @Override int twist() { return -code; } }, BLUE(3);

    final int code;
    Color(int code) { this.code = code; }
    int twist() { return code; }

    public static String describe(Color c) {
        switch (c) {
            case RED: return "r";
            case GREEN: return "g";
            default: return "other";
        }
    }

    public static int arrow(Color c) {
        return switch (c) { case RED -> 10; case GREEN -> 20; case BLUE -> { int k = c.code; yield k * 30; } };
    }
}
