package corp;

import java.lang.annotation.*;

public class Marks {
    public enum Level { LOW, HIGH }

    @Retention(RetentionPolicy.RUNTIME)
    @Target({ElementType.TYPE, ElementType.FIELD, ElementType.METHOD, ElementType.PARAMETER, ElementType.CONSTRUCTOR, ElementType.LOCAL_VARIABLE, ElementType.RECORD_COMPONENT})
    public @interface Vis { String value() default "dflt"; }

    @Retention(RetentionPolicy.CLASS)
    public @interface Invis { int n() default 1; }

    @Retention(RetentionPolicy.RUNTIME)
    public @interface All {
        byte b() default 1; char c() default 'c'; double d() default 2.5; float f() default -0.0f; int i() default Integer.MIN_VALUE;
        long j() default Long.MAX_VALUE; short s() default -3; boolean z() default true; String str() default "\0 é 😀";
        Level e() default Level.HIGH; Class<?> k() default void.class; Vis nested() default @Vis("in");
        int[] ints() default {}; String[] strs() default {"a", "b"}; Vis[] many() default {@Vis, @Vis("2")}; Class<?>[] ks() default {int[].class, String.class};
    }

    @Retention(RetentionPolicy.RUNTIME)
    @Target({ElementType.TYPE_USE, ElementType.TYPE_PARAMETER})
    public @interface TU { int value() default 0; }

    @Retention(RetentionPolicy.CLASS)
    @Target({ElementType.TYPE_USE})
    public @interface TI { }
}
