package corp;

import java.util.*;
import java.util.function.*;

public class Lambdas {
    private int base = 3;
    public Supplier<String> sup() { return () -> "s" + base; }
    public static Function<String, Integer> len() { return String::length; }
    public Function<Integer, Integer> adder(int k) { return x -> x + k + base; }
    public static Supplier<List<String>> ctor() { return ArrayList::new; }
    public static IntFunction<int[]> arr() { return int[]::new; }
    public BiFunction<Lambdas, Integer, Integer> unbound() { return Lambdas::plus; }
    int plus(int x) { return x + base; }
    public Runnable nested() { return () -> { Runnable r = () -> System.out.println(this.base); r.run(); }; }
    public static <T extends Comparable<T>> Comparator<T> cmp() { return (Comparator<T> & java.io.Serializable) (a, b) -> a.compareTo(b); }
    public static String concat(String a, int b, long c, double d, char e, Object f) { return a + b + "|" + c + d + e + f + "\u0001\u0002"; }
}
