/** A module descriptor. */
@Deprecated
module corp.modded {
    requires java.base;
    requires transitive java.logging;
    requires static java.sql;
    exports corp.modded;
    exports corp.modded.internal to java.logging, java.sql;
    opens corp.modded.internal;
    uses java.util.function.Supplier;
    provides java.lang.Runnable with corp.modded.Main, corp.modded.internal.Impl;
}
