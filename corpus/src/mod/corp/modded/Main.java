package corp.modded;
public class Main implements Runnable { public void run() { } public static void main(String[] a) { new Main().run(); } }
