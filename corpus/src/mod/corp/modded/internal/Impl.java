package corp.modded.internal;
public class Impl implements Runnable { public void run() { } }
