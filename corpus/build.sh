#!/bin/sh
# Rebuilds /verif/corpus/classes from /verif/corpus/src with JDK 17 javac.
# Only needed when sources change; the .class files are committed.
set -e
cd "$(dirname "$0")"
rm -rf classes
ALL=$(ls src/main/corp/*.java)
LEGACY="src/main/corp/Legacy.java src/main/corp/Empty.java src/main/corp/Numbers.java src/main/corp/Tries.java src/main/corp/Generics.java src/main/corp/Outer.java src/main/corp/Lambdas8.java"
V11="$LEGACY src/main/corp/Lambdas.java src/main/corp/Shapes.java src/main/corp/Switches.java src/main/corp/Arrays2.java src/main/corp/Varargs.java"
# 1. Java 17, debug info, parameter names
javac -encoding UTF-8 -g -parameters -d classes/j17g $ALL
# 2. Java 17, no debug info
javac -encoding UTF-8 -g:none -d classes/j17 $ALL
# 3. --release 8 subset (no indy string concat, no nestmates), with -g
javac -encoding UTF-8 --release 8 -g -parameters -d classes/j8g $LEGACY 2>/dev/null
# 4. --release 11 subset, default debug (lines + source only)
javac -encoding UTF-8 --release 11 -d classes/j11 $V11
# 5. module
javac -encoding UTF-8 -g -d classes/mod --module-version 1.2.3 src/mod/module-info.java src/mod/corp/modded/Main.java src/mod/corp/modded/internal/Impl.java
jar --create --file /tmp/corp-mod.jar --main-class corp.modded.Main -C classes/mod . && (cd classes/mod && unzip -qo /tmp/corp-mod.jar module-info.class) && rm -f /tmp/corp-mod.jar
find classes -name '*.class' | wc -l
