//! C12 - Enigma files and directories round-trip the mappings they can express.

use crate::bridge::{from_quill, to_quill, Ns};
use crate::c03::{first_text_diff, shrink_mapset};
use crate::engine::*;
use crate::refmap::*;
use crate::rng::{Digest, Rng};
use crate::simdir::SimDir;
use crate::simio::*;
use quill::tree::mappings::Mappings;
use quill::tree::names::Namespaces;
use serde::{Deserialize, Serialize};
use serde_json::json;
use std::collections::BTreeMap;

pub struct C12;

#[derive(Clone, Serialize, Deserialize, PartialEq)]
#[serde(tag = "kind", rename_all = "snake_case")]
pub enum DirFault {
    /// crash during `enigma_dir::write`: only the first `files` files exist, the last one cut at `at` bytes
    Crash { files: usize, at: u64 },
    Truncate { file: usize, at: u64 },
    Flip { file: usize, off: u64, bit: u8 },
    Delete { file: usize },
    /// a file that is not a mapping file appears in the tree
    Stray,
    /// the package directory that holds file `file` cannot be listed (it lies deeper than PATH_MAX): the walk meets an
    /// error in the middle of the tree (missed seeded change C12-13: errors of the walk dropped)
    Unlistable { file: usize },
}

#[derive(Clone, Serialize, Deserialize)]
pub struct DirPlan {
    /// the target directory already holds an earlier, longer version of the same files (a re-write)
    #[serde(default)]
    pub rewrite: bool,
    /// order in which the files are (re-)created in the directory that is read (0 = as written)
    pub create_order: u64,
    pub fault: Option<DirFault>,
    /// non-zero: some files of the directory that is read are symbolic links to regular files kept elsewhere (which
    /// ones is drawn from this seed)
    #[serde(default)]
    pub links: u64,
    /// how the directories handed to `enigma_dir::write` / `read` are named and reached (SimDir::styled_dir; 0 = plain)
    #[serde(default)]
    pub dir_style: u8,
    /// everything lives below a directory whose name is not valid UTF-8
    #[serde(default)]
    pub raw_root: bool,
}

#[derive(Clone, Serialize, Deserialize)]
pub struct Plan {
    pub m: MapSet,
    pub order_a: u64,
    pub order_b: u64,
    pub write_io: IoPlan,
    pub read_io: IoPlan,
    pub dir: Option<DirPlan>,
}

type Q = Mappings<2, Ns>;

fn q_of(m: &MapSet, ord: u64) -> Q {
    let mut r = if ord == 0 { None } else { Some(Rng::new(ord)) };
    to_quill::<2>(m, r.as_mut()).expect("model value admissible for quill")
}
fn empty_q(m: &MapSet) -> Q {
    Mappings::from_namespaces([m.ns[0].as_str(), m.ns[1].as_str()]).expect("namespaces")
}
fn read_real(r: impl std::io::Read, m: &MapSet) -> anyhow::Result<MapSet> {
    let mut q = empty_q(m);
    quill::enigma_file::read_into(r, &mut q)?;
    Ok(from_quill(&q).expect("projects"))
}
fn read_dir_real(p: &std::path::Path, m: &MapSet) -> anyhow::Result<MapSet> {
    let ns: Namespaces<2, Ns> = Namespaces::try_from([m.ns[0].clone(), m.ns[1].clone()])?;
    let q = quill::enigma_dir::read(p, ns)?;
    Ok(from_quill(&q).expect("projects"))
}
/// reference reading of a directory tree: every `*.mapping` file, any order (the union is order independent;
/// only *which* error is reported could depend on it)
fn read_tree_ref(tree: &[(String, Vec<u8>)], m: &MapSet) -> Result<MapSet, String> {
    let mut out = MapSet { ns: m.ns.clone(), doc: None, classes: BTreeMap::new() };
    for (name, bytes) in tree {
        if name.ends_with(".mapping") {
            read_enigma_into(bytes, &mut out).map_err(|e| format!("{name}: {e}"))?;
        }
    }
    Ok(out)
}
fn is_prefix(a: &[u8], b: &[u8]) -> bool {
    a.len() <= b.len() && &b[..a.len()] == a
}

/// Enigma cannot carry two roots under one file name; such sets are outside what the format can express.
fn make_admissible(m: &mut MapSet) {
    loop {
        let roots = enigma_roots(m);
        let mut seen = std::collections::BTreeSet::new();
        let mut drop = None;
        for (file, key) in &roots {
            if !seen.insert(file.clone()) {
                drop = Some(key.clone());
                break;
            }
        }
        match drop {
            Some(k) => {
                // remove the class and everything nested below it
                let pre = format!("{k}$");
                m.classes.retain(|c, _| c != &k && !c.starts_with(&pre));
            }
            None => break,
        }
    }
}

impl Engine for C12 {
    type Plan = Plan;
    fn id(&self) -> &'static str {
        "C12"
    }
    fn runs(&self, tier: Tier) -> u64 {
        match tier {
            Tier::Quick => 60_000,
            Tier::Thorough => 1_500_000,
        }
    }
    fn gen(&self, rng: &mut Rng, _tier: Tier, _run: u64) -> Plan {
        let mut w = rng.split("workload");
        let mut s = rng.split("schedule");
        let mut f = rng.split("faults");
        let size = w.below(10);
        let cfg = GenCfg {
            nns: 2,
            max_classes: match size {
                0 => 0,
                1..=6 => 4,
                _ => 12,
            },
            max_members: 3,
            unicode: w.chance(40),
            comments: w.chance(75),
            missing: w.chance(70),
            inner: w.chance(80),
            enigma: true,
            big: false,
        };
        let mut m = gen_mapset(&mut w, &cfg);
        make_admissible(&mut m);
        let text_len: u64 = write_enigma_files(&m).iter().map(|(f, t)| t.len() as u64 + f.len() as u64 + 5).sum();
        let nfiles = enigma_roots(&m).len();
        let mut p = Plan { m, order_a: if w.chance(30) { 0 } else { w.next() | 1 }, order_b: w.next() | 1, write_io: IoPlan::plain(), read_io: IoPlan::plain(), dir: None };
        let mode = s.below(10);
        if mode >= 3 {
            p.write_io = IoPlan::gen_legal(&mut s);
        }
        if mode >= 2 && mode != 3 {
            p.read_io = IoPlan::gen_legal(&mut s);
        }
        if s.chance(35) {
            p.dir = Some(DirPlan { rewrite: s.chance(30), create_order: if s.chance(25) { 0 } else { s.next() | 1 }, fault: None, links: 0, dir_style: if s.chance(40) { 1 + s.below(7) as u8 } else { 0 }, raw_root: false });
            if let Some(d) = p.dir.as_mut() {
                d.raw_root = rng.split("raw-root").chance(12);
            }
            let mut l = rng.split("links");
            if l.chance(20) {
                if let Some(d) = p.dir.as_mut() {
                    d.links = l.next() | 1;
                }
            }
        }
        if f.chance(55) {
            match f.below(3) {
                0 => p.write_io.faults.push(match f.below(3) {
                    0 => Fault::Enospc { after_bytes: f.below(text_len + 1) },
                    1 => Fault::WriteEio { at_call: f.below(40) as u32, sticky: f.chance(70) },
                    _ => Fault::WriteZero { at_call: f.below(40) as u32 },
                }),
                1 => p.read_io.faults.push(match f.below(5) {
                    0 | 1 => Fault::Eof { at: f.below(text_len + 1) },
                    2 => Fault::Flip { off: f.below(text_len.max(1)), bit: f.below(8) as u8 },
                    3 => Fault::Eio { at_call: f.below(5) as u32, sticky: f.chance(50) },
                    _ => Fault::EioAtOffset { off: f.below(text_len + 1) },
                }),
                _ => {
                    let d = p.dir.get_or_insert(DirPlan { rewrite: false, create_order: f.next() | 1, fault: None, links: 0, dir_style: 0, raw_root: false });
                    let file = f.usize(nfiles.max(1));
                    d.fault = Some(match f.below(6) {
                        0 | 1 => DirFault::Crash { files: f.range(1, nfiles.max(1) as u64) as usize, at: f.below(400) },
                        2 => DirFault::Truncate { file, at: f.below(400) },
                        3 => DirFault::Flip { file, off: f.below(400), bit: f.below(8) as u8 },
                        4 => DirFault::Delete { file },
                        _ if f.chance(50) => DirFault::Unlistable { file },
                        _ => DirFault::Stray,
                    });
                }
            }
        }
        p
    }

    fn exec(&self, p: &Plan, st: &mut RunStats) -> Vec<Violation> {
        let mut out = vec![];
        let mut obs = Digest::new();
        let m = &p.m;
        st.shape = m.shape();
        st.tier("T0");
        let qa = q_of(m, p.order_a);
        let roots = enigma_roots(m);
        if m.classes.keys().any(|k| inner_split(k).is_some_and(|(o, _)| !m.classes.contains_key(o))) {
            st.probe("orphan_inner_class");
        }
        if m.classes.keys().any(|k| k.matches('$').count() >= 2) {
            st.probe("nesting_depth_2plus");
        }

        // ---------------- T0 single stream
        let mut t0 = Vec::new();
        match no_panic(|| quill::enigma_file::write_all(&qa, &mut t0)) {
            Err(pm) => {
                out.push(Violation::new("T0", "panic", format!("write_all:{}", panic_path(&pm)), pm));
                return out;
            }
            Ok(Err(e)) => {
                out.push(Violation::new("T0", "refused-wellformed", "write_all", format!("{e:#}")));
                return out;
            }
            Ok(Ok(())) => {}
        }
        obs.bytes(&t0);
        {
            let mut r = MapSet { ns: m.ns.clone(), ..Default::default() };
            match read_enigma_into(&t0, &mut r) {
                Ok(()) => {
                    if let Some((path, d)) = m.diff_path(&r) {
                        out.push(Violation::new("T0", "semantic-mismatch", format!("written-text.{path}"), d));
                    }
                }
                Err(e) => out.push(Violation::new("T0", "invalid-output", "written-text", e)),
            }
        }
        match no_panic(|| read_real(&t0[..], m)) {
            Err(pm) => out.push(Violation::new("T0", "panic", format!("read_into:{}", panic_path(&pm)), pm)),
            Ok(Err(e)) => out.push(Violation::new("T0", "refused-wellformed", "read(write(M))", format!("{e:#}"))),
            Ok(Ok(r)) => {
                if let Some((path, d)) = m.diff_path(&r) {
                    out.push(Violation::new("T0", "semantic-mismatch", format!("roundtrip.{path}"), d));
                }
            }
        }
        // insertion-order independence
        let qb = q_of(m, p.order_b);
        let mut tb = Vec::new();
        if let Ok(Ok(())) = no_panic(|| quill::enigma_file::write_all(&qb, &mut tb)) {
            if tb != t0 {
                out.push(Violation::new("T0", "nondeterministic-output", "insertion-order", first_text_diff(&t0, &tb)));
            }
        }
        // one text per root; their concatenation (with the headers write_all adds) is the single stream
        let mut per_file: Vec<(String, Vec<u8>)> = vec![];
        let mut concat = Vec::new();
        for (file, _key) in &roots {
            let mut t = Vec::new();
            match no_panic(|| quill::enigma_file::write_one(&qa, file, &mut t)) {
                Err(pm) => out.push(Violation::new("T0", "panic", format!("write_one:{}", panic_path(&pm)), pm)),
                Ok(Err(e)) => out.push(Violation::new("T0", "refused-wellformed", "write_one", format!("{file:?}: {e:#}"))),
                Ok(Ok(())) => {
                    concat.extend_from_slice(format!("#\n# {file}\n").as_bytes());
                    concat.extend_from_slice(&t);
                    per_file.push((file.clone(), t));
                }
            }
        }
        if out.is_empty() && concat != t0 {
            out.push(Violation::new("T0", "nondeterministic-output", "write_one-vs-write_all", first_text_diff(&t0, &concat)));
        }
        // the reference-written text (roots with full names, any nesting) reads back to the model
        let ref_text: Vec<u8> = write_enigma_files(m).into_iter().flat_map(|(_, t)| t.into_bytes()).collect();
        match no_panic(|| read_real(&ref_text[..], m)) {
            Err(pm) => out.push(Violation::new("T0", "panic", format!("read_into:{}", panic_path(&pm)), pm)),
            Ok(Err(e)) => out.push(Violation::new("T0", "refused-wellformed", "read(reference-text)", format!("{e:#}"))),
            Ok(Ok(r)) => {
                if let Some((path, d)) = m.diff_path(&r) {
                    out.push(Violation::new("T0", "semantic-mismatch", format!("read-reference-text.{path}"), d));
                }
            }
        }

        // ---------------- writer through the simulated sink (unbuffered writes)
        if !p.write_io.is_plain() {
            let legal = p.write_io.legal_only();
            let tier = if legal { "T1" } else { "T2" };
            st.tier(if legal { "T1" } else { "T2" });
            let mut sink = SimWriter::new(&p.write_io);
            let res = no_panic(|| quill::enigma_file::write_all(&qa, &mut sink));
            st.io(&sink.stats, sink.log);
            let acc = sink.accepted();
            obs.bytes(acc);
            match res {
                Err(pm) => out.push(Violation::new(tier, "panic", format!("write_all:{}", panic_path(&pm)), pm)),
                Ok(Ok(())) => {
                    if acc != &t0[..] {
                        out.push(Violation::new(tier, if legal { "schedule-dependence" } else { "writer-ok-with-incomplete-sink" }, "sink.len", format!("Ok(()) with {} of {} bytes (fired {:?})", acc.len(), t0.len(), sink.stats.fired)));
                    }
                }
                Ok(Err(e)) => {
                    if legal {
                        out.push(Violation::new("T1", "schedule-dependence", "write.result", format!("{e:#}")));
                    } else {
                        st.probe("write_err_under_fault");
                        if !is_prefix(acc, &t0) {
                            out.push(Violation::new("T2", "writer-err-with-nonprefix-sink", "sink", format!("{} bytes accepted, not a prefix", acc.len())));
                        }
                    }
                }
            }
        }

        // ---------------- reader through the simulated source
        if !p.read_io.is_plain() {
            let legal = p.read_io.legal_only();
            let tier = if legal { "T1" } else { "T2" };
            st.tier(if legal { "T1" } else { "T2" });
            let mut src = SimReader::new(&t0, &p.read_io);
            let res = no_panic(|| read_real(&mut src, m));
            st.io(&src.stats, src.log);
            if src.fuel_exhausted {
                out.push(Violation::new(tier, "runaway", "read", "fuel exhausted"));
            }
            match res {
                Err(pm) => out.push(Violation::new(tier, "panic", format!("read_into:{}", panic_path(&pm)), pm)),
                Ok(Ok(v)) => {
                    obs.u64(1);
                    if legal {
                        if let Some((path, d)) = m.diff_path(&v) {
                            out.push(Violation::new("T1", "schedule-dependence", format!("read.{path}"), d));
                        }
                    } else {
                        let mut r = MapSet { ns: m.ns.clone(), ..Default::default() };
                        match read_enigma_into(src.delivered(), &mut r) {
                            Ok(()) => {
                                st.probe("read_ok_on_damaged_medium_agrees");
                                if let Some((path, d)) = r.diff_path(&v) {
                                    out.push(Violation::new("T2", "reader-ok-with-wrong-data", format!("read.{path}"), d));
                                }
                            }
                            Err(e) if e.starts_with(UNDECODABLE) => out.push(Violation::new("T2", "reader-ok-on-undecodable-input", "read", format!("the delivered bytes are not UTF-8 text ({e}) but read_into returned Ok"))),
                            Err(_) => st.probe("lenient_accept"),
                        }
                    }
                }
                Ok(Err(e)) => {
                    obs.u64(2);
                    if legal {
                        out.push(Violation::new("T1", "schedule-dependence", "read.result", format!("{e:#}")));
                    } else {
                        st.probe("read_err_under_fault");
                    }
                }
            }
        }

        // ---------------- directory form
        if let Some(dp) = &p.dir {
            st.probe("dir_runs");
            let mut d = if dp.raw_root { SimDir::new_raw_root("c12") } else { SimDir::new("c12") };
            if dp.raw_root {
                st.probe("dir_below_non_utf8_path");
                st.nontrivial = true;
                st.sched.u64(0xE4);
            }
            // the target directory exists and is empty (an empty set creates no file, hence no directory); its name and
            // the path it is reached by are drawn (missed seeded change C12-11: a walk that skips "hidden" entries
            // also skips a root whose own name starts with a dot)
            let (w1_real, w1) = d.styled_dir("w1", dp.dir_style, ".mapping");
            let (r_real, rdir) = d.styled_dir("r", dp.dir_style, ".mapping");
            if dp.dir_style % 8 != 0 {
                st.probe("dir_name_or_path_unusual");
                st.sched.u64(dp.dir_style as u64);
                st.nontrivial = true;
            }
            if dp.rewrite {
                // an earlier write of a larger set left the same files behind, each longer than what is written now
                for (f, t) in &per_file {
                    let mut old = t.clone();
                    old.extend_from_slice(b"\tFIELD staleField staleName I\n\tMETHOD staleMethod ()V\n\t\tCOMMENT left over from the earlier write\n");
                    d.create(&format!("{w1_real}/{f}.mapping"), &old);
                }
                st.probe("dir_rewrite_over_longer_files");
                st.nontrivial = true;
            }
            match no_panic(|| quill::enigma_dir::write(&qa, &w1)) {
                Err(pm) => out.push(Violation::new("T0", "panic", format!("dir-write:{}", panic_path(&pm)), pm)),
                Ok(Err(e)) => out.push(Violation::new("T0", "refused-wellformed", "dir-write", format!("{e:#}"))),
                Ok(Ok(())) => {
                    let tree: Vec<(String, Vec<u8>)> = d.tree().into_iter().filter_map(|(n, b)| n.strip_prefix(&format!("{w1_real}/")).map(|n| (n.to_string(), b))).collect();
                    st.events += 2 * tree.len() as u64 + 2;
                    // one file per root, named after the target (or source) name, holding exactly that root's text
                    let mut want: Vec<(String, Vec<u8>)> = per_file.iter().map(|(f, t)| (format!("{f}.mapping"), t.clone())).collect();
                    want.sort();
                    if out.is_empty() && tree != want {
                        let names = |v: &Vec<(String, Vec<u8>)>| v.iter().map(|x| x.0.clone()).collect::<Vec<_>>();
                        if names(&tree) != names(&want) {
                            out.push(Violation::new("T0", "semantic-mismatch", "dir.files", format!("{:?} vs expected {:?}", names(&tree), names(&want))));
                        } else {
                            out.push(Violation::new("T0", "semantic-mismatch", "dir.file-content", "a file differs from write_one of its root"));
                        }
                    }
                    for (n, b) in &tree {
                        obs.str(n);
                        obs.bytes(b);
                    }
                    // second write (other insertion order) gives the identical tree
                    let w2 = d.join("w2");
                    if let Ok(Ok(())) = no_panic(|| quill::enigma_dir::write(&qb, &w2)) {
                        let tree2: Vec<(String, Vec<u8>)> = d.tree().into_iter().filter_map(|(n, b)| n.strip_prefix("w2/").map(|n| (n.to_string(), b))).collect();
                        if tree2 != tree {
                            out.push(Violation::new("T0", "nondeterministic-output", "dir.insertion-order", "two writes of one content give different trees"));
                        }
                    }
                    // third write: one of the files sits on a device without room (a symbolic link to /dev/full where
                    // the file will be created): a real ENOSPC from the kernel on the only write of that file. The
                    // directory writer must report it (missed seeded change C12-5: a buffered, never flushed file writer)
                    if !per_file.is_empty() && std::path::Path::new("/dev/full").exists() {
                        let victim = &per_file[(dp.create_order as usize) % per_file.len()].0;
                        let w3 = d.join("w3");
                        let link = w3.join(format!("{victim}.mapping"));
                        if let Some(parent) = link.parent() {
                            std::fs::create_dir_all(parent).expect("simdir");
                        }
                        if std::os::unix::fs::symlink("/dev/full", &link).is_ok() {
                            st.fired(&["dir_enospc_on_one_file"]);
                            st.tier("T2");
                            match no_panic(|| quill::enigma_dir::write(&qa, &w3)) {
                                Err(pm) => out.push(Violation::new("T2", "panic", format!("dir-write:{}", panic_path(&pm)), pm)),
                                Ok(Err(_)) => st.probe("dir_write_err_on_full_device"),
                                Ok(Ok(())) => out.push(Violation::new("T2", "writer-ok-with-incomplete-sink", "dir-write.full-device", format!("Ok although {victim}.mapping sits on a device that accepted no byte"))),
                            }
                            // nothing may ever read through the link (it yields zeros without end)
                            let _ = std::fs::remove_file(&link);
                        }
                    }
                    // fourth write: where one of the files is to be created there is a DIRECTORY of that name (an unpacked
                    // archive, a tool that made `Foo.mapping/`): creating the file fails (EISDIR) and the writer must say so
                    if !per_file.is_empty() && dp.create_order % 3 == 1 {
                        let victim = &per_file[(dp.create_order as usize / 3) % per_file.len()].0;
                        let w4 = d.join("w4");
                        if std::fs::create_dir_all(w4.join(format!("{victim}.mapping"))).is_ok() {
                            st.fired(&["dir_directory_in_the_way"]);
                            st.tier("T2");
                            match no_panic(|| quill::enigma_dir::write(&qa, &w4)) {
                                Err(pm) => out.push(Violation::new("T2", "panic", format!("dir-write:{}", panic_path(&pm)), pm)),
                                Ok(Err(_)) => st.probe("dir_write_err_on_directory_in_the_way"),
                                Ok(Ok(())) => out.push(Violation::new("T2", "writer-ok-with-incomplete-sink", "dir-write.directory-in-the-way", format!("Ok although {victim}.mapping is a directory and cannot have been written"))),
                            }
                        }
                    }
                    // read back what was written
                    match no_panic(|| read_dir_real(&w1, m)) {
                        Err(pm) => out.push(Violation::new("T0", "panic", format!("dir-read:{}", panic_path(&pm)), pm)),
                        Ok(Err(e)) => out.push(Violation::new("T0", "refused-wellformed", "dir-read(dir-write(M))", format!("{e:#}"))),
                        Ok(Ok(r)) => {
                            if let Some((path, det)) = m.diff_path(&r) {
                                out.push(Violation::new("T0", "semantic-mismatch", format!("dir-roundtrip.{path}"), det));
                            }
                        }
                    }
                    // re-create the tree in a drawn creation order (= listing order on tmpfs), with the fault applied
                    let mut files = tree.clone();
                    let mut healed = None;
                    let mut expect_equal = true;
                    let mut unlistable = false;
                    match &dp.fault {
                        None => {}
                        Some(DirFault::Crash { files: k, at }) => {
                            // `write` creates the files in sorted root order; the accepted prefix is the durable state
                            let mut order: Vec<(String, Vec<u8>)> = per_file.iter().map(|(f, t)| (format!("{f}.mapping"), t.clone())).collect();
                            let k = (*k).min(order.len());
                            order.truncate(k);
                            if let Some(last) = order.last_mut() {
                                let at = (*at as usize).min(last.1.len());
                                last.1.truncate(at);
                            }
                            healed = Some(files.clone());
                            files = order;
                            expect_equal = false;
                            st.fired(&["dir_crash"]);
                        }
                        Some(DirFault::Truncate { file, at }) => {
                            if let Some(x) = files.get_mut(*file) {
                                healed = Some(tree.clone());
                                let at = (*at as usize).min(x.1.len());
                                x.1.truncate(at);
                                expect_equal = false;
                                st.fired(&["dir_truncate"]);
                            }
                        }
                        Some(DirFault::Flip { file, off, bit }) => {
                            if let Some(x) = files.get_mut(*file) {
                                if !x.1.is_empty() {
                                    healed = Some(tree.clone());
                                    let o = (*off as usize) % x.1.len();
                                    x.1[o] ^= 1 << (bit & 7);
                                    expect_equal = false;
                                    st.fired(&["dir_flip"]);
                                }
                            }
                        }
                        Some(DirFault::Delete { file }) => {
                            if *file < files.len() {
                                healed = Some(tree.clone());
                                files.remove(*file);
                                expect_equal = false;
                                st.fired(&["dir_delete"]);
                            }
                        }
                        Some(DirFault::Unlistable { .. }) => {}
                        Some(DirFault::Stray) => {
                            files.push(("README.txt".into(), b"CLASS not a mapping file\n".to_vec()));
                            files.push(("sub/notes.mappings".into(), b"garbage\n".to_vec()));
                            st.fired(&["dir_stray"]);
                        }
                    }
                    let mut created = files.clone();
                    if dp.create_order != 0 {
                        Rng::new(dp.create_order).shuffle(&mut created);
                        st.nontrivial = true;
                        st.probe("dir_creation_order_drawn");
                    }
                    for (n, b) in &created {
                        if dp.links != 0 && (crate::rng::fnv(n.as_bytes()) ^ dp.links) % 3 == 0 {
                            d.create_link(&format!("{r_real}/{n}"), b);
                            st.probe("dir_file_is_a_symlink");
                            st.nontrivial = true;
                        } else if dp.links != 0 && healed.is_none() && (crate::rng::fnv(n.as_bytes()) ^ dp.links) % 3 == 1 {
                            // a pipe: metadata reports size 0, the data arrives anyway (read once: only where nothing is
                            // healed and read again) - missed seeded change C12-14 (a buffer sized by metadata().len())
                            if d.create_pipe_file(&format!("{r_real}/{n}"), b) {
                                st.probe("dir_file_is_a_pipe");
                                st.nontrivial = true;
                            }
                        } else {
                            d.create(&format!("{r_real}/{n}"), b);
                        }
                    }
                    st.events += 3 * created.len() as u64;
                    st.sched.u64(dp.create_order);
                    if let Some(DirFault::Unlistable { file }) = &dp.fault {
                        // bury the top-level package directory of one file (if it has one)
                        let with_dir: Vec<&String> = files.iter().map(|x| &x.0).filter(|n| n.contains('/')).collect();
                        if !with_dir.is_empty() {
                            let top = with_dir[*file % with_dir.len()].split('/').next().unwrap_or("").to_string();
                            if d.bury(&format!("{r_real}/{top}")) {
                                expect_equal = false;
                                unlistable = true;
                                st.fired(&["dir_unlistable"]);
                            }
                        }
                    }
                    let tier = if expect_equal { "T1" } else { "T2" };
                    st.tier(if expect_equal { "T1" } else { "T2" });
                    match no_panic(|| read_dir_real(&rdir, m)) {
                        Err(pm) => out.push(Violation::new(tier, "panic", format!("dir-read:{}", panic_path(&pm)), pm)),
                        Ok(Err(e)) => {
                            if expect_equal {
                                out.push(Violation::new("T1", "schedule-dependence", "dir-read.result", format!("{e:#}")));
                            } else {
                                st.probe("dir_read_err_under_fault");
                            }
                        }
                        Ok(Ok(r)) => {
                            if expect_equal {
                                if let Some((path, det)) = m.diff_path(&r) {
                                    out.push(Violation::new("T1", "schedule-dependence", format!("dir-read.{path}"), det));
                                }
                            } else if unlistable {
                                // every file is intact, one directory just cannot be listed by its path: an error, or all of it
                                if let Some((path, det)) = m.diff_path(&r) {
                                    out.push(Violation::new("T2", "reader-ok-with-wrong-data", format!("dir-read.unlistable.{path}"), format!("a package directory of the tree cannot be listed (path longer than PATH_MAX); the read returned Ok without its classes: {det}")));
                                }
                            } else {
                                match read_tree_ref(&files, m) {
                                    Ok(w) => {
                                        st.probe("dir_read_ok_on_damaged_tree_agrees");
                                        if let Some((path, det)) = w.diff_path(&r) {
                                            out.push(Violation::new("T2", "reader-ok-with-wrong-data", format!("dir-read.{path}"), det));
                                        }
                                    }
                                    Err(e) if e.contains(UNDECODABLE) => out.push(Violation::new("T2", "reader-ok-on-undecodable-input", "dir-read", format!("a mapping file is not UTF-8 text ({e}) but the directory read returned Ok"))),
                                    Err(_) => st.probe("lenient_accept"),
                                }
                            }
                        }
                    }
                    // heal and read again: no residue
                    if let Some(h) = healed {
                        for (n, _) in &files {
                            d.remove(&format!("{r_real}/{n}"));
                        }
                        for (n, b) in &h {
                            d.create(&format!("{r_real}/{n}"), b);
                        }
                        match no_panic(|| read_dir_real(&rdir, m)) {
                            Ok(Ok(r)) => {
                                if let Some((path, det)) = m.diff_path(&r) {
                                    if out.is_empty() {
                                        out.push(Violation::new("T2", "residue-after-heal", format!("dir-read.{path}"), det));
                                    }
                                }
                                st.probe("healed_and_reread");
                            }
                            Ok(Err(e)) => {
                                if out.is_empty() {
                                    out.push(Violation::new("T2", "residue-after-heal", "dir-read.result", format!("{e:#}")));
                                }
                            }
                            Err(pm) => out.push(Violation::new("T2", "panic", format!("dir-read:{}", panic_path(&pm)), pm)),
                        }
                    }
                }
            }
        }
        st.obs = obs;
        out
    }

    fn shrink(&self, p: &Plan) -> Vec<Plan> {
        let mut c = vec![];
        for io in shrink_io(&p.write_io) {
            let mut q = p.clone();
            q.write_io = io;
            c.push(q);
        }
        for io in shrink_io(&p.read_io) {
            let mut q = p.clone();
            q.read_io = io;
            c.push(q);
        }
        if let Some(d) = &p.dir {
            let mut q = p.clone();
            q.dir = None;
            c.push(q);
            if d.fault.is_some() {
                let mut q = p.clone();
                q.dir.as_mut().unwrap().fault = None;
                c.push(q);
            }
            if d.create_order != 0 {
                let mut q = p.clone();
                q.dir.as_mut().unwrap().create_order = 0;
                c.push(q);
            }
            if d.rewrite {
                let mut q = p.clone();
                q.dir.as_mut().unwrap().rewrite = false;
                c.push(q);
            }
            if d.dir_style != 0 {
                let mut q = p.clone();
                q.dir.as_mut().unwrap().dir_style = 0;
                c.push(q);
            }
            if d.raw_root {
                let mut q = p.clone();
                q.dir.as_mut().unwrap().raw_root = false;
                c.push(q);
            }
        }
        if p.order_a != 0 {
            let mut q = p.clone();
            q.order_a = 0;
            c.push(q);
        }
        for m in shrink_mapset(&p.m) {
            let mut q = p.clone();
            q.m = m;
            c.push(q);
        }
        c
    }
    fn size(&self, p: &Plan) -> (u64, u64) {
        (p.m.count() as u64, (p.write_io.faults.len() + p.read_io.faults.len()) as u64 + p.dir.as_ref().map_or(0, |d| d.fault.is_some() as u64))
    }
    fn rule(&self) -> String {
        "one run = one two-namespace set within the Enigma proviso (nested targets follow the nesting, constructors unnamed, parameters have a target name; orphan inner classes, classes without target, comments with blank lines / leading spaces / '#') x two insertion orders x single-stream writer and reader schedules x (35 %) the directory form on a tmpfs scratch directory: write twice, read, re-create in a drawn creation order, crash after k files with the last torn / truncate / flip / delete / stray file, heal and re-read. Non-trivial: a short transfer, EINTR, drawn creation order or fault occurred; distinct by (workload shape, event-log digest)".into()
    }
    fn assumptions(&self) -> Vec<String> {
        vec![
            "names contain no Java whitespace and no '#'; comments contain no TAB/CR and no trailing blanks per line (Enigma re-joins comment words with single blanks)".into(),
            "no two root classes share a file name (target name, or source name when there is no target): the format cannot carry that".into(),
            "before enigma_dir::write the target directory is empty or holds earlier versions of the same files (files of classes that no longer exist are outside the property: the CLI removes the directory first)".into(),
            "a directory read that succeeds on a damaged tree is compared with the reference reading of the bytes on disk; reference Err + real Ok is counted (lenient_accept), not flagged".into(),
        ]
    }
    fn real_and_stub(&self) -> serde_json::Value {
        json!({"real": ["quill::enigma_file::{write_all, write_one, read_into, read_file_into}", "quill::enigma_dir::{write, read}", "walkdir", "std::fs"], "stub": ["byte source/sink (SimReader/SimWriter)", "directory content, creation order, crash point and damage (SimDir on tmpfs)"], "reference": ["refmap::{read_enigma_into, write_enigma_files, enigma_roots}"]})
    }
    fn expected_probes(&self) -> Vec<&'static str> {
        vec!["dir_rewrite_over_longer_files", "orphan_inner_class", "nesting_depth_2plus", "dir_runs", "dir_creation_order_drawn", "dir_write_err_on_full_device", "dir_file_is_a_symlink", "dir_read_err_under_fault", "dir_read_ok_on_damaged_tree_agrees", "healed_and_reread", "write_err_under_fault", "read_err_under_fault", "io.eintr"]
    }
}
