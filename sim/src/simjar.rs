//! SimJar: a jar whose bytes are served through a `SimReader` (`impl dukebox::storage::Jar` with
//! `Opened = ZipArchive<TrackedReader>`). Jar bytes are assembled by the harness with the `zip` crate over a
//! plain buffer (trusted stub), with a fixed timestamp so that nothing depends on the wall clock.

use crate::rng::Digest;
use crate::simio::{IoPlan, IoStats, SimReader};
use anyhow::{anyhow, Context, Result};
use dukebox::storage::Jar;
use serde::{Deserialize, Serialize};
use std::io::{Cursor, Read, Seek, SeekFrom, Write};
use std::path::Path;
use std::sync::{Arc, Mutex};
use zip::write::FileOptions;
use zip::{CompressionMethod, DateTime, ZipArchive, ZipWriter};

#[derive(Clone, Debug, PartialEq, Eq, Serialize, Deserialize)]
#[serde(rename_all = "snake_case")]
pub enum EntryData {
    Dir,
    File(Vec<u8>),
}

/// Assembles a jar. `deflate`: compress the file entries (otherwise stored).
pub fn build_jar(entries: &[(String, EntryData)], deflate: bool) -> Vec<u8> {
    let mut w = ZipWriter::new(Cursor::new(Vec::new()));
    for (name, data) in entries {
        let opt = FileOptions::<()>::default()
            .last_modified_time(DateTime::default())
            .compression_method(if deflate { CompressionMethod::Deflated } else { CompressionMethod::Stored });
        match data {
            EntryData::Dir => w.add_directory(name.as_str(), opt).expect("zip: dir"),
            EntryData::File(b) => {
                w.start_file(name.as_str(), opt).expect("zip: file");
                w.write_all(b).expect("zip: write");
            }
        }
    }
    w.finish().expect("zip: finish").into_inner()
}

/// Re-opens jar bytes with the zip crate over a plain cursor: (name, data) in archive order.
pub fn open_entries(bytes: &[u8]) -> Result<Vec<(String, EntryData)>> {
    let mut z = ZipArchive::new(Cursor::new(bytes)).context("not a zip archive")?;
    let mut out = vec![];
    for i in 0..z.len() {
        let mut f = z.by_index(i).with_context(|| anyhow!("entry {i}"))?;
        let name = f.name().to_string();
        if f.is_dir() {
            out.push((name, EntryData::Dir));
        } else {
            let mut b = Vec::new();
            f.read_to_end(&mut b).with_context(|| anyhow!("entry {name:?}"))?;
            out.push((name, EntryData::File(b)));
        }
    }
    Ok(out)
}

#[derive(Default, Debug)]
pub struct JarAgg {
    pub opens: u64,
    pub stats: Vec<IoStats>,
    pub log: Digest,
    pub fuel_exhausted: bool,
}

pub struct TrackedReader {
    inner: SimReader,
    agg: Arc<Mutex<JarAgg>>,
}
impl Read for TrackedReader {
    fn read(&mut self, buf: &mut [u8]) -> std::io::Result<usize> {
        self.inner.read(buf)
    }
}
impl Seek for TrackedReader {
    fn seek(&mut self, pos: SeekFrom) -> std::io::Result<u64> {
        self.inner.seek(pos)
    }
}
impl Drop for TrackedReader {
    fn drop(&mut self) {
        if let Ok(mut a) = self.agg.lock() {
            a.log.u64(self.inner.log.0);
            a.fuel_exhausted |= self.inner.fuel_exhausted;
            a.stats.push(std::mem::take(&mut self.inner.stats));
        }
    }
}

pub struct SimJar {
    pub data: Vec<u8>,
    pub plan: IoPlan,
    pub agg: Arc<Mutex<JarAgg>>,
}

impl SimJar {
    pub fn new(data: Vec<u8>, plan: &IoPlan) -> SimJar {
        SimJar { data, plan: plan.clone(), agg: Arc::new(Mutex::new(JarAgg::default())) }
    }
    /// the jar bytes after the stored-data faults of the plan (flip, truncation) were applied
    pub fn delivered(&self) -> Vec<u8> {
        SimReader::new(&self.data, &self.plan).delivered().to_vec()
    }
    pub fn report(&self, st: &mut crate::engine::RunStats) {
        let a = self.agg.lock().unwrap();
        for s in &a.stats {
            st.io(s, Digest::new());
        }
        st.sched.u64(a.log.0);
        st.probe_n("jar.opens", a.opens);
    }
    pub fn fuel_exhausted(&self) -> bool {
        self.agg.lock().unwrap().fuel_exhausted
    }
}

impl Jar for SimJar {
    type Opened<'a> = ZipArchive<TrackedReader> where Self: 'a;

    fn open(&self) -> Result<Self::Opened<'_>> {
        let n = {
            let mut a = self.agg.lock().unwrap();
            a.opens += 1;
            a.opens
        };
        // every open gets its own schedule stream (derived from the plan and the open count)
        let plan = IoPlan { seed: self.plan.seed ^ n.wrapping_mul(0x9E37_79B9_7F4A_7C15), ..self.plan.clone() };
        let mut r = SimReader::new(&self.data, &plan);
        // a zip reader seeks a lot; give it room proportional to the archive
        r.fuel = 2_000_000 + 256 * self.data.len() as u64;
        ZipArchive::new(TrackedReader { inner: r, agg: self.agg.clone() }).context("failed to open simulated jar")
    }

    fn put_to_file<'a>(&'a self, _suggested: &'a Path) -> Result<&'a Path> {
        Err(anyhow!("SimJar is not stored to files"))
    }
}
