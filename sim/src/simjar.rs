//! SimJar: a jar whose bytes are served through a `SimReader` (`impl dukebox::storage::Jar` with
//! `Opened = ZipArchive<TrackedReader>`). Jar bytes are assembled by the harness with the `zip` crate over a
//! plain buffer (trusted stub), with a fixed timestamp so that nothing depends on the wall clock.

use crate::rng::Digest;
use crate::simio::{IoPlan, IoStats, SimReader};
use anyhow::{anyhow, Context, Result};
use dukebox::storage::Jar;
use serde::{Deserialize, Serialize};
use std::io::{Cursor, Read, Seek, SeekFrom, Write};
use std::path::Path;
use std::sync::{Arc, Mutex};
use zip::write::FileOptions;
use zip::{CompressionMethod, DateTime, ZipArchive, ZipWriter};

#[derive(Clone, Debug, PartialEq, Eq, Serialize, Deserialize)]
#[serde(rename_all = "snake_case")]
pub enum EntryData {
    Dir,
    File(Vec<u8>),
}

/// Assembles a jar. `deflate`: compress the file entries (otherwise stored).
pub fn build_jar(entries: &[(String, EntryData)], deflate: bool) -> Vec<u8> {
    build_jar_commented(entries, deflate, 0)
}

/// like `build_jar`, with an archive comment of `comment_len` bytes (changes the size of the file, not its entries)
pub fn build_jar_commented(entries: &[(String, EntryData)], deflate: bool, comment_len: usize) -> Vec<u8> {
    let mut w = ZipWriter::new(Cursor::new(Vec::new()));
    if comment_len > 0 {
        w.set_comment("x".repeat(comment_len.min(65_000)));
    }
    for (name, data) in entries {
        let opt = FileOptions::<()>::default()
            .last_modified_time(DateTime::default())
            .compression_method(if deflate { CompressionMethod::Deflated } else { CompressionMethod::Stored });
        match data {
            EntryData::Dir => w.add_directory(name.as_str(), opt).expect("zip: dir"),
            EntryData::File(b) => {
                w.start_file(name.as_str(), opt).expect("zip: file");
                w.write_all(b).expect("zip: write");
            }
        }
    }
    w.finish().expect("zip: finish").into_inner()
}

/// Re-opens jar bytes with the zip crate over a plain cursor: (name, data) in archive order.
pub fn open_entries(bytes: &[u8]) -> Result<Vec<(String, EntryData)>> {
    let mut z = ZipArchive::new(Cursor::new(bytes)).context("not a zip archive")?;
    let mut out = vec![];
    for i in 0..z.len() {
        let mut f = z.by_index(i).with_context(|| anyhow!("entry {i}"))?;
        let name = f.name().to_string();
        if f.is_dir() {
            out.push((name, EntryData::Dir));
        } else {
            let mut b = Vec::new();
            f.read_to_end(&mut b).with_context(|| anyhow!("entry {name:?}"))?;
            out.push((name, EntryData::File(b)));
        }
    }
    Ok(out)
}

#[derive(Default, Debug)]
pub struct JarAgg {
    pub opens: u64,
    pub stats: Vec<IoStats>,
    pub log: Digest,
    pub fuel_exhausted: bool,
}

pub struct TrackedReader {
    inner: SimReader,
    agg: Arc<Mutex<JarAgg>>,
}
impl Read for TrackedReader {
    fn read(&mut self, buf: &mut [u8]) -> std::io::Result<usize> {
        self.inner.read(buf)
    }
}
impl Seek for TrackedReader {
    fn seek(&mut self, pos: SeekFrom) -> std::io::Result<u64> {
        self.inner.seek(pos)
    }
}
impl Drop for TrackedReader {
    fn drop(&mut self) {
        if let Ok(mut a) = self.agg.lock() {
            a.log.u64(self.inner.log.0);
            a.fuel_exhausted |= self.inner.fuel_exhausted;
            a.stats.push(std::mem::take(&mut self.inner.stats));
        }
    }
}

pub struct SimJar {
    pub data: Vec<u8>,
    pub plan: IoPlan,
    pub agg: Arc<Mutex<JarAgg>>,
}

impl SimJar {
    pub fn new(data: Vec<u8>, plan: &IoPlan) -> SimJar {
        SimJar { data, plan: plan.clone(), agg: Arc::new(Mutex::new(JarAgg::default())) }
    }
    /// the jar bytes after the stored-data faults of the plan (flip, truncation) were applied
    pub fn delivered(&self) -> Vec<u8> {
        SimReader::new(&self.data, &self.plan).delivered().to_vec()
    }
    pub fn report(&self, st: &mut crate::engine::RunStats) {
        let a = self.agg.lock().unwrap();
        for s in &a.stats {
            st.io(s, Digest::new());
        }
        st.sched.u64(a.log.0);
        st.probe_n("jar.opens", a.opens);
    }
    pub fn fuel_exhausted(&self) -> bool {
        self.agg.lock().unwrap().fuel_exhausted
    }
}

impl Jar for SimJar {
    type Opened<'a> = ZipArchive<TrackedReader> where Self: 'a;

    fn open(&self) -> Result<Self::Opened<'_>> {
        let n = {
            let mut a = self.agg.lock().unwrap();
            a.opens += 1;
            a.opens
        };
        // every open gets its own schedule stream (derived from the plan and the open count)
        let plan = IoPlan { seed: self.plan.seed ^ n.wrapping_mul(0x9E37_79B9_7F4A_7C15), ..self.plan.clone() };
        let mut r = SimReader::new(&self.data, &plan);
        // a zip reader seeks a lot; give it room proportional to the archive
        r.fuel = 2_000_000 + 256 * self.data.len() as u64;
        ZipArchive::new(TrackedReader { inner: r, agg: self.agg.clone() }).context("failed to open simulated jar")
    }

    fn put_to_file<'a>(&'a self, _suggested: &'a Path) -> Result<&'a Path> {
        Err(anyhow!("SimJar is not stored to files"))
    }
}

// ------------------------------------------------------------------------------------------------
// LazyJar: the jar seam at entry level

/// Faults of a `LazyJar`: every fallible entry-level operation of the jar (look an entry up, classify it, read /
/// visit / write a class) is one event, numbered in call order over the life of the jar value; the listed events
/// fail. `sticky`: every event from the first failing one on fails (a store that stays broken); otherwise the
/// failure is transient and the same operation succeeds when asked again.
#[derive(Clone, Debug, Default, PartialEq, Serialize, Deserialize)]
pub struct LazyPlan {
    pub fail_at: Vec<u32>,
    #[serde(default)]
    pub sticky: bool,
    /// legal schedule (chunking / short reads / EINTR) of the per-class byte source
    #[serde(default)]
    pub io: IoPlan,
    /// (k, permille): the k-th class parse of this jar (read / visit, counted from 0) meets an I/O error when it first
    /// touches the byte at `permille` thousandths of the class - once; the class is parsed from a stream, so the
    /// error arrives in the middle of the class reader
    #[serde(default)]
    pub read_fault: Option<(u32, u32)>,
    /// non-zero: `names()` lists the entries in another order (drawn from this seed) than `entry_keys()`; the trait
    /// promises no common order
    #[serde(default)]
    pub names_order: u64,
    /// class entries are handed out under names that do NOT end in `.class` (`x/Foo.classdata`): what an entry is, is
    /// what `to_jar_entry_enum` says, not what its name looks like (an implementation that classifies by content)
    #[serde(default)]
    pub odd_names: bool,
    /// every `open()` numbers the entries differently (entry keys are only good for the opened jar they came from: a
    /// jar backed by a directory listing or a hash map) - missed seeded change C13-17: keys of one opening used on another
    #[serde(default)]
    pub renumber: bool,
}

impl LazyPlan {
    /// draws a plan: `span` = rough number of entry operations one run makes, `parses` = rough number of class parses
    pub fn draw(z: &mut crate::rng::Rng, span: u64, parses: u64) -> LazyPlan {
        let mut fail_at: Vec<u32> = (0..z.below(3)).map(|_| z.below(span.max(1)) as u32).collect();
        fail_at.sort();
        fail_at.dedup();
        let read_fault = if z.chance(35) { Some((z.below(parses.max(1)) as u32, z.below(1000) as u32)) } else { None };
        if read_fault.is_some() && z.chance(60) {
            fail_at.clear();
        }
        LazyPlan { fail_at, sticky: z.chance(30), io: if z.chance(50) { IoPlan::gen_legal(z) } else { IoPlan::plain() }, read_fault, names_order: if z.chance(35) { z.next() | 1 } else { 0 }, odd_names: false, renumber: false }
    }
    pub fn faults(&self) -> usize {
        self.fail_at.len() + self.read_fault.is_some() as usize
    }
    /// shrinker steps
    pub fn smaller(&self) -> Vec<LazyPlan> {
        let mut c = vec![];
        for i in 0..self.fail_at.len() {
            let mut q = self.clone();
            q.fail_at.remove(i);
            c.push(q);
        }
        if self.read_fault.is_some() {
            c.push(LazyPlan { read_fault: None, ..self.clone() });
        }
        if self.odd_names {
            c.push(LazyPlan { odd_names: false, ..self.clone() });
        }
        if self.renumber {
            c.push(LazyPlan { renumber: false, ..self.clone() });
        }
        if self.names_order != 0 {
            c.push(LazyPlan { names_order: 0, ..self.clone() });
        }
        if !self.io.is_plain() {
            c.push(LazyPlan { io: IoPlan::plain(), ..self.clone() });
        }
        c
    }
}

#[derive(Default)]
pub struct LazyState {
    pub parses: u32,
    pub ops: u32,
    pub failed: u32,
    pub read_faults: u32,
    pub opens: u32,
    pub log: Digest,
    pub stats: Vec<IoStats>,
}

/// A jar whose entries are fetched one operation at a time (`impl dukebox::storage::Jar` without the zip crate):
/// classes are parsed from a `SimReader` at the moment `IsClass::read` / `visit` is called, so that a store that
/// fails once, or from some point on, can be simulated at exactly one entry operation.
pub struct LazyJar {
    pub entries: Vec<(String, EntryData)>,
    pub plan: LazyPlan,
    pub state: Mutex<LazyState>,
    /// the names the entries are handed out under
    shown: Vec<String>,
}

impl LazyJar {
    pub fn new(entries: Vec<(String, EntryData)>, plan: &LazyPlan) -> LazyJar {
        let shown = entries
            .iter()
            .map(|(n, d)| match (plan.odd_names, d, n.strip_suffix(".class")) {
                (true, EntryData::File(_), Some(stem)) => format!("{stem}.classdata"),
                _ => n.clone(),
            })
            .collect();
        LazyJar { entries, plan: plan.clone(), state: Mutex::new(LazyState::default()), shown }
    }
    fn tick(&self, what: u64) -> Result<()> {
        let mut s = self.state.lock().unwrap_or_else(|e| e.into_inner());
        let n = s.ops;
        s.ops += 1;
        s.log.u64(what);
        let fail = self.plan.fail_at.contains(&n) || (self.plan.sticky && s.failed > 0);
        if fail {
            s.failed += 1;
            s.log.u64(0xE10);
            return Err(anyhow!("sim: entry operation {n} failed (input/output error)"));
        }
        Ok(())
    }
    pub fn failed(&self) -> u32 {
        self.state.lock().unwrap_or_else(|e| e.into_inner()).failed
    }
    pub fn report(&self, st: &mut crate::engine::RunStats) {
        let s = self.state.lock().unwrap_or_else(|e| e.into_inner());
        for io in &s.stats {
            st.io(io, Digest::new());
        }
        st.sched.u64(s.log.0);
        st.events += s.ops as u64;
        st.probe_n("lazyjar.entry_operations", s.ops as u64);
        if s.failed > s.read_faults {
            st.fired(&[if self.plan.sticky { "entry_op_fails_from_now_on" } else { "entry_op_fails_once" }]);
        }
        if s.read_faults > 0 {
            st.probe("lazyjar.io_error_inside_class_parse");
        }
        if self.plan.names_order != 0 {
            st.probe("lazyjar.names_in_another_order");
        }
        if self.plan.odd_names {
            st.probe("lazyjar.class_entries_under_other_names");
        }
        if self.plan.renumber {
            st.probe("lazyjar.entries_renumbered_per_open");
        }
    }
}

pub struct LazyOpened<'a>(&'a LazyJar, Vec<usize>);
pub struct LazyEntry<'a>(&'a LazyJar, usize);
pub struct LazyClass<'a>(&'a LazyJar, &'a [u8]);

impl Jar for LazyJar {
    type Opened<'a> = LazyOpened<'a> where Self: 'a;
    fn open(&self) -> Result<Self::Opened<'_>> {
        self.tick(1)?;
        let mut perm: Vec<usize> = (0..self.entries.len()).collect();
        if self.plan.renumber {
            let opens = {
                let mut s = self.state.lock().unwrap_or_else(|e| e.into_inner());
                s.opens += 1;
                s.opens
            };
            crate::rng::Rng::new(0x6e756d ^ self.plan.names_order ^ (opens as u64).wrapping_mul(0x9E37_79B9_7F4A_7C15)).shuffle(&mut perm);
        }
        Ok(LazyOpened(self, perm))
    }
    fn put_to_file<'a>(&'a self, _suggested: &'a Path) -> Result<&'a Path> {
        Err(anyhow!("LazyJar is not stored to files"))
    }
}

impl<'j> dukebox::storage::OpenedJar for LazyOpened<'j> {
    type EntryKey = usize;
    type Entry<'a> = LazyEntry<'j> where Self: 'a;
    fn entry_keys(&self) -> impl Iterator<Item = usize> + 'static {
        0..self.0.entries.len()
    }
    fn by_entry_key(&mut self, key: usize) -> Result<Self::Entry<'_>> {
        self.0.tick(2)?;
        if key >= self.0.entries.len() {
            return Err(anyhow!("no entry for index {key}"));
        }
        Ok(LazyEntry(self.0, self.1[key]))
    }
    fn names(&self) -> impl Iterator<Item = (usize, &'_ str)> {
        let mut idx: Vec<usize> = (0..self.0.entries.len()).collect();
        if self.0.plan.names_order != 0 {
            crate::rng::Rng::new(self.0.plan.names_order).shuffle(&mut idx);
        }
        idx.into_iter().map(|k| (k, self.0.shown[self.1[k]].as_str()))
    }
    fn by_name(&mut self, name: &str) -> Result<Option<Self::Entry<'_>>> {
        self.0.tick(3)?;
        Ok(self.0.shown.iter().position(|e| e == name).map(|i| LazyEntry(self.0, i)))
    }
}

impl<'j> dukebox::storage::JarEntry for LazyEntry<'j> {
    fn name(&self) -> &str {
        &self.0.shown[self.1]
    }
    fn attrs(&self) -> dukebox::storage::BasicFileAttributes {
        dukebox::storage::BasicFileAttributes::default()
    }
    type Class = LazyClass<'j>;
    type Other = Vec<u8>;
    fn to_jar_entry_enum(self) -> Result<dukebox::storage::JarEntryEnum<Self::Class, Self::Other>> {
        self.0.tick(4)?;
        let (name, data) = &self.0.entries[self.1];
        Ok(match data {
            EntryData::Dir => dukebox::storage::JarEntryEnum::Dir,
            EntryData::File(b) if name.ends_with(".class") => dukebox::storage::JarEntryEnum::Class(LazyClass(self.0, b)),
            EntryData::File(b) => dukebox::storage::JarEntryEnum::Other(b.clone()),
        })
    }
}

impl<'j> LazyClass<'j> {
    fn source(&self) -> SimReader {
        let (n, k) = {
            let mut s = self.0.state.lock().unwrap_or_else(|e| e.into_inner());
            let k = s.parses;
            s.parses += 1;
            (s.ops as u64, k)
        };
        let faults = match self.0.plan.read_fault {
            Some((which, permille)) if which == k => vec![crate::simio::Fault::EioOnceAtOffset { off: self.1.len() as u64 * permille.min(999) as u64 / 1000 }],
            _ => vec![],
        };
        let plan = IoPlan { seed: self.0.plan.io.seed ^ n.wrapping_mul(0x9E37_79B9_7F4A_7C15), faults, ..self.0.plan.io.clone() };
        SimReader::new(self.1, &plan)
    }
    fn done(&self, r: SimReader) {
        let mut s = self.0.state.lock().unwrap_or_else(|e| e.into_inner());
        s.log.u64(r.log.0);
        if r.stats.fired.contains(&"eio") {
            s.failed += 1;
            s.read_faults += 1;
        }
        s.stats.push(r.stats.clone());
    }
}

impl<'j> dukebox::storage::IsClass for LazyClass<'j> {
    fn read(self) -> Result<duke::tree::class::ClassFile> {
        self.0.tick(5)?;
        let mut r = self.source();
        let out = duke::read_class(&mut r);
        self.done(r);
        out
    }
    fn visit<M: duke::visitor::MultiClassVisitor>(self, visitor: M) -> Result<M> {
        self.0.tick(6)?;
        let mut r = self.source();
        let out = duke::read_class_multi(&mut r, visitor);
        self.done(r);
        out
    }
    type Written<'a> = &'a [u8] where Self: 'a;
    fn write(&self) -> Result<Self::Written<'_>> {
        self.0.tick(7)?;
        Ok(self.1)
    }
    fn into_class_repr(self) -> dukebox::storage::ClassRepr {
        dukebox::storage::ClassRepr::Vec { data: self.1.to_vec() }
    }
}

/// A `LazyJar` that can be handed over by value (`merge` and `remap` consume their jars) while the harness keeps
/// the event log.
pub struct SharedLazy(pub Arc<LazyJar>);
impl Jar for SharedLazy {
    type Opened<'a> = LazyOpened<'a> where Self: 'a;
    fn open(&self) -> Result<Self::Opened<'_>> {
        self.0.open()
    }
    fn put_to_file<'a>(&'a self, s: &'a Path) -> Result<&'a Path> {
        self.0.put_to_file(s)
    }
}
