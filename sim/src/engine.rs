//! The shared engine: seeded runs over 16 workers, merged in run-index order; violation identity,
//! shrinking, replay files, known-findings matching, evidence.

use crate::rng::{mix, Digest, Rng};
use serde::{de::DeserializeOwned, Deserialize, Serialize};
use serde_json::{json, Value};
use std::collections::{BTreeMap, BTreeSet, HashSet};
use std::panic::{catch_unwind, AssertUnwindSafe};
use std::sync::atomic::{AtomicU64, Ordering};
use std::sync::Mutex;
use std::time::Instant;

#[derive(Clone, Copy, Debug, PartialEq, Eq)]
pub enum Tier {
    Quick,
    Thorough,
}
impl Tier {
    pub fn name(self) -> &'static str {
        match self {
            Tier::Quick => "quick",
            Tier::Thorough => "thorough",
        }
    }
}

#[derive(Clone, Debug, Serialize, Deserialize, PartialEq)]
pub struct Violation {
    /// oracle tier: T0 (fault-free, plain medium), T1 (legal behaviours), T2 (faults)
    pub tier: String,
    /// one of the closed list in DESIGN.md appendix A
    pub class: String,
    /// first diverging semantic path (indices are part of it; matching treats `*` as any index)
    pub path: String,
    pub detail: String,
}
impl Violation {
    pub fn new(tier: &str, class: &str, path: impl Into<String>, detail: impl Into<String>) -> Violation {
        Violation { tier: tier.into(), class: class.into(), path: path.into(), detail: detail.into() }
    }
    /// identity used for "same violation" during shrinking and de-duplication: indices are abstracted
    pub fn identity(&self) -> String {
        format!("{}/{}/{}", self.tier, self.class, abstract_indices(&self.path))
    }
}

pub fn abstract_indices(p: &str) -> String {
    let mut out = String::new();
    let mut chars = p.chars().peekable();
    while let Some(c) = chars.next() {
        out.push(c);
        if c == '[' {
            let mut digits = String::new();
            while let Some(d) = chars.peek() {
                if d.is_ascii_digit() {
                    digits.push(*d);
                    chars.next();
                } else {
                    break;
                }
            }
            if !digits.is_empty() && chars.peek() == Some(&']') {
                out.push('*');
            } else {
                out.push_str(&digits);
            }
        }
    }
    out
}

/// Per-run telemetry, merged into the evidence file.
#[derive(Default, Debug)]
pub struct RunStats {
    pub faults_fired: BTreeMap<String, u64>,
    pub probes: BTreeMap<&'static str, u64>,
    pub tiers: BTreeMap<&'static str, u64>,
    /// digest of the workload's shape
    pub shape: u64,
    /// digest of the I/O event log(s) (schedule actually experienced)
    pub sched: Digest,
    /// digest of what was observed (results), goes into the determinism digest
    pub obs: Digest,
    /// at least one non-default behaviour or fault actually fired
    pub nontrivial: bool,
    /// simulated events (medium calls, polls, syscalls)
    pub events: u64,
    /// polls of the simulated executor (the only engine clock; C19)
    pub sim_polls: u64,
    pub notes: Vec<String>,
}
impl RunStats {
    pub fn probe(&mut self, name: &'static str) {
        *self.probes.entry(name).or_insert(0) += 1;
    }
    pub fn probe_n(&mut self, name: &'static str, n: u64) {
        if n > 0 {
            *self.probes.entry(name).or_insert(0) += n;
        }
    }
    pub fn tier(&mut self, name: &'static str) {
        *self.tiers.entry(name).or_insert(0) += 1;
    }
    pub fn fired(&mut self, kinds: &[&'static str]) {
        for k in kinds {
            *self.faults_fired.entry((*k).to_string()).or_insert(0) += 1;
            self.nontrivial = true;
        }
    }
    pub fn io(&mut self, s: &crate::simio::IoStats, log: Digest) {
        self.events += s.calls;
        self.fired(&s.fired);
        if s.shorts > 0 || s.eintrs > 0 {
            self.nontrivial = true;
        }
        self.probe_n("io.short_transfers", s.shorts);
        self.probe_n("io.eintr", s.eintrs);
        self.probe_n("io.seek_back", s.seeks_back);
        self.probe_n("io.eintr_after_seek_back", s.eintr_after_seek_back);
        self.sched.u64(log.0);
    }
}

pub trait Engine: Sync {
    type Plan: Serialize + DeserializeOwned + Clone + Send + Sync;
    fn id(&self) -> &'static str;
    fn level(&self) -> &'static str {
        "exploration"
    }
    fn runs(&self, tier: Tier) -> u64;
    /// Draws the complete explicit plan of run `run` (workload + schedule + faults).
    fn gen(&self, rng: &mut Rng, tier: Tier, run: u64) -> Self::Plan;
    /// Executes the plan against the real code. Pure function of the plan.
    fn exec(&self, plan: &Self::Plan, st: &mut RunStats) -> Vec<Violation>;
    /// Candidate simplifications of a failing plan, most aggressive first.
    fn shrink(&self, plan: &Self::Plan) -> Vec<Self::Plan>;
    /// size measure reported in the replay file (ops, faults)
    fn size(&self, plan: &Self::Plan) -> (u64, u64);
    fn rule(&self) -> String;
    fn assumptions(&self) -> Vec<String>;
    fn real_and_stub(&self) -> Value;
    /// probes this engine expects to be non-zero in a batch (reported when stuck at zero; never fatal)
    fn expected_probes(&self) -> Vec<&'static str> {
        vec![]
    }
}

#[derive(Deserialize, Debug, Clone)]
pub struct KnownFinding {
    pub property: String,
    pub status: String,
    #[serde(default)]
    pub tier: String,
    pub class: String,
    pub path: String,
    #[serde(default)]
    pub detail_contains: String,
    pub what: String,
    #[serde(default)]
    pub commit: String,
}

pub fn load_known() -> Vec<KnownFinding> {
    let p = verif_dir().join("known_findings.json");
    match std::fs::read_to_string(&p) {
        Ok(s) => match serde_json::from_str(&s) {
            Ok(v) => v,
            Err(e) => {
                eprintln!("harness error: {} does not parse: {e}", p.display());
                std::process::exit(2);
            }
        },
        Err(_) => vec![],
    }
}

pub fn known_match<'a>(known: &'a [KnownFinding], prop: &str, v: &Violation) -> Option<&'a KnownFinding> {
    known.iter().find(|k| {
        k.status == "known"
            && k.property == prop
            && (k.tier.is_empty() || k.tier == v.tier)
            && k.class == v.class
            && path_matches(&k.path, &v.path)
            && (k.detail_contains.is_empty() || v.detail.contains(&k.detail_contains))
    })
}

/// A listed path matches a violation path when they are equal after abstracting indices; a listed path ending in
/// `*` (after a `.`) matches every path with that prefix (used where one cause shows under many sub-paths).
fn path_matches(listed: &str, got: &str) -> bool {
    let l = abstract_indices(listed);
    let g = abstract_indices(got);
    match l.strip_suffix(".*") {
        Some(prefix) => g == prefix || g.starts_with(&format!("{prefix}.")),
        None => l == g,
    }
}

pub fn verif_dir() -> std::path::PathBuf {
    std::env::var("VERIF_DIR").map(Into::into).unwrap_or_else(|_| "/verif".into())
}

thread_local! {
    static PANIC_MSG: std::cell::RefCell<Option<String>> = const { std::cell::RefCell::new(None) };
    static GUARD_DEPTH: std::cell::Cell<u32> = const { std::cell::Cell::new(0) };
}

pub fn install_panic_hook() {
    std::panic::set_hook(Box::new(|info| {
        let loc = info.location().map(|l| format!("{}:{}", l.file(), l.line())).unwrap_or_default();
        let msg = if let Some(s) = info.payload().downcast_ref::<&str>() {
            s.to_string()
        } else if let Some(s) = info.payload().downcast_ref::<String>() {
            s.clone()
        } else {
            "<non-string panic>".into()
        };
        if GUARD_DEPTH.with(|d| d.get()) == 0 {
            // not inside a guarded call into the code under test: this is a harness error and must be seen
            eprintln!("harness panic at {loc}: {msg}");
        }
        PANIC_MSG.with(|m| *m.borrow_mut() = Some(format!("{loc}: {msg}")));
    }));
}

/// Runs `f`, turning a panic into `Err("file:line: message")`.
pub fn no_panic<T>(f: impl FnOnce() -> T) -> Result<T, String> {
    GUARD_DEPTH.with(|d| d.set(d.get() + 1));
    let r = catch_unwind(AssertUnwindSafe(f));
    GUARD_DEPTH.with(|d| d.set(d.get() - 1));
    match r {
        Ok(v) => Ok(v),
        Err(_) => Err(PANIC_MSG.with(|m| m.borrow_mut().take()).unwrap_or_else(|| "panic".into())),
    }
}

/// Strips the volatile parts (line numbers) of a panic location so that it can serve as an identity.
pub fn panic_path(msg: &str) -> String {
    // "file:line: message" -> "file"
    let file = msg.split(':').next().unwrap_or("");
    let file = file.strip_prefix("/repo/").unwrap_or(file);
    file.to_string()
}

fn exec_guarded<E: Engine>(e: &E, plan: &E::Plan, st: &mut RunStats) -> Vec<Violation> {
    crate::simio::SINK_RUNAWAY.with(|c| c.set(false));
    match no_panic(|| e.exec(plan, st)) {
        Ok(mut v) => {
            if crate::simio::SINK_RUNAWAY.with(|c| c.replace(false)) {
                v.push(Violation::new("T2", "runaway", "sink", format!("the writer made more than {} calls on its sink (a sink that accepts nothing, or fails, must end the operation)", crate::simio::WRITER_FUEL)));
            }
            v
        }
        Err(msg) => {
            // a panic that escaped the engine's own guards: either the code under test panicked where the engine
            // did not expect it, or the harness itself is wrong. Both must be looked at.
            vec![Violation::new("T?", "panic", panic_path(&msg), msg)]
        }
    }
}

/// Crash localisation (see main.rs `supervise`): when VERIF_TRACE names a file, the index of every run is written
/// to it before the run executes, so that a parent process can tell which run killed this process.
fn trace_run(i: u64) {
    use std::os::unix::fs::FileExt;
    static TRACE: std::sync::OnceLock<Option<std::fs::File>> = std::sync::OnceLock::new();
    let f = TRACE.get_or_init(|| std::env::var("VERIF_TRACE").ok().and_then(|p| std::fs::OpenOptions::new().create(true).write(true).truncate(false).open(p).ok()));
    if let Some(f) = f {
        let _ = f.write_at(&i.to_le_bytes(), 0);
    }
}

/// The process died (abort, stack overflow, kill) while run `run` of this batch was executing: writes the replay file
/// of that run's plan and prints the VIOLATION line. Returns the exit code.
pub fn crash_report<E: Engine>(e: &E, o: &Opts, run: u64, class: &str, detail: &str) -> i32 {
    let prop = e.id();
    let pid = crate::rng::label(prop);
    let mut rng = Rng::new(mix(&[o.seed, pid, run]));
    let plan = e.gen(&mut rng, o.tier, run);
    let v = Violation::new("T?", class, "process-died", detail);
    let ident = v.identity();
    if let Some(k) = known_match(&load_known(), prop, &v) {
        println!("KNOWN-FINDING: property={prop} {} [{}]", k.what, ident);
        return 0;
    }
    let replay_dir = verif_dir().join("replays");
    let _ = std::fs::create_dir_all(&replay_dir);
    let path = replay_dir.join(format!("{prop}-{}-{run}-{:08x}.json", o.seed, crate::rng::fnv(ident.as_bytes()) as u32));
    let (o0, f0) = e.size(&plan);
    let file = json!({
        "property": prop, "seed": o.seed, "run": run, "tier": v.tier, "violation": v, "identity": ident, "plan": plan,
        "shrunk_from": {"ops": o0, "faults": f0}, "shrunk_to": {"ops": o0, "faults": f0}, "shrink_steps": 0,
        "note": "the code under test killed the harness process (abort / stack overflow) during this run; found by re-running the batch single-threaded with a run trace; not shrunk, because every candidate would have to run in its own process",
    });
    if let Err(err) = std::fs::write(&path, serde_json::to_string_pretty(&file).unwrap()) {
        eprintln!("harness error: cannot write replay {}: {err}", path.display());
        return 2;
    }
    println!("VIOLATION property={prop} replay={}", path.display());
    eprintln!("  {} :: {} :: {} :: {}", v.tier, v.class, v.path, first_line(&v.detail, 300));
    1
}

pub struct Outcome {
    pub exit: i32,
    pub digest: u64,
}

pub struct Opts {
    pub tier: Tier,
    pub seed: u64,
    pub runs: Option<u64>,
    pub workers: usize,
    pub write_evidence: bool,
}

#[derive(Default)]
struct Acc {
    digest: u64,
    faults: BTreeMap<String, u64>,
    probes: BTreeMap<&'static str, u64>,
    tiers: BTreeMap<&'static str, u64>,
    distinct: HashSet<(u64, u64)>,
    distinct_sched: HashSet<u64>,
    events: u64,
    polls: u64,
    samples: BTreeMap<u64, Value>,
    first_by_identity: BTreeMap<String, (u64, Violation)>,
    violating_runs: u64,
}
impl Acc {
    /// every component is merged commutatively, so the result does not depend on which worker ran which run
    fn add_run(&mut self, i: u64, st: RunStats, violations: Vec<Violation>, sample: Option<Value>) {
        self.digest = self.digest.wrapping_add(mix(&[i, st.obs.0, st.sched.0, violations.len() as u64]));
        for (k, v) in st.faults_fired {
            *self.faults.entry(k).or_insert(0) += v;
        }
        for (k, v) in st.probes {
            *self.probes.entry(k).or_insert(0) += v;
        }
        for (k, v) in st.tiers {
            *self.tiers.entry(k).or_insert(0) += v;
        }
        if st.nontrivial {
            self.distinct.insert((st.shape, st.sched.0));
        }
        self.distinct_sched.insert(st.sched.0);
        self.events += st.events;
        self.polls += st.sim_polls;
        if let Some(s) = sample {
            self.samples.insert(i, s);
        }
        if !violations.is_empty() {
            self.violating_runs += 1;
        }
        for v in violations {
            let id = v.identity();
            match self.first_by_identity.get(&id) {
                Some((j, _)) if *j <= i => {}
                _ => {
                    self.first_by_identity.insert(id, (i, v));
                }
            }
        }
    }
    fn merge(&mut self, o: Acc) {
        self.digest = self.digest.wrapping_add(o.digest);
        for (k, v) in o.faults {
            *self.faults.entry(k).or_insert(0) += v;
        }
        for (k, v) in o.probes {
            *self.probes.entry(k).or_insert(0) += v;
        }
        for (k, v) in o.tiers {
            *self.tiers.entry(k).or_insert(0) += v;
        }
        self.distinct.extend(o.distinct);
        self.distinct_sched.extend(o.distinct_sched);
        self.events += o.events;
        self.polls += o.polls;
        self.samples.extend(o.samples);
        self.violating_runs += o.violating_runs;
        for (id, (i, v)) in o.first_by_identity {
            match self.first_by_identity.get(&id) {
                Some((j, _)) if *j <= i => {}
                _ => {
                    self.first_by_identity.insert(id, (i, v));
                }
            }
        }
    }
}

pub fn run_engine<E: Engine>(e: &E, o: &Opts) -> Outcome {
    let t0 = Instant::now();
    let prop = e.id();
    let runs = o.runs.unwrap_or_else(|| e.runs(o.tier));
    let pid = crate::rng::label(prop);
    let next = AtomicU64::new(0);
    let total: Mutex<Acc> = Mutex::new(Acc::default());
    let seed = o.seed;
    let tier = o.tier;
    const BATCH: u64 = 16;
    std::thread::scope(|s| {
        for _ in 0..o.workers.max(1) {
            s.spawn(|| {
                let mut acc = Acc::default();
                loop {
                    let start = next.fetch_add(BATCH, Ordering::Relaxed);
                    if start >= runs {
                        break;
                    }
                    for i in start..(start + BATCH).min(runs) {
                        let mut rng = Rng::new(mix(&[seed, pid, i]));
                        let plan = e.gen(&mut rng, tier, i);
                        let mut st = RunStats::default();
                        trace_run(i);
                        let violations = exec_guarded(e, &plan, &mut st);
                        let sample = if i < 3 { serde_json::to_value(&plan).ok() } else { None };
                        acc.add_run(i, st, violations, sample);
                    }
                }
                total.lock().unwrap().merge(acc);
            });
        }
    });
    let Acc { digest, faults, probes, tiers, distinct, distinct_sched, events, polls, samples, first_by_identity, violating_runs: total_violating_runs } =
        total.into_inner().unwrap();
    let digest = Digest(digest);
    let samples: Vec<Value> = samples.into_iter().map(|(i, s)| json!({"run": i, "plan": truncate_json(&s)})).collect();

    // ---- triage: shrink, write replay, match against known findings
    let known = load_known();
    let mut exit = 0;
    let mut new_violations = 0;
    let mut known_lines: BTreeSet<String> = BTreeSet::new();
    let replay_dir = verif_dir().join("replays");
    for (ident, (run, v)) in &first_by_identity {
        let mut rng = Rng::new(mix(&[seed, pid, *run]));
        let plan = e.gen(&mut rng, tier, *run);
        if let Some(k) = known_match(&known, prop, v) {
            known_lines.insert(format!("KNOWN-FINDING: property={prop} {} [{}]", k.what, ident));
            continue;
        }
        let (shrunk, v2, steps) = shrink_plan(e, plan.clone(), v);
        // a shrunk plan may have walked into a *known* finding's identity only if identity is equal, so re-check
        let _ = std::fs::create_dir_all(&replay_dir);
        let path = replay_dir.join(format!("{prop}-{seed}-{run}-{:08x}.json", crate::rng::fnv(ident.as_bytes()) as u32));
        let (o0, f0) = e.size(&plan);
        let (o1, f1) = e.size(&shrunk);
        let file = json!({
            "property": prop, "seed": seed, "run": run, "tier": v2.tier,
            "violation": v2,
            "identity": ident,
            "plan": shrunk,
            "shrunk_from": {"ops": o0, "faults": f0}, "shrunk_to": {"ops": o1, "faults": f1}, "shrink_steps": steps,
        });
        if let Err(err) = std::fs::write(&path, serde_json::to_string_pretty(&file).unwrap()) {
            eprintln!("harness error: cannot write replay {}: {err}", path.display());
            return Outcome { exit: 2, digest: digest.0 };
        }
        println!("VIOLATION property={prop} replay={}", path.display());
        eprintln!("  {} :: {} :: {} :: {}", v2.tier, v2.class, v2.path, first_line(&v2.detail, 300));
        new_violations += 1;
        exit = 1;
    }
    for l in &known_lines {
        println!("{l}");
    }

    let wall = t0.elapsed().as_secs_f64();
    let stuck: Vec<&str> = e.expected_probes().into_iter().filter(|p| probes.get(p).copied().unwrap_or(0) == 0).collect();
    for p in &stuck {
        eprintln!("note: probe `{p}` stayed at zero in this batch (workload or fault mix should change)");
    }
    if o.write_evidence {
        let ev = json!({
            "property_id": prop,
            "tier": tier.name(),
            "seed": seed,
            "level": e.level(),
            "coverage": {
                "evaluations": runs,
                "distinct_nontrivial": distinct.len(),
                "rule": e.rule(),
                "samples": samples,
                "exhaustive": false,
                "runs_per_hour": if wall > 0.0 { (runs as f64 / wall * 3600.0) as u64 } else { 0 },
                "seeds_per_hour": if wall > 0.0 { (runs as f64 / wall * 3600.0) as u64 } else { 0 },
                "simulated_events": events,
                "simulated_time": if polls > 0 { json!({"unit": "executor polls (the only clock any anchored code can observe)", "polls": polls}) } else { json!({"unit": "none: the code under this property contains no timer, deadline or clock read; progress is counted in medium events", "events": events}) },
                "fault_kinds_fired": faults,
                "oracle_tiers": tiers,
                "distinct_io_traces": distinct_sched.len(),
                "probes": probes,
                "probes_stuck_at_zero": stuck,
                "real_and_stub": e.real_and_stub(),
                "batch_digest": format!("{:016x}", digest.0),
                "violating_runs": total_violating_runs,
                "known_findings_seen": known_lines.len(),
            },
            "assumptions": e.assumptions(),
            "wall_s": wall,
            "violations": new_violations,
        });
        let dir = verif_dir().join("evidence");
        let _ = std::fs::create_dir_all(&dir);
        let p = dir.join(format!("{prop}.json"));
        if let Err(err) = std::fs::write(&p, serde_json::to_string_pretty(&ev).unwrap()) {
            eprintln!("harness error: cannot write evidence {}: {err}", p.display());
            return Outcome { exit: 2, digest: digest.0 };
        }
    }
    println!(
        "SUMMARY property={prop} tier={} seed={seed} runs={runs} distinct_nontrivial={} violations={new_violations} known={} digest={:016x} wall_s={wall:.1}",
        tier.name(),
        distinct.len(),
        known_lines.len(),
        digest.0
    );
    Outcome { exit, digest: digest.0 }
}

fn first_line(s: &str, max: usize) -> String {
    let l = s.lines().next().unwrap_or("");
    l.chars().take(max).collect()
}

fn truncate_json(v: &Value) -> Value {
    match v {
        Value::String(s) if s.len() > 400 => Value::String(format!("{}…(+{} bytes)", &s[..s.char_indices().nth(200).map(|x| x.0).unwrap_or(s.len())], s.len())),
        Value::Array(a) => {
            let mut out: Vec<Value> = a.iter().take(24).map(truncate_json).collect();
            if a.len() > 24 {
                out.push(Value::String(format!("…(+{} more)", a.len() - 24)));
            }
            Value::Array(out)
        }
        Value::Object(o) => Value::Object(o.iter().map(|(k, v)| (k.clone(), truncate_json(v))).collect()),
        _ => v.clone(),
    }
}

/// Greedy delta debugging: keep a candidate iff the *same identity* of violation persists.
fn shrink_plan<E: Engine>(e: &E, mut plan: E::Plan, v: &Violation) -> (E::Plan, Violation, u64) {
    let ident = v.identity();
    let mut cur_v = v.clone();
    let mut steps = 0u64;
    let mut budget = 4000u32;
    'outer: loop {
        for cand in e.shrink(&plan) {
            if budget == 0 {
                break 'outer;
            }
            budget -= 1;
            let mut st = RunStats::default();
            let vs = exec_guarded(e, &cand, &mut st);
            if let Some(same) = vs.into_iter().find(|x| x.identity() == ident) {
                plan = cand;
                cur_v = same;
                steps += 1;
                continue 'outer;
            }
        }
        break;
    }
    (plan, cur_v, steps)
}

/// `--replay <file>`: executes the explicit plan in this (fresh) process, no PRNG for the workload involved.
pub fn replay<E: Engine>(e: &E, path: &str) -> i32 {
    let s = match std::fs::read_to_string(path) {
        Ok(s) => s,
        Err(err) => {
            eprintln!("harness error: cannot read {path}: {err}");
            return 2;
        }
    };
    let v: Value = match serde_json::from_str(&s) {
        Ok(v) => v,
        Err(err) => {
            eprintln!("harness error: {path}: {err}");
            return 2;
        }
    };
    let plan: E::Plan = match serde_json::from_value(v["plan"].clone()) {
        Ok(p) => p,
        Err(err) => {
            eprintln!("harness error: {path}: plan does not deserialize: {err}");
            return 2;
        }
    };
    let want = v["identity"].as_str().unwrap_or("").to_string();
    let mut st = RunStats::default();
    let vs = exec_guarded(e, &plan, &mut st);
    let known = load_known();
    let mut hit = false;
    for x in &vs {
        eprintln!("  {} :: {} :: {} :: {}", x.tier, x.class, x.path, first_line(&x.detail, 400));
        if x.identity() == want || want.is_empty() {
            hit = true;
            if let Some(k) = known_match(&known, e.id(), x) {
                println!("KNOWN-FINDING: property={} {} [{}]", e.id(), k.what, x.identity());
            } else {
                println!("VIOLATION property={} replay={path}", e.id());
            }
        }
    }
    // violations other than the recorded one that are listed known findings do not count as "a different violation"
    let vs: Vec<&Violation> = vs.iter().filter(|x| known_match(&known, e.id(), x).is_none()).collect();
    if hit {
        1
    } else if vs.is_empty() {
        println!("REPLAY property={} no violation reproduced (recorded identity: {want})", e.id());
        0
    } else {
        println!("REPLAY property={} different violation than recorded (recorded identity: {want})", e.id());
        1
    }
}
