//! C05 - version graph: `VersionGraph::{resolve, get, apply_diffs}` (compiled in from /repo/src/version_graph.rs)
//! over a simulated mappings directory: drawn file-creation (= listing) order, malformed directories, files
//! vanishing / torn / flipped between `resolve` and `apply_diffs`, heal.

use crate::bridge::from_quill;
use crate::engine::*;
use crate::refdiff::*;
use crate::refmap::*;
use crate::rng::{Digest, Rng};
use crate::simdir::SimDir;
use crate::version_graph::{Split, VersionGraph};
use serde::{Deserialize, Serialize};
use serde_json::json;
use std::collections::{BTreeMap, BTreeSet, VecDeque};

pub struct C05;

#[derive(Clone, Serialize, Deserialize, PartialEq, Debug)]
#[serde(tag = "kind", rename_all = "snake_case")]
pub enum Malform {
    NoRoot,
    TwoRoots { name: String },
    /// an extra edge from a version back to one of its ancestors
    Cycle { from: usize, to: usize },
    /// an extra component `a#b.tinydiff` not connected to the root
    Unreachable { a: String, b: String },
    /// a second version that claims one lookup key of the split version `x~s` at index `plain_of`. variant 0: a plain
    /// `x`; 1: a plain `s`; 2: another split version with the same second half (`zz-other~s`); 3: another split version
    /// with the same first half (`x~zz-other`)
    Collision {
        plain_of: usize,
        #[serde(default)]
        variant: u8,
    },
    /// two more edges from the root to versions whose file names are not UTF-8 and differ only in the invalid byte
    /// (`v<E9>`, `v<E8>`): refusing the directory is fine; resolving it must not make a version `v\u{FFFD}` appear
    /// (missed seeded change C05-14: lossy conversion of file names folds the two into one node)
    NonUtf8Twins,
}

#[derive(Clone, Serialize, Deserialize, PartialEq, Debug)]
#[serde(tag = "kind", rename_all = "snake_case")]
pub enum Mutation {
    Delete,
    Truncate { at: u64 },
    Flip { off: u64, bit: u8 },
    /// the file is replaced by another edge's content (a lost / misdirected write)
    Replace { with_edge: usize },
}

#[derive(Clone, Serialize, Deserialize, PartialEq, Debug)]
#[serde(tag = "op", rename_all = "snake_case")]
pub enum Op {
    Query { name: String },
    /// damage an edge file (edge index) or the root file (edge = None)
    Mutate { edge: Option<usize>, m: Mutation },
    Heal,
}

#[derive(Clone, Serialize, Deserialize)]
pub struct Edge {
    pub from: usize,
    pub to: usize,
    /// Some: the delivered diff is a perturbation of diff(S_from, S_to) (paths then need not commute)
    pub perturb: Option<u64>,
}

#[derive(Clone, Serialize, Deserialize)]
pub struct Plan {
    /// full version names; index 0 is the root
    pub versions: Vec<String>,
    /// contracted-form state per version
    pub states: Vec<MapSet>,
    pub edges: Vec<Edge>,
    pub malform: Option<Malform>,
    pub stray: bool,
    /// file-creation order (seed of a shuffle; 0 = sorted by name)
    pub create_order: u64,
    /// damage applied before `resolve`
    pub pre: Option<(Option<usize>, Mutation)>,
    pub ops: Vec<Op>,
    /// non-zero: some files of the directory are symbolic links to regular files kept elsewhere (which ones is drawn
    /// from this seed)
    #[serde(default)]
    pub links: u64,
    /// how the mappings directory is named and reached (SimDir::styled_dir; 0 = plain)
    #[serde(default)]
    pub dir_style: u8,
    /// the root .tiny file is a pipe (read once, metadata reports size 0); only drawn when nothing damages the root
    #[serde(default)]
    pub root_is_pipe: bool,
    /// files that are overwritten (damage, heal) keep their modification time (cp -p, rsync -t, two writes within one
    /// tick of the file-system clock): a cache validated by mtime does not see the change (missed seeded change C05-15)
    #[serde(default)]
    pub keep_mtime: bool,
}

// ------------------------------------------------------------------------------------------------
// reference: inner-name contraction / extension, files, expected answers

pub fn contract_ref(m: &MapSet) -> MapSet {
    let mut o = m.clone();
    for c in o.classes.values_mut() {
        if let Some(n) = &c.names[0] {
            if let Some((_, inner)) = inner_split(n) {
                c.names[0] = Some(inner.to_string());
            }
        }
    }
    o
}

pub fn extend_ref(m: &MapSet) -> Result<MapSet, String> {
    fn ext(m: &MapSet, key: &str, own: &str) -> Result<String, String> {
        match inner_split(key) {
            None => Ok(own.to_string()),
            Some((outer, _)) => {
                let oc = m.classes.get(outer).ok_or(format!("outer class {outer:?} of {key:?} is not in the set"))?;
                let on = oc.names[0].as_deref().ok_or(format!("outer class {outer:?} has no name"))?;
                Ok(format!("{}${own}", ext(m, outer, on)?))
            }
        }
    }
    let mut o = m.clone();
    for (k, c) in o.classes.iter_mut() {
        if let Some(n) = &m.classes[k].names[0] {
            c.names[0] = Some(ext(m, k, n)?);
        }
    }
    Ok(o)
}

fn edge_file(p: &Plan, e: &Edge) -> String {
    format!("{}#{}.tinydiff", p.versions[e.from], p.versions[e.to])
}
fn root_file(p: &Plan) -> String {
    format!("{}.tiny", p.versions[0])
}
fn edge_diff(p: &Plan, e: &Edge) -> DiffSet {
    let d = ref_diff(&p.states[e.from], &p.states[e.to]).expect("states diffable");
    match e.perturb {
        Some(s) => perturb(&mut Rng::new(s), &d),
        None => d,
    }
}

/// name of the colliding version and the lookup key it shares with `split` (= `x~s`)
fn collider(split: &str, variant: u8) -> (String, String) {
    let (x, sfx) = split.split_once('~').unwrap_or((split, ""));
    match variant % 4 {
        1 => (sfx.to_string(), sfx.to_string()),
        2 => (format!("zz-other~{sfx}"), sfx.to_string()),
        3 => (format!("{x}~zz-other"), x.to_string()),
        _ => (x.to_string(), x.to_string()),
    }
}
fn collider_name(split: &str, variant: u8) -> String {
    collider(split, variant).0
}

/// All files of the intended (healthy) directory.
fn files_of(p: &Plan) -> Vec<(String, Vec<u8>)> {
    let mut f = vec![];
    if p.malform != Some(Malform::NoRoot) {
        let root = extend_ref(&p.states[0]).expect("root state extends");
        f.push((root_file(p), write_tiny(&root, None).into_bytes()));
    }
    for e in &p.edges {
        f.push((edge_file(p, e), write_tinydiff(&edge_diff(p, e), None).into_bytes()));
    }
    match &p.malform {
        Some(Malform::TwoRoots { name }) => f.push((format!("{name}.tiny"), write_tiny(&extend_ref(&p.states[0]).unwrap(), None).into_bytes())),
        Some(Malform::Cycle { from, to }) => f.push((format!("{}#{}.tinydiff", p.versions[*from], p.versions[*to]), b"tiny\t2\t0\n".to_vec())),
        Some(Malform::Unreachable { a, b }) => f.push((format!("{a}#{b}.tinydiff"), b"tiny\t2\t0\n".to_vec())),
        Some(Malform::Collision { plain_of, variant }) => {
            // the split version `x~s` exists at index plain_of; add a version that claims one of its keys, hanging off
            // the root with an own diff
            let x = collider_name(&p.versions[*plain_of], *variant);
            let marker = "c\tcollision/Marker\t\tcollision/Plain\n";
            f.push((format!("{}#{x}.tinydiff", p.versions[0]), format!("tiny\t2\t0\n{marker}").into_bytes()));
        }
        _ => {}
    }
    if p.stray {
        f.push(("README.md".into(), b"not a mapping\n".to_vec()));
        f.push(("old.tiny.bak".into(), b"tiny\t2\t0\tx\ty\n".to_vec()));
        f.push(("a#b.tinydiff.orig".into(), b"garbage".to_vec()));
    }
    f
}

fn mutate(bytes: &[u8], m: &Mutation, p: &Plan) -> Option<Vec<u8>> {
    match m {
        Mutation::Delete => None,
        Mutation::Truncate { at } => Some(bytes[..(*at as usize).min(bytes.len())].to_vec()),
        Mutation::Flip { off, bit } => {
            let mut b = bytes.to_vec();
            if !b.is_empty() {
                let o = (*off as usize) % b.len();
                b[o] ^= 1 << (bit & 7);
            }
            Some(b)
        }
        Mutation::Replace { with_edge } => p.edges.get(*with_edge).map(|e| write_tinydiff(&edge_diff(p, e), None).into_bytes()).or(Some(bytes.to_vec())),
    }
}

#[derive(Debug, Clone, PartialEq)]
enum Exp {
    Ok(String),
    ErrParse(String),
    ErrApply(String),
    ErrMissing,
    ErrExtend(String),
}

/// all shortest root->target paths as edge-index lists
fn shortest_paths(p: &Plan, target: usize) -> Vec<Vec<usize>> {
    let n = p.versions.len();
    let mut dist = vec![usize::MAX; n];
    dist[0] = 0;
    let mut q = VecDeque::from([0usize]);
    while let Some(u) = q.pop_front() {
        for e in &p.edges {
            if e.from == u && dist[e.to] == usize::MAX {
                dist[e.to] = dist[u] + 1;
                q.push_back(e.to);
            }
        }
    }
    if dist[target] == usize::MAX {
        return vec![];
    }
    let mut out = vec![];
    fn back(p: &Plan, dist: &[usize], v: usize, acc: &mut Vec<usize>, out: &mut Vec<Vec<usize>>) {
        if v == 0 {
            let mut path = acc.clone();
            path.reverse();
            out.push(path);
            return;
        }
        for (i, e) in p.edges.iter().enumerate() {
            if e.to == v && dist[e.from] != usize::MAX && dist[e.from] + 1 == dist[v] {
                acc.push(i);
                back(p, dist, e.from, acc, out);
                acc.pop();
            }
        }
    }
    back(p, &dist, target, &mut vec![], &mut out);
    out
}

fn expected(p: &Plan, root_at_resolve: &MapSet, disk: &BTreeMap<String, Vec<u8>>, target: usize) -> Vec<Exp> {
    let mut res = vec![];
    for path in shortest_paths(p, target) {
        let mut cur = Ok(root_at_resolve.clone());
        for ei in path {
            let e = &p.edges[ei];
            let Ok(m) = &cur else { break };
            cur = match disk.get(&edge_file(p, e)) {
                None => Err(Exp::ErrMissing),
                Some(bytes) => match read_tinydiff(bytes) {
                    Err(why) => Err(Exp::ErrParse(why)),
                    Ok(d) => ref_apply(&d, m).map_err(Exp::ErrApply),
                },
            };
        }
        res.push(match cur {
            Err(e) => e,
            Ok(m) => match extend_ref(&m) {
                Ok(x) => Exp::Ok(write_tiny(&x, None)), // canonical text of the *model* (sorted by key): a value, not the real writer's byte layout
                Err(e) => Exp::ErrExtend(e),
            },
        });
    }
    res
}

/// every shortest path to `target` runs over a diff file that is there and holds no byte
fn path_has_empty_file(p: &Plan, disk: &BTreeMap<String, Vec<u8>>, target: usize) -> bool {
    let paths = shortest_paths(p, target);
    !paths.is_empty() && paths.iter().all(|path| path.iter().any(|ei| disk.get(&edge_file(p, &p.edges[*ei])).is_some_and(|b| b.is_empty())))
}

// ------------------------------------------------------------------------------------------------

const VNAMES: [&str; 14] = ["1.3", "1.4", "1.5", "b1.7.3", "a1.2.6", "13w05a", "1.0.0", "rc2", "12w05a-1442", "1.6-pre", "inf-20100618", "c0.30", "1.2.5", "b1.8-pre1"];
const SNAMES: [&str; 6] = ["server-0.4", "server-a0.2.8", "server-1.2", "s", "server-b1", "classic-s"];

impl Engine for C05 {
    type Plan = Plan;
    fn id(&self) -> &'static str {
        "C05"
    }
    fn runs(&self, tier: Tier) -> u64 {
        match tier {
            Tier::Quick => 24_000,
            Tier::Thorough => 400_000,
        }
    }
    fn gen(&self, rng: &mut Rng, _tier: Tier, _run: u64) -> Plan {
        let mut w = rng.split("workload");
        let mut s = rng.split("schedule");
        let mut f = rng.split("faults");
        let cfg = GenCfg { nns: 2, max_classes: *w.pick(&[2usize, 4, 6]), max_members: 2, unicode: w.chance(30), comments: w.chance(60), missing: false, inner: w.chance(70), enigma: true, big: false };
        let n = w.range(1, 8) as usize;
        let mut names: Vec<String> = vec![];
        let mut pool: Vec<&str> = VNAMES.to_vec();
        w.shuffle(&mut pool);
        let mut spool: Vec<&str> = SNAMES.to_vec();
        w.shuffle(&mut spool);
        for i in 0..n {
            let base = pool[i].to_string();
            names.push(if w.chance(35) && i < spool.len() { format!("{base}~{}", spool[i]) } else { base });
        }
        // states: the root is drawn, every other version evolves from its tree parent
        let mut root = gen_mapset(&mut w, &cfg);
        root.ns = vec!["intermediary".into(), "named".into()];
        if w.chance(12) {
            // twin inner classes: two outer classes whose inner classes carry the same simple names and have inner
            // classes of their own (Alpha$Builder$Stage next to Beta$Builder$Stage): missed seeded change C05-9
            let twin = *w.pick(&["Builder", "Entry", "Node"]);
            for (k, n) in [("tw/A", "tw/Alpha"), ("tw/B", "tw/Beta"), ("tw/A$x", twin), ("tw/B$x", twin), ("tw/A$x$y", "Stage"), ("tw/B$x$y", "Stage")] {
                root.classes.insert(k.to_string(), ClassM { names: vec![Some(n.to_string())], ..Default::default() });
            }
        }
        fix_state(&mut root, &mut w);
        let mut states = vec![root];
        let mut edges: Vec<Edge> = vec![];
        for i in 1..n {
            let parent = w.usize(i);
            let mut st = evolve(&mut w, &states[parent], &cfg, 60);
            fix_state(&mut st, &mut w);
            states.push(st);
            edges.push(Edge { from: parent, to: i, perturb: None });
        }
        // diamonds: extra forward edges (they commute by construction)
        for i in 2..n {
            if w.chance(30) {
                let j = w.usize(i);
                if !edges.iter().any(|e| e.from == j && e.to == i) {
                    edges.push(Edge { from: j, to: i, perturb: if w.chance(25) { Some(w.next()) } else { None } });
                }
            }
        }
        let mut p = Plan { versions: names, states, edges, malform: None, stray: w.chance(25), create_order: if s.chance(15) { 0 } else { s.next() | 1 }, pre: None, ops: vec![], links: 0, dir_style: 0, root_is_pipe: false, keep_mtime: false };
        {
            let mut l = rng.split("links");
            if l.chance(15) {
                p.links = l.next() | 1;
            }
        }
        {
            let mut e = rng.split("environment");
            if e.chance(25) {
                p.dir_style = 1 + e.below(7) as u8;
            }
            p.root_is_pipe = e.chance(8);
            p.keep_mtime = e.chance(40);
        }
        // malformed directories in ~25 % of the runs
        if w.chance(25) {
            p.malform = Some(match w.below(6) {
                5 => Malform::NonUtf8Twins,
                0 => Malform::NoRoot,
                1 => Malform::TwoRoots { name: "zz-second-root".into() },
                2 if n >= 2 => {
                    // from a descendant back to an ancestor on its tree path
                    let e = &p.edges[w.usize(n - 1)];
                    Malform::Cycle { from: e.to, to: e.from }
                }
                // an island; half of the time its edge leads INTO a reachable version (which thereby has a second,
                // dead parent: queries for it must not care, whatever the listing order - missed seeded change C05-8)
                3 => Malform::Unreachable { a: "island-a".into(), b: if p.versions.len() >= 2 && w.chance(50) { p.versions[1 + w.usize(p.versions.len() - 1)].clone() } else { "island-b".into() } },
                _ => match p.versions.iter().position(|v| v.contains('~')) {
                    Some(i) if i > 0 => Malform::Collision { plain_of: i, variant: w.below(4) as u8 },
                    _ => Malform::Unreachable { a: "island-a".into(), b: "island-b~island-s".into() },
                },
            });
        }
        // queries: every lookup key at least sometimes, unknown names, islands
        let mut keys: Vec<String> = vec![];
        for v in &p.versions {
            match v.split_once('~') {
                Some((a, b)) => {
                    keys.push(a.into());
                    keys.push(b.into());
                }
                None => keys.push(v.clone()),
            }
        }
        if let Some(Malform::Unreachable { a, b }) = &p.malform {
            keys.push(a.clone());
            keys.push(b.split('~').next().unwrap().to_string());
        }
        keys.push("no-such-version".into());
        if p.malform == Some(Malform::NonUtf8Twins) {
            keys.push("v\u{fffd}".into());
            keys.push("v\u{fffd}".into());
        }
        // unknown names built from pieces that exist: the halves / names of two DIFFERENT versions joined by `~`
        // (missed seeded change C05-12: a lookup that checks the halves separately)
        {
            let mut u = rng.split("unknown-composed");
            let pieces: Vec<(usize, String)> = p.versions.iter().enumerate().flat_map(|(i, v)| v.split('~').map(move |h| (i, h.to_string())).collect::<Vec<_>>()).collect();
            if pieces.len() >= 2 {
                for _ in 0..2 {
                    let (i, a) = u.pick(&pieces).clone();
                    let (j, b) = u.pick(&pieces).clone();
                    let name = format!("{a}~{b}");
                    if i != j && !p.versions.contains(&name) {
                        keys.push(name);
                    }
                }
            }
        }
        let nq = s.range(1, 6);
        let mut healthy = true;
        for _ in 0..nq {
            if !p.edges.is_empty() && f.chance(20) {
                if healthy {
                    let edge = if f.chance(15) { None } else { Some(f.usize(p.edges.len())) };
                    let m = match f.below(5) {
                        0 => Mutation::Delete,
                        1 | 2 => Mutation::Truncate { at: if f.chance(20) { 0 } else { f.below(200) } },
                        3 => Mutation::Flip { off: f.below(300), bit: f.below(8) as u8 },
                        _ => Mutation::Replace { with_edge: f.usize(p.edges.len()) },
                    };
                    p.ops.push(Op::Mutate { edge, m });
                    healthy = false;
                } else {
                    p.ops.push(Op::Heal);
                    healthy = true;
                }
            }
            p.ops.push(Op::Query { name: s.pick(&keys).clone() });
        }
        if !healthy {
            p.ops.push(Op::Heal);
            p.ops.push(Op::Query { name: s.pick(&keys).clone() });
        }
        if f.chance(8) {
            let edge = if f.chance(50) || p.edges.is_empty() { None } else { Some(f.usize(p.edges.len())) };
            p.pre = Some((edge, if f.chance(50) { Mutation::Truncate { at: f.below(120) } } else { Mutation::Flip { off: f.below(200), bit: f.below(8) as u8 } }));
        }
        p
    }

    fn exec(&self, p: &Plan, st: &mut RunStats) -> Vec<Violation> {
        let orders: Vec<u64> = if matches!(p.malform, Some(Malform::Collision { .. })) {
            // the claim under test is order independence: run the scenario under two creation orders
            vec![p.create_order, !p.create_order | 1, 0]
        } else if p.edges.iter().all(|e| e.perturb.is_none()) && (p.edges.len() + 1 == p.versions.len() || (p.pre.is_none() && !p.ops.iter().any(|o| matches!(o, Op::Mutate { .. })))) {
            // every scenario under a second creation (= listing) order: the answers must not move. Not for diamonds
            // whose sides were made NOT to commute (a perturbed edge) and not for diamonds with a damaged file (one side
            // fails, the other does not): there the property's "the path" is ambiguous, any shortest path is
            // accepted, and which one is taken may follow the listing
            vec![p.create_order, !p.create_order | 1]
        } else {
            vec![p.create_order]
        };
        let mut out = vec![];
        let mut answers: Vec<Vec<String>> = vec![];
        for (i, o) in orders.iter().enumerate() {
            let mut a = vec![];
            let v = run_once(p, *o, st, &mut a, i == 0);
            if i == 0 {
                out = v;
            }
            answers.push(a);
        }
        if answers.len() > 2 {
            st.probe("collision_scenarios");
        }
        if answers.len() > 1 {
            for a in &answers[1..] {
                if a != &answers[0] && out.is_empty() {
                    let k = a.iter().zip(&answers[0]).position(|(x, y)| x != y).unwrap_or(0);
                    out.push(Violation::new(
                        "T1",
                        "schedule-dependence",
                        "listing-order.answer",
                        format!("the same directory under another file-creation order answers differently at step {k}: {:?} vs {:?}", first_line_of(&answers[0].get(k)), first_line_of(&a.get(k))),
                    ));
                }
            }
        }
        out
    }

    fn shrink(&self, p: &Plan) -> Vec<Plan> {
        let mut c = vec![];
        if p.pre.is_some() {
            let mut q = p.clone();
            q.pre = None;
            c.push(q);
        }
        if p.stray {
            let mut q = p.clone();
            q.stray = false;
            c.push(q);
        }
        if p.create_order != 0 {
            let mut q = p.clone();
            q.create_order = 0;
            c.push(q);
        }
        if p.links != 0 {
            let mut q = p.clone();
            q.links = 0;
            c.push(q);
        }
        for i in 0..p.ops.len() {
            let mut q = p.clone();
            q.ops.remove(i);
            c.push(q);
        }
        if p.malform.is_some() {
            let mut q = p.clone();
            q.malform = None;
            c.push(q);
        }
        if p.dir_style != 0 {
            let mut q = p.clone();
            q.dir_style = 0;
            c.push(q);
        }
        if p.root_is_pipe {
            let mut q = p.clone();
            q.root_is_pipe = false;
            c.push(q);
        }
        if p.keep_mtime {
            let mut q = p.clone();
            q.keep_mtime = false;
            c.push(q);
        }
        // drop the last version (if nothing else refers to it)
        let n = p.versions.len();
        if n > 1 {
            let last = n - 1;
            let referenced = match &p.malform {
                Some(Malform::Cycle { from, to }) => *from == last || *to == last,
                Some(Malform::Collision { plain_of, .. }) => *plain_of == last,
                _ => false,
            };
            if !referenced {
                let mut q = p.clone();
                q.versions.pop();
                q.states.pop();
                let removed: Vec<usize> = q.edges.iter().enumerate().filter(|(_, e)| e.to == last || e.from == last).map(|x| x.0).collect();
                q.edges.retain(|e| e.to != last && e.from != last);
                let bad_ref = |x: &usize| removed.contains(x) || *x >= q.edges.len() + removed.len();
                q.ops.retain(|o| match o {
                    Op::Mutate { edge: Some(e), .. } => !bad_ref(e),
                    Op::Mutate { m: Mutation::Replace { with_edge }, .. } => !bad_ref(with_edge),
                    _ => true,
                });
                // edge indices above removed ones shift; simplest: only keep this candidate when the removed edges were the last ones
                if removed.iter().all(|r| *r >= q.edges.len()) {
                    if let Some((Some(e), _)) = &q.pre {
                        if *e >= q.edges.len() {
                            q.pre = None;
                        }
                    }
                    q.ops.retain(|o| !matches!(o, Op::Mutate { m: Mutation::Replace { with_edge }, .. } if *with_edge >= q.edges.len()));
                    c.push(q);
                }
            }
        }
        for i in 0..p.edges.len() {
            if p.edges[i].perturb.is_some() {
                let mut q = p.clone();
                q.edges[i].perturb = None;
                c.push(q);
            }
        }
        // drop a class key from every state
        for k in p.states.iter().flat_map(|s| s.classes.keys()).collect::<BTreeSet<_>>() {
            let mut q = p.clone();
            let pre = format!("{k}$");
            for s in &mut q.states {
                s.classes.retain(|c, _| c != k && !c.starts_with(&pre));
            }
            c.push(q);
        }
        // drop members / comments in every state
        for si in 0..p.states.len() {
            for (k, cl) in &p.states[si].classes {
                if !cl.fields.is_empty() || !cl.methods.is_empty() || cl.doc.is_some() {
                    let mut q = p.clone();
                    let c2 = q.states[si].classes.get_mut(k).unwrap();
                    c2.fields.clear();
                    c2.methods.clear();
                    c2.doc = None;
                    c.push(q);
                }
            }
        }
        c
    }
    fn size(&self, p: &Plan) -> (u64, u64) {
        let faults = p.ops.iter().filter(|o| matches!(o, Op::Mutate { .. })).count() as u64 + p.pre.is_some() as u64 + p.malform.is_some() as u64;
        (p.versions.len() as u64 + p.edges.len() as u64 + p.ops.len() as u64 + p.states.iter().map(|s| s.count() as u64).sum::<u64>(), faults)
    }
    fn rule(&self) -> String {
        "one run = a rooted version graph (1-8 versions: chains, trees, diamonds; plain and client~server names) with a generated edit history per edge, written as <root>.tiny + <parent>#<child>.tinydiff into a tmpfs scratch directory in a drawn creation order (= listing order), optionally malformed (no root, two roots, cycle, island, colliding lookup key) or with stray files; then resolve and a drawn sequence of get/apply_diffs queries interleaved with damage to files (delete, truncate, flip, misdirected write) and heals. Every answer is compared with the reference model evaluated over the bytes on disk at the time of the call along every shortest path. Non-trivial: creation order drawn, malformation or mutation present; distinct by (graph+states shape, listing+ops digest)".into()
    }
    fn assumptions(&self) -> Vec<String> {
        vec![
            "named class names contain `$` only where inner-name extension puts it (a top-level class whose own name contains `$` is outside the workload)".into(),
            "every entry has a name in the `named` namespace and parameters have no source name (what a .tinydiff can express)".into(),
            "under damage an Ok answer may also be the pre-damage answer (the property does not forbid keeping already read data); after heal the answer must be the healthy one".into(),
            "where several shortest paths exist the answer of any of them is accepted".into(),
            "tmpfs lists newest-first on this kernel; the observed listing is part of the event log digest".into(),
        ]
    }
    fn real_and_stub(&self) -> serde_json::Value {
        json!({"real": ["VersionGraph::{resolve, get, apply_diffs} from /repo/src/version_graph.rs (#[path] module)", "quill::tiny_v2::read_file", "quill::tiny_v2_diff::read_file", "MappingsDiff::apply_to", "extend_/contract_inner_class_names", "petgraph astar", "std::fs::read_dir"], "stub": ["directory content, creation order and damage (SimDir on tmpfs)"], "reference": ["c05::{expected, extend_ref, contract_ref, shortest_paths}", "refdiff", "refmap"]})
    }
    fn expected_probes(&self) -> Vec<&'static str> {
        vec!["listing_order_not_sorted", "diamond", "split_name_queried_by_second_half", "malformed.rejected", "query_under_damage", "query_after_heal", "unknown_version_rejected", "collision_scenarios", "island_query_rejected", "file_is_a_symlink", "stale_ok_under_damage", "err_under_damage"]
    }
}

fn first_line_of(s: &Option<&String>) -> String {
    s.map(|x| x.chars().take(160).collect()).unwrap_or_default()
}

/// Makes a drawn state admissible for this engine: parameters without source names, named names simple
/// (contracted form), every class named, inner classes only below outer classes that exist.
fn fix_state(m: &mut MapSet, r: &mut Rng) {
    let keys: Vec<String> = m.classes.keys().cloned().collect();
    for k in &keys {
        if let Some((outer, _)) = inner_split(k) {
            if !m.classes.contains_key(outer) {
                m.classes.remove(k);
            }
        }
    }
    for c in m.classes.values_mut() {
        let n = c.names[0].clone().unwrap_or_else(|| gen_class_name(r, false));
        // contracted form: the part after the last `$` ... and no `$` left in it
        let simple = n.rsplit('$').next().unwrap().to_string();
        c.names[0] = Some(if simple.is_empty() { "X".into() } else { simple });
        for me in c.methods.values_mut() {
            if me.names[0].is_none() {
                me.names[0] = Some(gen_ident(r, false));
            }
            for p in me.params.values_mut() {
                p.names[0] = None;
                if p.names[1].is_none() {
                    p.names[1] = Some(gen_ident(r, false));
                }
            }
        }
        for f in c.fields.values_mut() {
            if f.names[0].is_none() {
                f.names[0] = Some(gen_ident(r, false));
            }
        }
    }
    // inner classes keep a simple name; top-level ones may keep their package
    for (k, c) in m.classes.iter_mut() {
        if inner_split(k).is_some() {
            if let Some(n) = &c.names[0] {
                c.names[0] = Some(n.rsplit('/').next().unwrap().to_string());
            }
        }
    }
}

fn run_once(p: &Plan, create_order: u64, st: &mut RunStats, answers: &mut Vec<String>, count: bool) -> Vec<Violation> {
    let mut out = vec![];
    let mut obs = Digest::new();
    if count {
        let mut sh = Digest::new();
        for s in &p.states {
            sh.u64(s.shape());
        }
        sh.u64(p.edges.len() as u64);
        sh.u64(p.versions.iter().filter(|v| v.contains('~')).count() as u64);
        st.shape = sh.0;
        st.tier("T0");
    }
    let healthy_files = files_of(p);
    let mut disk: BTreeMap<String, Vec<u8>> = healthy_files.iter().cloned().collect();
    let healthy: BTreeMap<String, Vec<u8>> = disk.clone();
    let file_of = |edge: &Option<usize>| match edge {
        None => root_file(p),
        Some(e) => edge_file(p, &p.edges[*e]),
    };
    if let Some((edge, m)) = &p.pre {
        let name = file_of(edge);
        if let Some(b) = disk.get(&name).cloned() {
            match mutate(&b, m, p) {
                Some(nb) => {
                    disk.insert(name, nb);
                }
                None => {
                    disk.remove(&name);
                }
            }
            if count {
                st.fired(&["pre_resolve_damage"]);
            }
        }
    }
    // ---- create the files in the drawn order
    let mut dir = SimDir::new_styled("c05", p.dir_style, ".tiny");
    let root_name = root_file(p);
    let root_touched = p.pre.as_ref().is_some_and(|(e, _)| e.is_none()) || p.ops.iter().any(|o| matches!(o, Op::Mutate { edge: None, .. }));
    if count && p.dir_style % 8 != 0 {
        st.probe("dir_name_or_path_unusual");
        st.nontrivial = true;
        st.sched.u64(0xD1 ^ p.dir_style as u64);
    }
    let mut create: Vec<(String, Vec<u8>)> = disk.iter().map(|(k, v)| (k.clone(), v.clone())).collect();
    if create_order != 0 {
        Rng::new(create_order).shuffle(&mut create);
    }
    for (n, b) in &create {
        if p.root_is_pipe && !root_touched && *n == root_name {
            if dir.create_pipe_file(n, b) && count {
                st.probe("root_file_is_a_pipe");
                st.nontrivial = true;
                st.sched.u64(0x9199);
            }
            continue;
        }
        if p.links != 0 && (crate::rng::fnv(n.as_bytes()) ^ p.links) % 3 == 0 {
            dir.create_link(n, b);
            if count {
                st.probe("file_is_a_symlink");
                st.nontrivial = true;
            }
        } else {
            dir.create(n, b);
        }
    }
    if p.malform == Some(Malform::NonUtf8Twins) {
        let root = &p.versions[0];
        for b in [0xE9u8, 0xE8] {
            let mut name = format!("{root}#v").into_bytes();
            name.push(b);
            name.extend_from_slice(b".tinydiff");
            dir.create_raw(&name, b"tiny\t2\t0\n");
        }
    }
    let listing = dir.listing();
    let mut sorted = listing.clone();
    sorted.sort();
    if count {
        if listing != sorted {
            st.probe("listing_order_not_sorted");
            st.nontrivial = true;
        }
        for l in &listing {
            st.sched.str(l);
        }
        st.events += dir.syscalls;
        if p.edges.len() >= p.versions.len() && p.versions.len() > 1 {
            st.probe("diamond");
        }
    }

    // ---- resolve
    let path = dir.given_path().to_path_buf();
    let graph = match no_panic(|| VersionGraph::resolve(&path)) {
        Err(pm) => {
            out.push(Violation::new("T0", "panic", format!("resolve:{}", panic_path(&pm)), pm));
            return out;
        }
        Ok(g) => g,
    };
    let must_fail_at_resolve = matches!(p.malform, Some(Malform::NoRoot) | Some(Malform::TwoRoots { .. }) | Some(Malform::Cycle { .. }));
    // what the reference reads as the root at resolve time
    let root_now = disk.get(&root_file(p)).map(|b| read_tiny(b, 2));
    let graph = match graph {
        Err(e) => {
            obs.u64(1);
            answers.push("resolve: Err".into());
            let root_damaged = p.pre.as_ref().is_some_and(|(e, _)| e.is_none());
            if must_fail_at_resolve {
                if count {
                    st.probe("malformed.rejected");
                    st.nontrivial = true;
                }
            } else if p.malform == Some(Malform::NonUtf8Twins) {
                if count {
                    st.probe("non_utf8_names_rejected");
                    st.nontrivial = true;
                }
            } else if matches!(p.malform, Some(Malform::Collision { .. })) {
                // a lookup key claimed by two versions: refusing the directory is one order-independent answer
                if count {
                    st.probe("collision_rejected");
                    st.nontrivial = true;
                }
            } else if root_damaged {
                if count {
                    st.probe("resolve_err_on_damaged_root");
                }
            } else {
                out.push(Violation::new("T0", "refused-wellformed", "resolve", format!("{e:#}")));
            }
            if count {
                st.obs = obs;
            }
            return out;
        }
        Ok(g) => g,
    };
    answers.push("resolve: Ok".into());
    if must_fail_at_resolve {
        out.push(Violation::new("T0", "accepted-malformed-directory", "resolve", format!("{:?} was accepted", p.malform)));
        return out;
    }
    // root as the reference reads it (contracted)
    let root_ref = match root_now {
        Some(Ok(m)) => contract_ref(&m),
        _ => {
            // the real reader accepted a root file the reference reader rejects (only possible under pre-resolve damage)
            if count {
                st.probe("lenient_accept");
                st.obs = obs;
            }
            return out;
        }
    };
    let healthy_root = contract_ref(&read_tiny(&healthy[&root_file(p)], 2).expect("healthy root parses"));

    // ---- the lookup table of the reference
    let mut lookup: BTreeMap<String, (usize, u8)> = BTreeMap::new();
    for (i, v) in p.versions.iter().enumerate() {
        match v.split_once('~') {
            Some((a, b)) => {
                lookup.entry(a.into()).or_insert((i, 1));
                lookup.entry(b.into()).or_insert((i, 2));
            }
            None => {
                lookup.entry(v.clone()).or_insert((i, 0));
            }
        }
    }
    let collision_key = match &p.malform {
        Some(Malform::Collision { plain_of, variant }) => Some(collider(&p.versions[*plain_of], *variant).1),
        _ => None,
    };
    let island: Vec<String> = match &p.malform {
        Some(Malform::Unreachable { a, b }) => {
            let mut v = vec![a.clone()];
            if !p.versions.contains(b) {
                v.extend(b.split('~').map(|s| s.to_string()));
            }
            v
        }
        _ => vec![],
    };

    let mut damaged = p.pre.is_some();
    let mut healed_once = false;
    for op in &p.ops {
        match op {
            Op::Mutate { edge, m } => {
                let name = file_of(edge);
                if let Some(b) = disk.get(&name).cloned() {
                    match mutate(&b, m, p) {
                        Some(nb) => {
                            if p.keep_mtime {
                                dir.overwrite_keep_mtime(&name, &nb);
                                if count {
                                    st.probe("overwrite_keeps_mtime");
                                }
                            } else {
                                dir.overwrite(&name, &nb);
                            }
                            disk.insert(name, nb);
                        }
                        None => {
                            dir.remove(&name);
                            disk.remove(&name);
                        }
                    }
                    damaged = true;
                    if count {
                        st.fired(&[match m {
                            Mutation::Delete => "file_deleted",
                            Mutation::Truncate { .. } => "file_truncated",
                            Mutation::Flip { .. } => "file_flipped",
                            Mutation::Replace { .. } => "file_replaced",
                        }]);
                    }
                }
            }
            Op::Heal => {
                for (n, b) in &healthy {
                    if disk.get(n) != Some(b) {
                        if disk.contains_key(n) {
                            if p.keep_mtime {
                                dir.overwrite_keep_mtime(n, b);
                            } else {
                                dir.overwrite(n, b);
                            }
                        } else {
                            dir.create(n, b);
                        }
                        disk.insert(n.clone(), b.clone());
                    }
                }
                damaged = false;
                healed_once = true;
                if count {
                    st.probe("healed");
                }
            }
            Op::Query { name } => {
                if count {
                    st.events += 1;
                }
                let got = no_panic(|| graph.get(name).map(|(s, v)| (s, v.as_str().to_string(), v)));
                let (split, full, entry) = match got {
                    Err(pm) => {
                        out.push(Violation::new("T0", "panic", format!("get:{}", panic_path(&pm)), pm));
                        break;
                    }
                    Ok(Err(e)) => {
                        answers.push(format!("get {name}: Err"));
                        if lookup.contains_key(name) || island.contains(name) {
                            out.push(Violation::new("T0", "refused-wellformed", "get", format!("version {name:?} exists but get says {e:#}")));
                        } else if count {
                            st.probe("unknown_version_rejected");
                        }
                        continue;
                    }
                    Ok(Ok(x)) => x,
                };
                if island.contains(name) {
                    // known to the table, but not reachable: apply_diffs must refuse
                    match no_panic(|| graph.apply_diffs(entry)) {
                        Err(pm) => out.push(Violation::new("T0", "panic", format!("apply_diffs:{}", panic_path(&pm)), pm)),
                        Ok(Ok(_)) => out.push(Violation::new("T0", "accepted-malformed-directory", "apply_diffs(unreachable)", format!("{name:?} is not reachable from the root but got an answer"))),
                        Ok(Err(_)) => {
                            answers.push(format!("apply {name}: Err"));
                            if count {
                                st.probe("island_query_rejected");
                            }
                        }
                    }
                    continue;
                }
                // with a lookup key claimed twice the whole graph may hang together differently (an extra edge into the
                // split version changes shortest paths of everything below it): in such scenarios every query is judged
                // by order independence alone
                let on_collided_node = matches!(p.malform, Some(Malform::Collision { .. })) && lookup.contains_key(name);
                if Some(name) == collision_key.as_ref() || on_collided_node {
                    // the key is claimed twice; the only claim judged is order independence (see `exec`)
                    let r = no_panic(|| graph.apply_diffs(entry).and_then(|m| Ok(write_tiny(&from_quill(&m)?, None))));
                    answers.push(match r {
                        Ok(Ok(t)) => format!("apply {name} -> {full}: {t}"),
                        Ok(Err(_)) => format!("apply {name}: Err"),
                        Err(pm) => {
                            out.push(Violation::new("T0", "panic", format!("apply_diffs:{}", panic_path(&pm)), pm));
                            "panic".into()
                        }
                    });
                    continue;
                }
                let Some(&(idx, which)) = lookup.get(name) else {
                    out.push(Violation::new("T0", "accepted-malformed-directory", "get", format!("unknown version {name:?} resolved to {full:?}")));
                    continue;
                };
                if full != p.versions[idx] {
                    out.push(Violation::new("T0", "semantic-mismatch", "get.version", format!("{name:?} resolved to {full:?}, expected {:?}", p.versions[idx])));
                    continue;
                }
                let split_ok = matches!((which, split), (0, Split::None) | (1, Split::First) | (2, Split::Second));
                if !split_ok {
                    out.push(Violation::new("T0", "semantic-mismatch", "get.split", format!("{name:?}: {split:?}")));
                }
                if which == 2 && count {
                    st.probe("split_name_queried_by_second_half");
                }
                let exp_now = expected(p, &root_ref, &disk, idx);
                let exp_healthy = expected(p, &healthy_root, &healthy, idx);
                let real = no_panic(|| graph.apply_diffs(entry).and_then(|m| {
                    // the projection also checks internal consistency of the returned value; the comparison is on values
                    // (both sides printed by the reference writer), not on the real writer's byte layout
                    Ok(write_tiny(&from_quill(&m)?, None))
                }));
                let tier = if damaged { "T2" } else if create_order != 0 { "T1" } else { "T0" };
                if std::env::var_os("VERIF_DEBUG").is_some() {
                    eprintln!("--- query {name}: expected now {exp_now:#?}\n--- real {real:#?}");
                    for (n, b) in &disk {
                        eprintln!("--- file {n}:\n{}", String::from_utf8_lossy(b));
                    }
                }
                if count {
                    st.tier(if damaged { "T2" } else if create_order != 0 { "T1" } else { "T0" });
                    if damaged {
                        st.probe("query_under_damage");
                    } else if healed_once {
                        st.probe("query_after_heal");
                    }
                }
                match real {
                    Err(pm) => out.push(Violation::new(tier, "panic", format!("apply_diffs:{}", panic_path(&pm)), pm)),
                    Ok(Ok(text)) => {
                        obs.str(&text);
                        answers.push(format!("apply {name}: {text}"));
                        let in_now = exp_now.iter().any(|e| e == &Exp::Ok(text.clone()));
                        let in_healthy = exp_healthy.iter().any(|e| e == &Exp::Ok(text.clone()));
                        if in_now {
                            // fine
                        } else if damaged && in_healthy {
                            if count {
                                st.probe("stale_ok_under_damage");
                            }
                        } else if exp_now.len() == 1 && matches!(&exp_now[0], Exp::ErrParse(w) if w.starts_with(UNDECODABLE)) {
                            out.push(Violation::new(tier, "reader-ok-on-undecodable-input", "apply_diffs", format!("version {full:?}: a diff file on the only shortest path is not UTF-8 text, but an answer was given")));
                        } else if path_has_empty_file(p, &disk, idx) {
                            out.push(Violation::new(tier, "reader-ok-on-empty-input", "apply_diffs", format!("version {full:?}: a diff file on every shortest path holds no byte (not even the header line), but an answer was given")));
                        } else if exp_now.iter().any(|e| matches!(e, Exp::ErrParse(_))) {
                            // some shortest path runs over a text the reference reader rejects; the real reader may be more
                            // tolerant there, and its reading cannot be judged
                            if count {
                                st.probe("lenient_accept");
                            }
                        } else if exp_now.iter().any(|e| matches!(e, Exp::ErrApply(_))) && !exp_now.iter().any(|e| matches!(e, Exp::Ok(_))) {
                            let why = exp_now.iter().find_map(|e| if let Exp::ErrApply(w) = e { Some(w.clone()) } else { None }).unwrap_or_default();
                            out.push(Violation::new(tier, "accepted-inconsistent-diff", "apply_diffs", format!("version {full:?}: a diff on the path does not fit ({why}) but an answer was given")));
                        } else {
                            let want = exp_now.iter().find_map(|e| if let Exp::Ok(t) = e { Some(t.clone()) } else { None });
                            let class = if !damaged && healed_once { "residue-after-heal" } else if damaged { "reader-ok-with-wrong-data" } else if tier == "T1" { "schedule-dependence" } else { "semantic-mismatch" };
                            let det = match want {
                                Some(w) => crate::c03::first_text_diff(w.as_bytes(), text.as_bytes()),
                                None => format!("expected {:?}", exp_now.first()),
                            };
                            out.push(Violation::new(tier, class, "apply_diffs.text", format!("version {full:?}: {det}")));
                        }
                    }
                    Ok(Err(e)) => {
                        obs.u64(7);
                        answers.push(format!("apply {name}: Err"));
                        let some_err_now = exp_now.iter().any(|e| !matches!(e, Exp::Ok(_))) || exp_now.is_empty();
                        if some_err_now {
                            if count && damaged {
                                st.probe("err_under_damage");
                            }
                            if count && !damaged {
                                st.probe("refused_by_both");
                            }
                        } else {
                            let class = if !damaged && healed_once { "no-progress-after-heal" } else { "refused-wellformed" };
                            out.push(Violation::new(tier, class, "apply_diffs", format!("version {full:?}: {e:#}")));
                        }
                    }
                }
            }
        }
    }
    if count {
        st.events += dir.syscalls;
        let mut od = Digest::new();
        for o in &p.ops {
            od.str(&format!("{o:?}"));
        }
        st.sched.u64(od.0);
        st.obs = obs;
    }
    out
}
