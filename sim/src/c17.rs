//! C17 - partial and replaying visitors observe the same facts as a full read; a read consumes exactly one class.
//!
//! One simulated stream (`SimReader`) holds the concatenation of 1-6 class files. It is read by successive
//! `read_class_multi` calls with a visitor that reports a drawn interest mask and declines drawn classes,
//! fields, methods, record components and `Code` attributes (duke's `verif::masked` wrappers around the
//! tree-building visitors), or with the unit visitor, or with the plain tree builder. After every call the
//! stream position must be the sum of the lengths of the classes read so far; what the masked visitor built,
//! projected into the reference model, must be the full read of the same class with the uninteresting kinds
//! and the declined members taken out (an uninteresting kind may still be delivered, but then it must be the
//! true value). `ClassFile::accept` into the same visitors must give the same answer as reading the bytes.

use crate::engine::*;
use crate::proj::project;
use crate::rng::{Digest, Rng};
use crate::simio::*;
use duke::tree::class::ClassFile;
use duke::verif::masked::{CodeMask, Item, MaskSpec, MaskedMulti};
use duke::visitor::class::ClassInterests;
use refclass::sem::*;
use refclass::Sem;
use serde::{Deserialize, Serialize};
use serde_json::json;
use std::io::Cursor;

pub struct C17;

#[derive(Clone, Debug, Serialize, Deserialize, PartialEq)]
#[serde(rename_all = "snake_case")]
pub enum ClassSrc {
    Gen { seed: u64, size: u8, features: u32 },
    Corpus { idx: usize },
}

#[derive(Clone, Debug, Serialize, Deserialize, PartialEq)]
#[serde(rename_all = "snake_case")]
pub enum VisitorKind {
    /// duke::verif::masked over Vec<ClassFile>
    Masked,
    /// `()`: interested in everything, keeps nothing
    Unit,
    /// Vec<ClassFile>, one call per class
    Tree,
}

/// interest bits, in the order of the fields of duke's `*Interests` structs
#[derive(Clone, Debug, Serialize, Deserialize, PartialEq)]
pub struct Mask {
    pub class: u32,
    pub field: u32,
    pub method: u32,
    pub code: u32,
    pub record: u32,
}
impl Mask {
    pub fn all() -> Mask {
        Mask { class: (1 << 19) - 1, field: (1 << 7) - 1, method: (1 << 12) - 1, code: (1 << 7) - 1, record: (1 << 6) - 1 }
    }
}

#[derive(Clone, Debug, Serialize, Deserialize)]
pub struct Plan {
    pub classes: Vec<ClassSrc>,
    pub visitor: VisitorKind,
    pub mask: Mask,
    /// (class index in the stream, kind: 0 class 1 field 2 method 3 record component 4 code, member index)
    pub declined: Vec<(usize, u8, usize)>,
    pub io: IoPlan,
    /// also replay each fully read class into the same kind of visitor and compare
    pub accept: bool,
    /// Some: the fields, methods (with their code) and record components with an odd index report these member-level
    /// masks instead (hook H1c), so that the members of one class do not all report the same interests
    #[serde(default)]
    pub odd: Option<Mask>,
    /// non-zero: the first class of the stream is also read by a caller-written visitor chain that reads another class
    /// of the stream from inside every `reentrant`-th callback (module `reentrant`)
    #[serde(default)]
    pub reentrant: u8,
}

fn b(m: u32, i: u32) -> bool {
    m & (1 << i) != 0
}

fn member_masks(s: &mut MaskSpec, m: &Mask) {
    s.field.constant_value = b(m.field, 0);
    s.field.signature = b(m.field, 1);
    s.field.runtime_visible_annotations = b(m.field, 2);
    s.field.runtime_invisible_annotations = b(m.field, 3);
    s.field.runtime_visible_type_annotations = b(m.field, 4);
    s.field.runtime_invisible_type_annotations = b(m.field, 5);
    s.field.unknown_attributes = b(m.field, 6);
    s.method.code = b(m.method, 0);
    s.method.exceptions = b(m.method, 1);
    s.method.signature = b(m.method, 2);
    s.method.runtime_visible_annotations = b(m.method, 3);
    s.method.runtime_invisible_annotations = b(m.method, 4);
    s.method.runtime_visible_type_annotations = b(m.method, 5);
    s.method.runtime_invisible_type_annotations = b(m.method, 6);
    s.method.runtime_visible_parameter_annotations = b(m.method, 7);
    s.method.runtime_invisible_parameter_annotations = b(m.method, 8);
    s.method.annotation_default = b(m.method, 9);
    s.method.method_parameters = b(m.method, 10);
    s.method.unknown_attributes = b(m.method, 11);
    s.code = CodeMask {
        stack_map_table: b(m.code, 0),
        line_number_table: b(m.code, 1),
        local_variable_table: b(m.code, 2),
        local_variable_type_table: b(m.code, 3),
        runtime_visible_type_annotations: b(m.code, 4),
        runtime_invisible_type_annotations: b(m.code, 5),
        unknown_attributes: b(m.code, 6),
    };
    s.record_component.signature = b(m.record, 0);
    s.record_component.runtime_visible_annotations = b(m.record, 1);
    s.record_component.runtime_invisible_annotations = b(m.record, 2);
    s.record_component.runtime_visible_type_annotations = b(m.record, 3);
    s.record_component.runtime_invisible_type_annotations = b(m.record, 4);
    s.record_component.unknown_attributes = b(m.record, 5);
}

fn spec_of(p: &Plan) -> MaskSpec {
    let m = &p.mask;
    let mut s = MaskSpec::all();
    s.class = ClassInterests {
        inner_classes: b(m.class, 0),
        enclosing_method: b(m.class, 1),
        signature: b(m.class, 2),
        source_file: b(m.class, 3),
        source_debug_extension: b(m.class, 4),
        runtime_visible_annotations: b(m.class, 5),
        runtime_invisible_annotations: b(m.class, 6),
        runtime_visible_type_annotations: b(m.class, 7),
        runtime_invisible_type_annotations: b(m.class, 8),
        module: b(m.class, 9),
        module_packages: b(m.class, 10),
        module_main_class: b(m.class, 11),
        nest_host: b(m.class, 12),
        nest_members: b(m.class, 13),
        permitted_subclasses: b(m.class, 14),
        record: b(m.class, 15),
        unknown_attributes: b(m.class, 16),
        fields: b(m.class, 17),
        methods: b(m.class, 18),
    };
    member_masks(&mut s, m);
    if let Some(o) = &p.odd {
        let mut os = MaskSpec::all();
        member_masks(&mut os, o);
        s.odd = Some(std::rc::Rc::new(os));
    }
    for (c, k, i) in &p.declined {
        let item = match k {
            0 => Item::Class,
            1 => Item::Field,
            2 => Item::Method,
            3 => Item::RecordComponent,
            _ => Item::Code,
        };
        s.declined.insert((*c, item, if *k == 0 { 0 } else { *i }));
    }
    s
}

fn class_bytes(src: &ClassSrc) -> Option<Vec<u8>> {
    match src {
        ClassSrc::Corpus { idx } => {
            let c = crate::corpus::corpus();
            Some(c[*idx % c.len()].1.clone())
        }
        ClassSrc::Gen { seed, size, features } => {
            let mut r = Rng::new(*seed);
            let base = match size {
                0 => refclass::GenCfg::small(),
                1 => refclass::GenCfg::default(),
                _ => refclass::GenCfg::large(),
            };
            let cfg = refclass::GenCfg { features: *features, ..base };
            for _ in 0..6 {
                let sem = refclass::gen_class(&mut r, &cfg);
                let layout = refclass::gen_layout(&mut r);
                if let Ok(e) = refclass::encode(&sem, &layout) {
                    return Some(e.bytes);
                }
            }
            None
        }
    }
}

/// `take(slot)`-style helper: if the kind is uninteresting, the expected value is "absent", unless the visitor did
/// receive something - then it must be the true value (so the expected value is left as the full read has it).
macro_rules! uninterested {
    ($interested:expr, $exp:expr, $got:expr, $empty:expr) => {
        if !$interested && $got == $empty {
            $exp = $empty;
        }
    };
}

fn filter_annotations(vis: bool, invis: bool, exp: &mut Annotations, got: &Annotations) {
    uninterested!(vis, exp.visible, got.visible, vec![]);
    uninterested!(invis, exp.invisible, got.invisible, vec![]);
}
fn filter_type_annotations(vis: bool, invis: bool, exp: &mut TypeAnnotations, got: &TypeAnnotations) {
    uninterested!(vis, exp.visible, got.visible, vec![]);
    uninterested!(invis, exp.invisible, got.invisible, vec![]);
}

/// The full read `full` of class number `ci`, reduced to what a visitor with this plan must have received;
/// `got` is what it did receive (only consulted for the "uninteresting but delivered" rule and member matching).
/// the member-level masks the member with index `i` (per class, in file order, declined ones counted) reports
fn member_mask(p: &Plan, i: usize) -> &Mask {
    match &p.odd {
        Some(o) if i % 2 == 1 => o,
        _ => &p.mask,
    }
}

fn expected(full: &Sem, got: &Sem, p: &Plan, ci: usize) -> Sem {
    let m = &p.mask;
    let mut e = full.clone();
    let declined = |k: u8, i: usize| p.declined.iter().any(|d| d.0 == ci && d.1 == k && d.2 == i);
    uninterested!(b(m.class, 0), e.inner_classes, got.inner_classes, None);
    uninterested!(b(m.class, 1), e.enclosing_method, got.enclosing_method, None);
    uninterested!(b(m.class, 2), e.signature, got.signature, None);
    uninterested!(b(m.class, 3), e.source_file, got.source_file, None);
    uninterested!(b(m.class, 4), e.source_debug_extension, got.source_debug_extension, None);
    filter_annotations(b(m.class, 5), b(m.class, 6), &mut e.annotations, &got.annotations);
    filter_type_annotations(b(m.class, 7), b(m.class, 8), &mut e.type_annotations, &got.type_annotations);
    uninterested!(b(m.class, 9), e.module, got.module, None);
    uninterested!(b(m.class, 10), e.module_packages, got.module_packages, None);
    uninterested!(b(m.class, 11), e.module_main_class, got.module_main_class, None);
    uninterested!(b(m.class, 12), e.nest_host, got.nest_host, None);
    uninterested!(b(m.class, 13), e.nest_members, got.nest_members, None);
    uninterested!(b(m.class, 14), e.permitted_subclasses, got.permitted_subclasses, None);
    uninterested!(b(m.class, 16), e.unknown, got.unknown, vec![]);
    // record components
    if !b(m.class, 15) && got.record.is_none() {
        e.record = None;
    } else if let Some(rc) = &mut e.record {
        let mut kept = vec![];
        for (i, mut c) in std::mem::take(rc).into_iter().enumerate() {
            if declined(3, i) {
                continue;
            }
            let mm = member_mask(p, i);
            let g = got.record.as_ref().and_then(|v| v.get(kept.len())).cloned().unwrap_or_else(|| c.clone());
            uninterested!(b(mm.record, 0), c.signature, g.signature, None);
            filter_annotations(b(mm.record, 1), b(mm.record, 2), &mut c.annotations, &g.annotations);
            filter_type_annotations(b(mm.record, 3), b(mm.record, 4), &mut c.type_annotations, &g.type_annotations);
            uninterested!(b(mm.record, 5), c.unknown, g.unknown, vec![]);
            kept.push(c);
        }
        *rc = kept;
        // duke's tree keeps a list of record components, not "a Record attribute": a record whose components were all
        // declined projects like a class without the attribute
        if rc.is_empty() && got.record.is_none() {
            e.record = None;
        }
    }
    // fields
    if !b(m.class, 17) && got.fields.is_empty() {
        e.fields.clear();
    } else {
        let mut kept = vec![];
        for (i, mut f) in std::mem::take(&mut e.fields).into_iter().enumerate() {
            if declined(1, i) {
                continue;
            }
            let mm = member_mask(p, i);
            let g = got.fields.get(kept.len()).cloned().unwrap_or_else(|| f.clone());
            uninterested!(b(mm.field, 0), f.constant_value, g.constant_value, None);
            uninterested!(b(mm.field, 1), f.signature, g.signature, None);
            filter_annotations(b(mm.field, 2), b(mm.field, 3), &mut f.annotations, &g.annotations);
            filter_type_annotations(b(mm.field, 4), b(mm.field, 5), &mut f.type_annotations, &g.type_annotations);
            uninterested!(b(mm.field, 6), f.unknown, g.unknown, vec![]);
            kept.push(f);
        }
        e.fields = kept;
    }
    // methods
    if !b(m.class, 18) && got.methods.is_empty() {
        e.methods.clear();
    } else {
        let mut kept = vec![];
        for (i, mut me) in std::mem::take(&mut e.methods).into_iter().enumerate() {
            if declined(2, i) {
                continue;
            }
            let mm = member_mask(p, i);
            let g = got.methods.get(kept.len()).cloned().unwrap_or_else(|| me.clone());
            uninterested!(b(mm.method, 1), me.exceptions, g.exceptions, None);
            uninterested!(b(mm.method, 2), me.signature, g.signature, None);
            filter_annotations(b(mm.method, 3), b(mm.method, 4), &mut me.annotations, &g.annotations);
            filter_type_annotations(b(mm.method, 5), b(mm.method, 6), &mut me.type_annotations, &g.type_annotations);
            uninterested!(b(mm.method, 7), me.parameter_annotations.visible, g.parameter_annotations.visible, None);
            uninterested!(b(mm.method, 8), me.parameter_annotations.invisible, g.parameter_annotations.invisible, None);
            uninterested!(b(mm.method, 9), me.annotation_default, g.annotation_default, None);
            uninterested!(b(mm.method, 10), me.method_parameters, g.method_parameters, None);
            uninterested!(b(mm.method, 11), me.unknown, g.unknown, vec![]);
            if declined(4, i) || (!b(mm.method, 0) && g.code.is_none()) {
                me.code = None;
            } else if let (Some(c), Some(gc)) = (&mut me.code, &g.code) {
                uninterested!(b(mm.code, 0), c.frames, gc.frames, vec![]);
                uninterested!(b(mm.code, 1), c.line_numbers, gc.line_numbers, vec![]);
                uninterested!(b(mm.code, 2), c.local_vars, gc.local_vars, vec![]);
                uninterested!(b(mm.code, 3), c.local_var_types, gc.local_var_types, vec![]);
                filter_type_annotations(b(mm.code, 4), b(mm.code, 5), &mut c.type_annotations, &gc.type_annotations);
                uninterested!(b(mm.code, 6), c.unknown, gc.unknown, vec![]);
            }
            kept.push(me);
        }
        e.methods = kept;
    }
    e
}

struct Prepared {
    stream: Vec<u8>,
    /// end offset of each class in the stream
    ends: Vec<u64>,
    full: Vec<Sem>,
    trees: Vec<ClassFile>,
}

/// Builds the stream from the classes the full reader accepts (a class duke cannot read is C01's business).
fn prepare(p: &Plan, st: &mut RunStats) -> Result<Prepared, Violation> {
    let mut out = Prepared { stream: vec![], ends: vec![], full: vec![], trees: vec![] };
    for src in &p.classes {
        let Some(bytes) = class_bytes(src) else { continue };
        match no_panic(|| duke::read_class(&mut Cursor::new(&bytes))) {
            Ok(Ok(tree)) => match project(&tree) {
                Ok(sem) => {
                    out.stream.extend_from_slice(&bytes);
                    out.ends.push(out.stream.len() as u64);
                    out.full.push(sem);
                    out.trees.push(tree);
                }
                Err(_) => st.probe("class_not_projectable_skipped"),
            },
            Ok(Err(_)) => st.probe("class_refused_by_full_read_skipped"),
            Err(pm) => return Err(Violation::new("T0", "panic", format!("full-read:{}", panic_path(&pm)), pm)),
        }
    }
    Ok(out)
}

fn judge_tree(tier: &str, stage: &str, ci: usize, tree: &ClassFile, prep: &Prepared, p: &Plan, out: &mut Vec<Violation>, obs: &mut Digest) {
    match project(tree) {
        Ok(got) => {
            obs.str(&format!("{:?}", got.this_class));
            obs.u64(got.fields.len() as u64);
            obs.u64(got.methods.len() as u64);
            let exp = expected(&prep.full[ci], &got, p, ci);
            if let Some(path) = exp.diff(&got) {
                out.push(Violation::new(tier, if tier == "T2" { "reader-ok-with-wrong-data" } else { "semantic-mismatch" }, format!("{stage}.{path}"), format!("class #{ci} in the stream: expected (full read filtered by the mask) and received differ at {path}")));
            }
        }
        Err(e) => out.push(Violation::new(tier, "semantic-mismatch", format!("{stage}.projection"), e)),
    }
}

impl Engine for C17 {
    type Plan = Plan;
    fn id(&self) -> &'static str {
        "C17"
    }
    fn runs(&self, tier: Tier) -> u64 {
        match tier {
            Tier::Quick => 80_000,
            Tier::Thorough => 1_500_000,
        }
    }
    fn gen(&self, rng: &mut Rng, tier: Tier, _run: u64) -> Plan {
        let mut w = rng.split("workload");
        let mut s = rng.split("schedule");
        let mut f = rng.split("faults");
        let n = match w.below(10) {
            0..=3 => 1,
            4..=6 => 2,
            7 | 8 => 3,
            _ => w.range(4, 6) as usize,
        };
        let ncorpus = crate::corpus::corpus().len();
        let mut classes = vec![];
        for _ in 0..n {
            if w.chance(30) {
                classes.push(ClassSrc::Corpus { idx: w.usize(ncorpus) });
            } else {
                let size = match w.below(20) {
                    0 if tier == Tier::Thorough => 2,
                    0..=4 => 1,
                    _ => 0,
                };
                let features = match w.below(4) {
                    0 => refclass::gen::feat::ALL,
                    1 => refclass::gen::feat::ALL & !refclass::gen::feat::UNICODE,
                    _ => (w.next() as u32 | refclass::gen::feat::CODE) & refclass::gen::feat::ALL & !refclass::gen::feat::UNICODE,
                };
                classes.push(ClassSrc::Gen { seed: w.next(), size, features });
            }
        }
        let visitor = match w.below(10) {
            0 => VisitorKind::Unit,
            1 => VisitorKind::Tree,
            _ => VisitorKind::Masked,
        };
        // masks: all / none / one level thinned / random
        let all = Mask::all();
        let mask = match w.below(8) {
            0 => all.clone(),
            1 => Mask { class: 0, field: 0, method: 0, code: 0, record: 0 },
            2 => Mask { class: (w.next() as u32 & all.class) | (1 << 17) | (1 << 18) | (1 << 15), ..all.clone() },
            3 => Mask { field: w.next() as u32 & all.field, record: w.next() as u32 & all.record, ..all.clone() },
            4 => Mask { method: (w.next() as u32 & all.method) | 1, ..all.clone() },
            5 => Mask { code: w.next() as u32 & all.code, ..all.clone() },
            _ => Mask {
                class: (w.next() as u32 & all.class) | if w.chance(80) { (1 << 17) | (1 << 18) | (1 << 15) } else { 0 },
                field: w.next() as u32 & all.field,
                method: (w.next() as u32 & all.method) | if w.chance(80) { 1 } else { 0 },
                code: w.next() as u32 & all.code,
                record: w.next() as u32 & all.record,
            },
        };
        let mut declined = vec![];
        if visitor == VisitorKind::Masked && w.chance(60) {
            for _ in 0..w.range(1, 4) {
                let c = w.usize(n);
                let k = *w.pick(&[0u8, 1, 1, 2, 2, 2, 3, 4, 4]);
                declined.push((c, k, w.usize(4)));
            }
            declined.sort();
            declined.dedup();
        }
        let mut io = IoPlan::plain();
        if s.below(10) >= 3 {
            io = IoPlan::gen_legal(&mut s);
        }
        if f.chance(35) {
            // faults are aimed after the total length is known; offsets are relative (per mille of the stream)
            let pm = f.below(1001);
            let fault = match f.below(6) {
                0 | 1 => Fault::Eof { at: pm },
                2 => Fault::EioAtOffset { off: pm },
                3 => Fault::Eio { at_call: f.below(40) as u32, sticky: f.chance(50) },
                4 => Fault::SeekFail { at_call: f.below(12) as u32 },
                _ => Fault::Flip { off: pm, bit: f.below(8) as u8 },
            };
            io.faults.push(fault);
        }
        let accept = w.chance(40);
        // a second member-level mask for the odd members of every class (missed seeded change C17-7: interests asked
        // once per class instead of once per member)
        let mut o = rng.split("odd-members");
        let odd = if visitor == VisitorKind::Masked && o.chance(35) {
            Some(match o.below(4) {
                0 => Mask { class: 0, field: 0, method: 0, code: 0, record: 0 },
                1 => all.clone(),
                _ => Mask { class: 0, field: o.next() as u32 & all.field, method: (o.next() as u32 & all.method) | if o.chance(70) { 1 } else { 0 }, code: o.next() as u32 & all.code, record: o.next() as u32 & all.record },
            })
        } else {
            None
        };
        let reentrant = { let mut re = rng.split("reentrant"); if re.chance(6) { 1 + re.below(9) as u8 } else { 0 } };
        Plan { classes, visitor, mask, declined, io, accept, odd, reentrant }
    }

    fn exec(&self, p: &Plan, st: &mut RunStats) -> Vec<Violation> {
        let mut out = vec![];
        let mut obs = Digest::new();
        let prep = match prepare(p, st) {
            Ok(x) => x,
            Err(v) => return vec![v],
        };
        let n = prep.ends.len();
        st.shape = crate::rng::mix(&[n as u64, p.mask.class as u64, p.mask.method as u64, p.mask.code as u64, p.declined.len() as u64, prep.stream.len() as u64]);
        if n == 0 {
            st.probe("empty_stream");
            return out;
        }
        st.probe_n("classes_in_stream", n as u64);
        if n > 1 {
            st.probe("concatenated_stream");
        }
        // per-mille fault positions -> absolute offsets
        let total = prep.stream.len() as u64;
        let mut io = p.io.clone();
        for f in io.faults.iter_mut() {
            match f {
                Fault::Eof { at } => *at = (*at).min(1000) * total / 1000,
                Fault::EioAtOffset { off } => *off = (*off).min(1000) * total / 1000,
                Fault::Flip { off, .. } => *off = ((*off).min(1000) * total / 1000).min(total.saturating_sub(1)),
                _ => {}
            }
        }
        let legal = io.legal_only();
        let tier: &'static str = if io.is_plain() {
            "T0"
        } else if legal {
            "T1"
        } else {
            "T2"
        };
        st.tier(tier);
        let spec = spec_of(p);
        let mut src = SimReader::new(&prep.stream, &io);
        // a flipped byte changes what the full read of that class is: the reference for T2-flip is the full read of the
        // delivered bytes, class by class, where it exists
        let flipped = io.faults.iter().any(|f| matches!(f, Fault::Flip { .. }));
        let mut masked = Some(MaskedMulti::new(Vec::<ClassFile>::new(), spec.clone()));
        let mut trees_seen = 0usize;
        let mut failed = false;
        for ci in 0..n {
            let before = src.position();
            let res: Result<Result<Option<ClassFile>, anyhow::Error>, String> = match p.visitor {
                VisitorKind::Unit => no_panic(|| duke::read_class_multi(&mut src, ()).map(|_| None)),
                VisitorKind::Tree => no_panic(|| duke::read_class_multi(&mut src, Vec::<ClassFile>::new()).map(|mut v| v.pop())),
                VisitorKind::Masked => {
                    let v = masked.take().expect("visitor");
                    match no_panic(|| duke::read_class_multi(&mut src, v)) {
                        Ok(Ok(v)) => {
                            let inner_len = v.inner.len();
                            let t = if inner_len > trees_seen { v.inner.last().cloned() } else { None };
                            trees_seen = inner_len;
                            masked = Some(v);
                            Ok(Ok(t))
                        }
                        Ok(Err(e)) => Ok(Err(e)),
                        Err(pm) => Err(pm),
                    }
                }
            };
            match res {
                Err(pm) => {
                    out.push(Violation::new(tier, "panic", format!("read_class_multi:{}", panic_path(&pm)), pm));
                    failed = true;
                }
                Ok(Err(e)) => {
                    obs.u64(0xE);
                    if legal {
                        out.push(Violation::new(tier, if tier == "T0" { "refused-wellformed" } else { "schedule-dependence" }, "read_class_multi.result", format!("class #{ci}: {e:#}")));
                    } else {
                        st.probe("err_under_fault");
                    }
                    failed = true;
                }
                Ok(Ok(tree)) => {
                    obs.u64(1);
                    let pos = src.position();
                    let want = prep.ends[ci];
                    if !flipped && pos != want {
                        out.push(Violation::new(
                            tier,
                            "stream-position",
                            format!("after-class.{}", if pos > want { "beyond" } else { "short" }),
                            format!("after reading class #{ci} (started at {before}) the stream position is {pos}, the class ends at {want}"),
                        ));
                    }
                    let class_declined = p.visitor == VisitorKind::Masked && p.declined.iter().any(|d| d.0 == ci && d.1 == 0);
                    match (p.visitor.clone(), tree) {
                        (VisitorKind::Unit, _) => {}
                        (_, None) => {
                            if class_declined {
                                st.probe("class_declined");
                            } else {
                                out.push(Violation::new(tier, "semantic-mismatch", "class.missing", format!("class #{ci} was read without error but no tree was delivered")));
                            }
                        }
                        (_, Some(t)) => {
                            if class_declined {
                                out.push(Violation::new(tier, "semantic-mismatch", "class.declined-but-delivered", format!("class #{ci}")));
                            } else if flipped {
                                // compare against the full read of the delivered bytes of this class, if that read succeeds
                                let lo = if ci == 0 { 0 } else { prep.ends[ci - 1] as usize };
                                let hi = (prep.ends[ci] as usize).min(src.delivered().len());
                                let piece = src.delivered()[lo..hi].to_vec();
                                // Only when the damaged bytes are still a well-formed class file (strict reference parser: every
                                // attribute_length exact): on a file whose lengths contradict its contents a reader that SKIPS an
                                // attribute by its length and one that PARSES it legitimately continue at different offsets, and
                                // C17 speaks about class files (false alarm of a thorough sweep under VERIF_SEED=1: a flipped Utf8
                                // length in the pool of corpus class j17/corp/Marks)
                                if refclass::parse(&piece).is_err() {
                                    st.probe("flipped.not_wellformed_unjudged");
                                } else if let Ok(Ok(ft)) = no_panic(|| duke::read_class(&mut Cursor::new(&piece))) {
                                    if let (Ok(full), Ok(got)) = (project(&ft), project(&t)) {
                                        let plan_all = if p.visitor == VisitorKind::Tree { Plan { mask: Mask::all(), declined: vec![], ..p.clone() } } else { p.clone() };
                                        let one = Prepared { stream: vec![], ends: vec![], full: vec![full], trees: vec![] };
                                        let exp = expected(&one.full[0], &got, &Plan { declined: plan_all.declined.iter().filter(|d| d.0 == ci).map(|d| (0, d.1, d.2)).collect(), ..plan_all.clone() }, 0);
                                        if let Some(path) = exp.diff(&got) {
                                            out.push(Violation::new("T2", "reader-ok-with-wrong-data", format!("read-flipped.{path}"), format!("class #{ci}")));
                                        }
                                        st.probe("flip_accepted_and_compared");
                                    }
                                } else {
                                    st.probe("lenient_accept");
                                }
                            } else {
                                let pl = if p.visitor == VisitorKind::Tree { Plan { mask: Mask::all(), declined: vec![], ..p.clone() } } else { p.clone() };
                                judge_tree(tier, "read", ci, &t, &prep, &pl, &mut out, &mut obs);
                                if !legal {
                                    st.probe("ok_under_fault_compared");
                                }
                            }
                        }
                    }
                }
            }
            if failed {
                break;
            }
        }
        st.io(&src.stats, src.log);
        if src.fuel_exhausted {
            out.push(Violation::new(tier, "runaway", "read_class_multi", "fuel exhausted"));
        }
        if !failed && legal {
            // the stream is exhausted: one more read must not deliver a class
            if let Ok(Ok(v)) = no_panic(|| duke::read_class_multi(&mut src, Vec::<ClassFile>::new())) {
                if !v.is_empty() {
                    out.push(Violation::new(tier, "stream-position", "after-last.extra-class", "a read at the end of the stream delivered a class"));
                }
            }
            st.probe("read_at_end_of_stream");
        }
        // probes about what the mask exercised
        if p.visitor == VisitorKind::Masked {
            if p.mask != Mask::all() {
                st.probe("partial_mask");
            }
            if p.mask.class & (1 << 17) == 0 || p.mask.class & (1 << 18) == 0 {
                st.probe("members_uninteresting");
            }
            if p.mask.method & 1 == 0 {
                st.probe("code_uninteresting");
            }
            for d in &p.declined {
                st.probe(match d.1 {
                    0 => "declined.class",
                    1 => "declined.field",
                    2 => "declined.method",
                    3 => "declined.record_component",
                    _ => "declined.code",
                });
            }
        }
        // ---- replay: ClassFile::accept delivers the same events as reading the bytes
        if p.accept && p.visitor != VisitorKind::Unit {
            st.probe("accept_checked");
            for ci in 0..n {
                let tree = prep.trees[ci].clone();
                let one = Plan { declined: p.declined.iter().filter(|d| d.0 == ci).map(|d| (0usize, d.1, d.2)).collect(), mask: if p.visitor == VisitorKind::Tree { Mask::all() } else { p.mask.clone() }, ..p.clone() };
                let v = MaskedMulti::new(Vec::<ClassFile>::new(), spec_of(&one));
                match no_panic(|| tree.accept(v)) {
                    Err(pm) => out.push(Violation::new("T0", "panic", format!("accept:{}", panic_path(&pm)), pm)),
                    Ok(Err(e)) => out.push(Violation::new("T0", "refused-wellformed", "accept.result", format!("class #{ci}: {e:#}"))),
                    Ok(Ok(v)) => {
                        let class_declined = one.declined.iter().any(|d| d.1 == 0);
                        match v.into_inner().pop() {
                            None if class_declined => {}
                            None => out.push(Violation::new("T0", "semantic-mismatch", "accept.class.missing", format!("class #{ci}"))),
                            Some(_) if class_declined => out.push(Violation::new("T0", "semantic-mismatch", "accept.class.declined-but-delivered", format!("class #{ci}"))),
                            Some(t) => {
                                let sub = Prepared { stream: vec![], ends: vec![], full: vec![prep.full[ci].clone()], trees: vec![] };
                                judge_tree("T0", "accept", 0, &t, &sub, &one, &mut out, &mut obs);
                            }
                        }
                    }
                }
            }
        }
        // ---------------- a visitor that reads another class from inside its callbacks
        if p.reentrant != 0 && !prep.ends.is_empty() {
            st.probe("reentrant_visitor");
            st.nontrivial = true;
            st.sched.u64(0x4EE ^ p.reentrant as u64);
            let first = prep.stream[..prep.ends[0] as usize].to_vec();
            let lib_i = if prep.ends.len() > 1 { 1 } else { 0 };
            let lib = prep.stream[if lib_i == 0 { 0 } else { prep.ends[0] as usize }..prep.ends[lib_i] as usize].to_vec();
            let want_insns: usize = prep.trees[0].methods.iter().filter_map(|m| m.code.as_ref()).map(|c| c.instructions.len()).sum();
            let loader = crate::reentrant::Loader::new(lib, p.reentrant as usize, 4);
            match no_panic(|| duke::read_class_multi(&mut Cursor::new(&first), loader)) {
                Err(pm) => out.push(Violation::new("T0", "panic", format!("reentrant-read:{}", panic_path(&pm)), pm)),
                Ok(Err(e)) => out.push(Violation::new("T0", "refused-wellformed", "reentrant-read.result", format!("a class the full read accepts is refused when the visitor reads another class from inside its callbacks: {e:#}"))),
                Ok(Ok(l)) => {
                    if l.seen.instructions != want_insns {
                        out.push(Violation::new("T0", "semantic-mismatch", "reentrant-read.instructions", format!("{} instructions delivered, the full read has {want_insns}", l.seen.instructions)));
                    }
                    if !l.seen.nested.is_empty() {
                        st.probe("reentrant_nested_reads");
                    }
                    for r in &l.seen.nested {
                        match r {
                            // compared through the projection (floats by bit pattern: a NaN constant is not `==` itself)
                            Ok(t) if project(t).ok().as_ref() == Some(&prep.full[lib_i]) => {}
                            Ok(_) => out.push(Violation::new("T0", "semantic-mismatch", "reentrant-read.nested", "the class read from inside a callback differs from the same class read on its own".to_string())),
                            Err(e) => out.push(Violation::new("T0", "refused-wellformed", "reentrant-read.nested.result", format!("the nested read of a class the full read accepts fails: {e}"))),
                        }
                    }
                }
            }
        }
        st.obs = obs;
        out
    }

    fn shrink(&self, p: &Plan) -> Vec<Plan> {
        let mut c = vec![];
        if p.odd.is_some() {
            let mut q = p.clone();
            q.odd = None;
            c.push(q);
        }
        for i in 0..p.classes.len() {
            if p.classes.len() > 1 {
                let mut q = p.clone();
                q.classes.remove(i);
                // class indices of the declines shift
                q.declined = q.declined.into_iter().filter(|d| d.0 != i).map(|d| (if d.0 > i { d.0 - 1 } else { d.0 }, d.1, d.2)).collect();
                c.push(q);
            }
        }
        for io in shrink_io(&p.io) {
            let mut q = p.clone();
            q.io = io;
            c.push(q);
        }
        for i in 0..p.declined.len() {
            let mut q = p.clone();
            q.declined.remove(i);
            c.push(q);
        }
        if p.accept {
            let mut q = p.clone();
            q.accept = false;
            c.push(q);
        }
        // widen the mask level by level, then bit by bit
        let all = Mask::all();
        for (lvl, (cur, full)) in [(p.mask.class, all.class), (p.mask.field, all.field), (p.mask.method, all.method), (p.mask.code, all.code), (p.mask.record, all.record)].into_iter().enumerate() {
            if cur != full {
                let mut q = p.clone();
                match lvl {
                    0 => q.mask.class = full,
                    1 => q.mask.field = full,
                    2 => q.mask.method = full,
                    3 => q.mask.code = full,
                    _ => q.mask.record = full,
                }
                c.push(q);
                for bit in 0..20 {
                    if full & (1 << bit) != 0 && cur & (1 << bit) == 0 {
                        let mut q = p.clone();
                        match lvl {
                            0 => q.mask.class |= 1 << bit,
                            1 => q.mask.field |= 1 << bit,
                            2 => q.mask.method |= 1 << bit,
                            3 => q.mask.code |= 1 << bit,
                            _ => q.mask.record |= 1 << bit,
                        }
                        c.push(q);
                    }
                }
            }
        }
        // smaller classes
        for (i, cl) in p.classes.iter().enumerate() {
            if let ClassSrc::Gen { seed, size, features } = cl {
                if *size > 0 {
                    let mut q = p.clone();
                    q.classes[i] = ClassSrc::Gen { seed: *seed, size: size - 1, features: *features };
                    c.push(q);
                }
                for bit in 0..20 {
                    if features & (1 << bit) != 0 && (1u32 << bit) != refclass::gen::feat::CODE {
                        let mut q = p.clone();
                        q.classes[i] = ClassSrc::Gen { seed: *seed, size: *size, features: features & !(1 << bit) };
                        c.push(q);
                    }
                }
            }
        }
        c
    }
    fn size(&self, p: &Plan) -> (u64, u64) {
        ((p.classes.len() + p.declined.len()) as u64, p.io.faults.len() as u64)
    }
    fn rule(&self) -> String {
        "one run = one stream of 1-6 concatenated class files (generated under drawn layouts, or corpus) x one visitor (masked tree builder with a drawn interest mask per level and drawn declined classes / fields / methods / record components / Code attributes; unit visitor; plain tree builder) x one reader schedule (chunk ceiling, short %, EINTR %) x 0-1 fault (EOF, EIO at call / offset, failing seek, flipped byte), optionally followed by ClassFile::accept of every class into the same visitor; non-trivial = a short transfer, EINTR, fault, partial mask or decline actually occurred; distinct by (stream shape + mask digest, I/O event-log digest)".into()
    }
    fn assumptions(&self) -> Vec<String> {
        vec![
            "the reference for 'what a full read reports' is duke's own full read of the same bytes, projected into the harness model (the property relates partial reads to the full read; the full read's own fidelity is C01)".into(),
            "a kind the visitor is not interested in may still be delivered; if it is, it must equal the full read's value".into(),
            "classes the full reader refuses are left out of the stream (counted by probe)".into(),
            "under a flipped byte the reference is the full read of the delivered bytes of that class, when that read succeeds; otherwise the run counts as lenient_accept".into(),
            "harness profile: opt-level 2 with overflow checks and debug assertions".into(),
        ]
    }
    fn real_and_stub(&self) -> serde_json::Value {
        json!({"real": ["duke::read_class_multi", "duke::read_class", "duke::tree::class::ClassFile::accept", "duke tree-building visitors", "duke::verif::masked wrappers (hook, forwards every event)", "unit visitor ()"], "stub": ["byte source (SimReader over the concatenated stream)"], "reference": ["proj::project (duke tree -> refclass::Sem)", "mask filter over Sem (c17::expected)"]})
    }
    fn expected_probes(&self) -> Vec<&'static str> {
        vec!["concatenated_stream", "partial_mask", "members_uninteresting", "code_uninteresting", "declined.class", "declined.field", "declined.method", "declined.record_component", "declined.code", "accept_checked", "io.seek_back", "io.eintr", "io.short_transfers", "err_under_fault", "ok_under_fault_compared", "read_at_end_of_stream", "class_declined"]
    }
}
