//! Development-time survey for C01 (not a registered check): reads every corpus class and a few thousand generated
//! classes under several layouts with `duke::read_class`, projects the tree with `proj::project`, compares it
//! with the reference model and prints a tally of every kind of outcome with one example each. This is how the
//! projection was validated and where the triage list of FINDINGS-C01.md comes from.
//!   cargo run --offline --bin c01_survey            (SURVEY_N=20000 for more)
//!   cargo test --offline --bin c01_survey           (unit tests of proj.rs and c01_diff.rs; the main binary's
//!                                                    test build needs /repo's dev-dependencies and is not used)

#[path = "../c01_admit.rs"]
mod admit;
#[path = "../c01_corpus.rs"]
mod corpus;
#[path = "../c01_diff.rs"]
mod diff;
#[path = "../proj.rs"]
mod proj;

fn abstract_indices(p: &str) -> String {
    let mut out = String::new();
    let mut it = p.chars().peekable();
    while let Some(c) = it.next() {
        out.push(c);
        if c == '[' {
            let mut d = String::new();
            while let Some(x) = it.peek() {
                if x.is_ascii_digit() {
                    d.push(*x);
                    it.next();
                } else {
                    break;
                }
            }
            if !d.is_empty() && it.peek() == Some(&']') {
                out.push('*');
            } else {
                out.push_str(&d);
            }
        }
    }
    out
}
fn no_panic<T>(f: impl FnOnce() -> T) -> Result<T, String> {
    std::panic::catch_unwind(std::panic::AssertUnwindSafe(f)).map_err(|e| e.downcast_ref::<String>().cloned().or_else(|| e.downcast_ref::<&str>().map(|s| s.to_string())).unwrap_or_default())
}

use corpus::CORPUS;
use diff::diff_all;
use proj::project;
use refclass::SplitMix as Rng;
use refclass::{encode, gen_class, gen_layout, parse, GenCfg, Layout};
use std::collections::BTreeMap;
use std::io::Cursor;

fn norm(e: &anyhow::Error) -> String {
    let root = e.chain().last().map(|c| c.to_string()).unwrap_or_default();
    let mut out = String::new();
    let mut prev_digit = false;
    for ch in root.chars() {
        if ch.is_ascii_digit() {
            if !prev_digit {
                out.push('#');
            }
            prev_digit = true;
        } else {
            prev_digit = false;
            out.push(ch);
        }
    }
    out.chars().take(100).collect()
}

fn one(bytes: &[u8], truth: &refclass::Sem, tag: &str, tally: &mut BTreeMap<String, (u64, String)>) {
    let mut note = |k: String| {
        let e = tally.entry(k).or_insert((0, tag.to_string()));
        e.0 += 1;
    };
    match no_panic(|| duke::read_class(&mut Cursor::new(bytes))) {
        Err(p) => note(format!("PANIC {p}")),
        Ok(Err(e)) => {
            if std::env::var("SURVEY_VERBOSE").is_ok() {
                println!("[{tag}] {e:#}");
            }
            note(format!("READ-ERR {}", norm(&e)))
        }
        Ok(Ok(t)) => match project(&t) {
            Err(e) => note(format!("PROJ-ERR {}", abstract_indices(&e))),
            Ok(s) => {
                let d = diff_all(truth, &s);
                if d.is_empty() {
                    note("ok".into());
                }
                for p in d {
                    note(format!("DIFF {}", abstract_indices(&p)));
                }
            }
        },
    }
}

fn main() {
    let mut tally = BTreeMap::new();
    for (name, bytes) in CORPUS {
        let truth = parse(bytes).expect("corpus parses");
        one(bytes, &truth, name, &mut tally);
    }
    println!("---- corpus ({} files)", CORPUS.len());
    for (k, (n, ex)) in &tally {
        println!("{n:6}  {k}    e.g. {ex}");
    }
    let mut tally = BTreeMap::new();
    let n: u64 = std::env::var("SURVEY_N").ok().and_then(|x| x.parse().ok()).unwrap_or(3000);
    for seed in 0..n {
        let mut r = Rng::new(seed ^ 0xC01);
        let cfg = match seed % 4 {
            0 => GenCfg::small(),
            3 => GenCfg::large(),
            _ => GenCfg::default(),
        };
        let mut m = gen_class(&mut r, &cfg);
        admit::admit(&mut m);
        if std::env::var("SURVEY_RAW").is_err() {
            admit::apply_avoid(&mut m, admit::avoid::ALL);
        }
        for k in 0..3 {
            let layout = if k == 0 { Layout::default() } else { gen_layout(&mut r) };
            let enc = encode(&m, &layout).expect("encodes");
            assert_eq!(parse(&enc.bytes).as_ref(), Ok(&m), "refclass round trip, seed {seed}");
            one(&enc.bytes, &m, &format!("seed {seed} layout {k}"), &mut tally);
        }
    }
    println!("---- generated ({n} classes x 3 layouts)");
    for (k, (n, ex)) in &tally {
        println!("{n:6}  {k}    e.g. {ex}");
    }
}

