//! Development-time survey for C01 (not a registered check): reads every corpus class and a few thousand generated
//! classes under several layouts with `duke::read_class`, projects the tree with `proj::project`, compares it
//! with the reference model and prints a tally of every kind of outcome with one example each. This is how the
//! projection was validated and where the triage list of FINDINGS-C01.md comes from.
//!   cargo run --offline --bin c01_survey            (SURVEY_N=20000 for more)
//!   cargo test --offline --bin c01_survey           (unit tests of proj.rs and c01_diff.rs; the main binary's
//!                                                    test build needs /repo's dev-dependencies and is not used)

#[path = "../c01_admit.rs"]
mod admit;
#[path = "../c01_corpus.rs"]
mod corpus;
#[path = "../c01_diff.rs"]
mod diff;
#[path = "../proj.rs"]
mod proj;

fn abstract_indices(p: &str) -> String {
    let mut out = String::new();
    let mut it = p.chars().peekable();
    while let Some(c) = it.next() {
        out.push(c);
        if c == '[' {
            let mut d = String::new();
            while let Some(x) = it.peek() {
                if x.is_ascii_digit() {
                    d.push(*x);
                    it.next();
                } else {
                    break;
                }
            }
            if !d.is_empty() && it.peek() == Some(&']') {
                out.push('*');
            } else {
                out.push_str(&d);
            }
        }
    }
    out
}
fn no_panic<T>(f: impl FnOnce() -> T) -> Result<T, String> {
    std::panic::catch_unwind(std::panic::AssertUnwindSafe(f)).map_err(|e| e.downcast_ref::<String>().cloned().or_else(|| e.downcast_ref::<&str>().map(|s| s.to_string())).unwrap_or_default())
}

use corpus::CORPUS;
use diff::diff_all;
use proj::project;
use refclass::SplitMix as Rng;
use refclass::{encode, gen_class, gen_layout, parse, GenCfg, Layout};
use std::collections::BTreeMap;
use std::io::Cursor;

fn norm(e: &anyhow::Error) -> String {
    let root = e.chain().last().map(|c| c.to_string()).unwrap_or_default();
    let mut out = String::new();
    let mut prev_digit = false;
    for ch in root.chars() {
        if ch.is_ascii_digit() {
            if !prev_digit {
                out.push('#');
            }
            prev_digit = true;
        } else {
            prev_digit = false;
            out.push(ch);
        }
    }
    out.chars().take(100).collect()
}

fn one(bytes: &[u8], truth: &refclass::Sem, tag: &str, tally: &mut BTreeMap<String, (u64, String)>) {
    let mut note = |k: String| {
        let e = tally.entry(k).or_insert((0, tag.to_string()));
        e.0 += 1;
    };
    match no_panic(|| duke::read_class(&mut Cursor::new(bytes))) {
        Err(p) => note(format!("PANIC {p}")),
        Ok(Err(e)) => {
            if std::env::var("SURVEY_VERBOSE").is_ok() {
                println!("[{tag}] {e:#}");
            }
            note(format!("READ-ERR {}", norm(&e)))
        }
        Ok(Ok(t)) => match project(&t) {
            Err(e) => note(format!("PROJ-ERR {}", abstract_indices(&e))),
            Ok(s) => {
                let d = diff_all(truth, &s);
                if d.is_empty() {
                    note("ok".into());
                }
                for p in d {
                    note(format!("DIFF {}", abstract_indices(&p)));
                }
            }
        },
    }
}

fn main() {
    let args: Vec<String> = std::env::args().collect();
    if args.get(1).map(|s| s.as_str()) == Some("craft") {
        craft(args.get(2).map(|s| s.as_str()).unwrap_or("crafted"));
        return;
    }
    let mut tally = BTreeMap::new();
    for (name, bytes) in CORPUS {
        let truth = parse(bytes).expect("corpus parses");
        one(bytes, &truth, name, &mut tally);
    }
    println!("---- corpus ({} files)", CORPUS.len());
    for (k, (n, ex)) in &tally {
        println!("{n:6}  {k}    e.g. {ex}");
    }
    let mut tally = BTreeMap::new();
    let n: u64 = std::env::var("SURVEY_N").ok().and_then(|x| x.parse().ok()).unwrap_or(3000);
    for seed in 0..n {
        let mut r = Rng::new(seed ^ 0xC01);
        let cfg = match seed % 4 {
            0 => GenCfg::small(),
            3 => GenCfg::large(),
            _ => GenCfg::default(),
        };
        let mut m = gen_class(&mut r, &cfg);
        admit::admit(&mut m);
        if seed % 3 == 0 {
            admit::misplace_names(&mut m, &mut |n| refclass::Choice::below(&mut r, n));
        }
        if std::env::var("SURVEY_RAW").is_err() {
            admit::apply_avoid(&mut m, admit::avoid::ALL);
        }
        for k in 0..3 {
            let layout = if k == 0 { Layout::default() } else { gen_layout(&mut r) };
            let enc = encode(&m, &layout).expect("encodes");
            assert_eq!(parse(&enc.bytes).as_ref(), Ok(&m), "refclass round trip, seed {seed}");
            one(&enc.bytes, &m, &format!("seed {seed} layout {k}"), &mut tally);
        }
    }
    println!("---- generated ({n} classes x 3 layouts)");
    for (k, (n, ex)) in &tally {
        println!("{n:6}  {k}    e.g. {ex}");
    }
}


// ------------------------------------------------------------------------------------------------------------------
// `c01_survey craft <dir>`: hand-made replay plans for suspected defects that a single random bit flip reaches only
// in very large methods (DESIGN.md section 6, item 5: unchecked u16 / i32 arithmetic in the code reader). Each plan is
// an ordinary C01 replay file (`./check C01 --replay <file>`): a class, one layout, one flipped bit.

fn hex(b: &[u8]) -> String {
    b.iter().map(|x| format!("{x:02x}")).collect()
}

fn layout_json(ext: u32) -> serde_json::Value {
    serde_json::json!({"seed": 0, "cp_order": 0, "cp_duplicates": 0, "cp_unused": 0, "bsm_duplicates": 0, "shuffle_attrs": false, "p_ldc_w": 0, "p_local_explicit": 0,
        "p_local_wide": 0, "p_iinc_wide": 0, "p_goto_w": 0, "frames": 0, "p_frame_extended": ext, "split_line_numbers": 1, "split_local_vars": 1, "lvt_before_lnt": false})
}

fn craft_one(dir: &str, name: &str, m: &refclass::Sem, ext: u32, span_suffix: &str, nth: usize, byte: usize, bit: u8, what: &str) {
    use refclass::enc::{FrameEnc, Layout};
    let pristine = encode(m, &Layout::default()).expect("encodes").bytes;
    assert_eq!(parse(&pristine).as_ref(), Ok(m));
    let layout = Layout { p_frame_extended: ext, frames: FrameEnc::Compact, ..Layout::default() };
    let enc = encode(m, &layout).expect("encodes");
    let span = enc.map.iter().filter(|s| s.path.ends_with(span_suffix) && (span_suffix != ".length" || s.path.contains("LocalVariableTable"))).nth(nth).unwrap_or_else(|| panic!("no span *{span_suffix} #{nth}"));
    let off = span.start + byte;
    let plan = serde_json::json!({
        "origin": format!("hand-made: {what}; flips bit {bit} of byte {byte} of `{}` (offset {off})", span.path),
        "class_hex": hex(&pristine), "raw_input": false, "layouts": [layout_json(ext)], "target": 0, "legal": null, "tail": 0,
        "faulty": {"seed": 0, "max_chunk": 0, "short_pct": 0, "eintr_pct": 0, "faults": [{"kind": "flip", "off": off, "bit": bit}]}, "aims": []});
    let file = serde_json::json!({"property": "C01", "identity": "", "note": what, "plan": plan});
    let path = format!("{dir}/{name}.json");
    std::fs::write(&path, serde_json::to_string_pretty(&file).unwrap()).unwrap();
    println!("wrote {path}");
}

fn craft(dir: &str) {
    use refclass::sem::*;
    use refclass::JStr;
    std::fs::create_dir_all(dir).unwrap();
    let class = |code: Code| Sem {
        major: 52,
        access: 0x21,
        this_class: JStr::from_str("Crafted"),
        super_class: Some(JStr::from_str("java/lang/Object")),
        methods: vec![Method { access: 0x9, name: JStr::from_str("m"), desc: JStr::from_str("()V"), code: Some(code), ..Method::default() }],
        ..Sem::default()
    };
    // (a) tableswitch: the sign bit of `low` -> `high - low` leaves i32
    let code = Code { max_stack: 1, max_locals: 0, insns: vec![Insn::Simple(3), Insn::TableSwitch { default: 2, low: 0, targets: vec![2, 2] }, Insn::Simple(177)], ..Code::default() };
    craft_one(dir, "overflow-tableswitch-high-minus-low", &class(code), 0, ".low", 0, 0, 7, "tableswitch with low=0 high=1; low becomes i32::MIN, so `high - low + 1` overflows i32");
    // big straight-line code for the u16 cases
    let big = |n: usize| -> Vec<Insn> {
        let mut v = vec![Insn::Simple(0); n];
        v.push(Insn::Simple(177));
        v
    };
    // (b) StackMapTable: offset 33000, then offset_delta 9 -> 32777: `offset += offset_delta + 1` leaves u16
    let code = Code {
        max_stack: 0,
        max_locals: 0,
        insns: big(34000),
        frames: vec![Frame { at: 33000, locals: vec![], stack: vec![] }, Frame { at: 33010, locals: vec![], stack: vec![] }],
        ..Code::default()
    };
    craft_one(dir, "overflow-frame-offset-delta", &class(code), 100, ".offset_delta", 1, 0, 7, "two same_frame_extended frames at 33000 and 33010; the second offset_delta 9 becomes 32777, so `offset += offset_delta + 1` overflows u16");
    // (c) LocalVariableTable: start_pc 33000 length 10 -> 32778: `start_pc + length` leaves u16
    let code = Code {
        max_stack: 0,
        max_locals: 1,
        insns: big(34000),
        local_vars: vec![LocalVar { start: 33000, end: 33010, name: JStr::from_str("x"), desc: JStr::from_str("I"), slot: 0 }],
        ..Code::default()
    };
    craft_one(dir, "overflow-local-variable-range", &class(code), 0, ".length", 0, 0, 7, "local variable with start_pc 33000 length 10; length becomes 32778, so `start_pc + length` overflows u16");
}
