//! The harness PRNG is the nondeterminism source of the reference generators.
impl refclass::Choice for crate::rng::Rng {
    fn below(&mut self, n: u64) -> u64 {
        crate::rng::Rng::below(self, n.max(1))
    }
}
