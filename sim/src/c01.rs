//! C01 - class reader fidelity (`duke::read_class`) through the simulated `Read + Seek` medium.
//!
//! One run = one class `M` (a `refclass::Sem`) x 1-3 byte encodings of it (layouts) x one legal I/O schedule
//! (T1) x 0-2 faults (T2). The ground truth is `M`; for corpus classes `M := refclass::parse(bytes)`.
//!
//! The plan carries the class as the hex of its canonical encoding (`refclass::encode(M, Layout::default())`,
//! or the javac bytes for a corpus class) and `exec` regenerates `M` with `refclass::parse`. Reasons: `Sem` has
//! no serde; a replay file stays valid when the generator changes; the shrinker can cut the `Sem` (drop members,
//! attributes, code tails) and re-encode; and `gen` proves `parse(encode(M)) == M` for every class it draws, so
//! a disagreement between the two halves of the reference model stops the harness instead of blaming duke.

#[path = "c01_admit.rs"]
pub mod admit;
#[path = "c01_corpus.rs"]
pub mod corpus;
#[path = "c01_diff.rs"]
pub mod diff;

use crate::engine::*;
use crate::proj::project;
use crate::rng::{Digest, Rng};
use crate::simio::*;
use admit::avoid;
use diff::diff_all;
use refclass::enc::{CpOrder, FrameEnc};
use refclass::gen::{feat, gen_big_jump_method, BigJumpKind};
use refclass::sem::*;
use refclass::{encode, gen_class, gen_layout, parse, Encoded, FieldSpan, GenCfg, Layout, Sem, SpanKind};
use serde::{Deserialize, Serialize};
use serde_json::json;
use std::collections::BTreeSet;
use std::hash::{Hash, Hasher};
use std::io::Cursor;

pub struct C01;

// ------------------------------------------------------------------------------------------------ plan

/// `refclass::Layout`, field by field, so that a replay does not depend on `gen_layout` and the shrinker can turn
/// single knobs off.
#[derive(Clone, Debug, Serialize, Deserialize, PartialEq, Default)]
pub struct LayoutP {
    pub seed: u64,
    /// 0 first use, 1 reversed, 2 shuffled
    pub cp_order: u8,
    pub cp_duplicates: u32,
    pub cp_unused: u32,
    pub bsm_duplicates: u32,
    pub shuffle_attrs: bool,
    pub p_ldc_w: u32,
    pub p_local_explicit: u32,
    pub p_local_wide: u32,
    pub p_iinc_wide: u32,
    pub p_goto_w: u32,
    /// 0 compact, 1 full, 2 mixed
    pub frames: u8,
    pub p_frame_extended: u32,
    pub split_line_numbers: u32,
    pub split_local_vars: u32,
    pub lvt_before_lnt: bool,
}
impl LayoutP {
    fn canonical() -> LayoutP {
        LayoutP::from(&Layout::default())
    }
    fn from(l: &Layout) -> LayoutP {
        LayoutP {
            seed: l.seed,
            cp_order: match l.cp_order {
                CpOrder::FirstUse => 0,
                CpOrder::Reversed => 1,
                CpOrder::Shuffled => 2,
            },
            cp_duplicates: l.cp_duplicates,
            cp_unused: l.cp_unused,
            bsm_duplicates: l.bsm_duplicates,
            shuffle_attrs: l.shuffle_attrs,
            p_ldc_w: l.p_ldc_w,
            p_local_explicit: l.p_local_explicit,
            p_local_wide: l.p_local_wide,
            p_iinc_wide: l.p_iinc_wide,
            p_goto_w: l.p_goto_w,
            frames: match l.frames {
                FrameEnc::Compact => 0,
                FrameEnc::Full => 1,
                FrameEnc::Mixed | FrameEnc::Cldc => 2,
            },
            p_frame_extended: l.p_frame_extended,
            split_line_numbers: l.split_line_numbers,
            split_local_vars: l.split_local_vars,
            lvt_before_lnt: l.lvt_before_lnt,
        }
    }
    fn layout(&self) -> Layout {
        Layout {
            seed: self.seed,
            cp_order: [CpOrder::FirstUse, CpOrder::Reversed, CpOrder::Shuffled][(self.cp_order % 3) as usize],
            cp_duplicates: self.cp_duplicates,
            cp_unused: self.cp_unused,
            bsm_duplicates: self.bsm_duplicates,
            shuffle_attrs: self.shuffle_attrs,
            p_ldc_w: self.p_ldc_w,
            p_local_explicit: self.p_local_explicit,
            p_local_wide: self.p_local_wide,
            p_iinc_wide: self.p_iinc_wide,
            p_goto_w: self.p_goto_w,
            frames: [FrameEnc::Compact, FrameEnc::Full, FrameEnc::Mixed][(self.frames % 3) as usize],
            p_frame_extended: self.p_frame_extended,
            split_line_numbers: self.split_line_numbers.max(1),
            split_local_vars: self.split_local_vars.max(1),
            lvt_before_lnt: self.lvt_before_lnt,
            emit_map: true,
        }
    }
    fn describe(&self) -> String {
        if *self == LayoutP::canonical() {
            "canonical layout".into()
        } else {
            format!(
                "layout cp={}{}{} attrs={} ldc_w={}% explicit={}% wide={}% iinc_wide={}% goto_w={}% frames={}{} lnt/{} lvt/{}{}",
                ["first-use", "reversed", "shuffled"][(self.cp_order % 3) as usize],
                if self.cp_duplicates > 0 { format!("+{}dup", self.cp_duplicates) } else { String::new() },
                if self.cp_unused > 0 { format!("+{}unused", self.cp_unused) } else { String::new() },
                if self.shuffle_attrs { "shuffled" } else { "fixed" },
                self.p_ldc_w,
                self.p_local_explicit,
                self.p_local_wide,
                self.p_iinc_wide,
                self.p_goto_w,
                ["compact", "full", "mixed"][(self.frames % 3) as usize],
                if self.p_frame_extended > 0 { format!("(ext {}%)", self.p_frame_extended) } else { String::new() },
                self.split_line_numbers,
                self.split_local_vars,
                if self.lvt_before_lnt { " lvt-first" } else { "" }
            )
        }
    }
}

#[derive(Clone, Serialize, Deserialize)]
pub struct Plan {
    /// where the class came from (information only; `class_hex` is what counts)
    pub origin: String,
    /// the pristine class file: canonical encoding of the generated `Sem`, or the javac bytes of a corpus class.
    /// Ground truth `M` = `refclass::parse` of these bytes.
    pub class_hex: String,
    /// feed the pristine bytes themselves to the reader as input 0
    pub raw_input: bool,
    /// further inputs: `refclass::encode(M, layout)`
    pub layouts: Vec<LayoutP>,
    /// index (into raw + layouts) of the input the T1 / T2 media are built over
    pub target: usize,
    /// T1: legal schedule
    pub legal: Option<IoPlan>,
    /// T1: bytes that follow the class on the medium (the reader must not touch them)
    pub tail: u16,
    /// T1: bytes that precede the class on the medium and were consumed before the read starts (an earlier record of the
    /// same stream, a container header): the reader starts at this offset and must neither touch them nor take its
    /// absolute positions for offsets inside the class (missed seeded change C01-12)
    #[serde(default)]
    pub head: u16,
    /// attrition: this many reads of the target input that FAIL (the medium ends / answers with an error at evenly
    /// spread offsets) on one thread, then the undamaged bytes once more - which must read as at T0. State that a
    /// failed read leaves behind per failure (a counter not wound back, a pooled buffer not returned) only shows after
    /// many failures (missed seeded change C01-10: 65 of them)
    #[serde(default)]
    pub attrition: u16,
    /// before anything else this thread reads (successfully) a method that has a label at every one of its 65535
    /// bytecode offsets: per-thread state that grows with what was read before (a recycled label table whose id counter
    /// runs on - missed seeded change C01-13) shows in the reads that follow
    #[serde(default)]
    pub warmup: bool,
    /// T2: legal schedule + faults
    pub faulty: Option<IoPlan>,
    /// what the faults were aimed at when they were drawn (information; feeds the probes)
    #[serde(default)]
    pub aims: Vec<String>,
}

fn hex(b: &[u8]) -> String {
    const D: &[u8; 16] = b"0123456789abcdef";
    let mut s = String::with_capacity(b.len() * 2);
    for x in b {
        s.push(D[(x >> 4) as usize] as char);
        s.push(D[(x & 15) as usize] as char);
    }
    s
}
fn unhex(s: &str) -> Vec<u8> {
    let b = s.as_bytes();
    let v = |c: u8| -> u8 {
        match c {
            b'0'..=b'9' => c - b'0',
            b'a'..=b'f' => c - b'a' + 10,
            b'A'..=b'F' => c - b'A' + 10,
            _ => panic!("plan: class_hex is not hexadecimal"),
        }
    };
    assert!(b.len() % 2 == 0, "plan: class_hex has odd length");
    b.chunks(2).map(|p| (v(p[0]) << 4) | v(p[1])).collect()
}

fn sem_hash(s: &Sem) -> u64 {
    // DefaultHasher::new() uses fixed keys: deterministic across processes
    let mut h = std::collections::hash_map::DefaultHasher::new();
    s.hash(&mut h);
    h.finish()
}

// ------------------------------------------------------------------------------------- the real call

enum Out {
    Ok(Box<Sem>),
    /// (normalised root cause, full message)
    Refused(String, String),
    /// the tree does not project (dangling label ...)
    BadTree(String),
    Panic(String),
}
impl Out {
    fn kind(&self) -> u64 {
        match self {
            Out::Ok(_) => 1,
            Out::Refused(..) => 2,
            Out::BadTree(_) => 3,
            Out::Panic(_) => 4,
        }
    }
}

/// digits -> '#', quoted / debug-printed values cut: the root cause of an anyhow chain as a stable identity
fn norm_err(e: &anyhow::Error) -> String {
    let root = e.chain().last().map(|c| c.to_string()).unwrap_or_default();
    let mut out = String::new();
    let mut prev_digit = false;
    for ch in root.chars() {
        if ch == '"' || ch == '{' || ch == '\n' {
            break;
        }
        if ch.is_ascii_digit() {
            if !prev_digit {
                out.push('#');
            }
            prev_digit = true;
        } else {
            prev_digit = false;
            out.push(if ch == '[' { '(' } else if ch == ']' { ')' } else { ch });
        }
    }
    out.trim().chars().take(90).collect()
}

fn read_real(r: &mut (impl std::io::Read + std::io::Seek)) -> Out {
    match no_panic(|| duke::read_class(r)) {
        Err(p) => Out::Panic(p),
        Ok(Err(e)) => Out::Refused(norm_err(&e), format!("{e:#}").chars().take(600).collect()),
        Ok(Ok(t)) => match no_panic(|| project(&t)) {
            Ok(Ok(s)) => Out::Ok(Box::new(s)),
            Ok(Err(e)) => Out::BadTree(e),
            Err(p) => panic!("harness: projection panicked: {p}"),
        },
    }
}

/// "file:line: message" -> "file:message" with the numbers of the message abstracted: line numbers move, and
/// `engine::panic_path` (file only) would put an overflow and a slice panic of one file under one identity.
fn panic_id(msg: &str) -> String {
    let mut it = msg.splitn(3, ':');
    let file = it.next().unwrap_or("");
    let file = file.strip_prefix("/repo/").unwrap_or(file);
    let _line = it.next();
    let text = it.next().unwrap_or("").trim();
    let mut out = String::new();
    let mut prev_digit = false;
    for ch in text.chars() {
        if ch.is_ascii_digit() {
            if !prev_digit {
                out.push('#');
            }
            prev_digit = true;
        } else {
            prev_digit = false;
            out.push(if ch == '[' { '(' } else if ch == ']' { ')' } else { ch });
        }
    }
    format!("{file}:{}", out.chars().take(70).collect::<String>())
}

/// "method[3]: code: dangling-label: exception[2] refers to ..." -> "method[3].code.dangling-label"
fn bad_tree_path(e: &str) -> String {
    let segs: Vec<&str> = e.split(": ").collect();
    let keep = segs.len().saturating_sub(1).min(3).max(1);
    segs[..keep].join(".").chars().filter(|c| !c.is_whitespace()).take(80).collect()
}

fn first_dump_diff(a: &Sem, b: &Sem) -> String {
    let da = refclass::dump::dump(a);
    let db = refclass::dump::dump(b);
    let (mut la, mut lb) = (da.lines(), db.lines());
    loop {
        match (la.next(), lb.next()) {
            (None, None) => return first_debug_diff(a, b),
            (x, y) if x == y => continue,
            (x, y) => {
                let cut = |s: Option<&str>| s.unwrap_or("<end of listing>").trim().chars().take(150).collect::<String>();
                return format!("reference `{}` vs duke `{}`", cut(x), cut(y));
            }
        }
    }
}

/// fallback for the parts `dump` does not list (module, record, parameter annotations ...): first differing line of
/// the pretty Debug output, with the nearest enclosing struct line for context
fn first_debug_diff(a: &Sem, b: &Sem) -> String {
    let da = format!("{a:#?}");
    let db = format!("{b:#?}");
    let la: Vec<&str> = da.lines().collect();
    let lb: Vec<&str> = db.lines().collect();
    for i in 0..la.len().max(lb.len()) {
        let (x, y) = (la.get(i).copied().unwrap_or("<end>"), lb.get(i).copied().unwrap_or("<end>"));
        if x != y {
            let indent = |s: &str| s.len() - s.trim_start().len();
            let ctx = la[..i.min(la.len())].iter().rev().find(|l| indent(l) < indent(x) && l.trim_end().ends_with(['{', '(', '['])).map(|l| l.trim()).unwrap_or("");
            let cut = |s: &str| s.trim().chars().take(120).collect::<String>();
            return format!("in `{}`: reference `{}` vs duke `{}`", cut(ctx), cut(x), cut(y));
        }
    }
    "(no textual difference found)".into()
}

// ------------------------------------------------------------------------------------------ generator

struct Input {
    desc: String,
    enc: Encoded,
}

fn build_inputs(p: &Plan, pristine: &[u8], m: &Sem) -> Result<Vec<Input>, String> {
    let mut v = vec![];
    if p.raw_input {
        // for a generated class the pristine bytes are the canonical encoding, whose offset map can be had again
        let enc = match encode(m, &Layout::default()) {
            Ok(e) if e.bytes == pristine => e,
            _ => Encoded { bytes: pristine.to_vec(), map: vec![] },
        };
        v.push(Input { desc: if enc.map.is_empty() { "pristine bytes (javac)".into() } else { "pristine bytes (canonical layout)".into() }, enc });
    }
    for l in &p.layouts {
        let enc = encode(m, &l.layout()).map_err(|e| format!("refclass cannot encode the class under {}: {e}", l.describe()))?;
        v.push(Input { desc: l.describe(), enc });
    }
    if v.is_empty() {
        return Err("plan has no input".into());
    }
    Ok(v)
}

fn u16_at(b: &[u8], at: usize) -> u64 {
    ((b[at] as u64) << 8) | b[at + 1] as u64
}

/// index of the `seek` call that jumps back to the field table: marker + one skip per member + one skip per
/// member attribute, then the marker taken by `with_pos`
fn seek_back_call(enc: &Encoded) -> u32 {
    let mut n = 1u64; // fields_start marker
    for s in &enc.map {
        if s.kind == SpanKind::Count && (s.path.starts_with("field[") || s.path.starts_with("method[")) && s.path.ends_with("].attributes.count") && s.path.matches('.').count() == 2 {
            n += 1 + u16_at(&enc.bytes, s.start);
        }
    }
    (n + 1) as u32
}

fn spans_where<'a>(enc: &'a Encoded, f: impl Fn(&FieldSpan) -> bool) -> Vec<&'a FieldSpan> {
    enc.map.iter().filter(|s| s.len > 0 && f(s)).collect()
}
fn is_primitive(k: &SpanKind) -> bool {
    matches!(k, SpanKind::Count | SpanKind::Length | SpanKind::CpIndex | SpanKind::BranchOffset | SpanKind::CodeOffset | SpanKind::Tag | SpanKind::Flags | SpanKind::Opcode | SpanKind::Other)
}

fn draw_fault(f: &mut Rng, enc: &Encoded, st_aim: &mut Vec<&'static str>) -> Fault {
    let len = enc.bytes.len() as u64;
    let aimed = !enc.map.is_empty() && f.chance(65);
    let within = |f: &mut Rng, s: &FieldSpan| s.start as u64 + f.below(s.len as u64);
    match f.below(10) {
        // ---- EIO at the first touch of an offset
        0 | 1 | 2 => {
            let off = if aimed {
                match f.below(4) {
                    0 => {
                        st_aim.push("aimed.pool");
                        spans_where(enc, |s| s.kind == SpanKind::ConstantPool).first().map(|s| within(f, s)).unwrap_or(0)
                    }
                    1 | 2 => {
                        let codes = spans_where(enc, |s| matches!(s.kind, SpanKind::CodeAttr(_)));
                        if codes.is_empty() {
                            f.below(len + 1)
                        } else {
                            st_aim.push("aimed.code");
                            let s = codes[f.usize(codes.len())];
                            within(f, s)
                        }
                    }
                    _ => {
                        // the member tables: skipped by seeking in the first pass, read after the seek back
                        let ms = spans_where(enc, |s| matches!(s.kind, SpanKind::Field(_) | SpanKind::Method(_)));
                        if ms.is_empty() {
                            f.below(len + 1)
                        } else {
                            st_aim.push("aimed.member_table");
                            let s = ms[f.usize(ms.len())];
                            within(f, s)
                        }
                    }
                }
            } else {
                f.below(len + 1)
            };
            Fault::EioAtOffset { off }
        }
        // ---- EIO at read call n (duke issues roughly one read per two bytes)
        3 | 4 => Fault::Eio { at_call: f.below(len * 6 / 10 + 4) as u32, sticky: f.chance(60) },
        // ---- torn file
        5 | 6 => {
            let at = if aimed {
                let s = &enc.map[f.usize(enc.map.len())];
                st_aim.push("aimed.eof_at_span_edge");
                (s.start as u64 + if f.chance(50) { 0 } else { s.len as u64 }).min(len.saturating_sub(1))
            } else if f.chance(30) {
                len.saturating_sub(1 + f.below(8))
            } else {
                f.below(len)
            };
            Fault::Eof { at }
        }
        // ---- seek failure
        7 => {
            let back = seek_back_call(enc);
            let at_call = if aimed {
                st_aim.push("aimed.seek_back");
                match f.below(4) {
                    0 => back.saturating_sub(1),
                    1 | 2 => back,
                    _ => back + 1,
                }
            } else {
                f.below(back as u64 + 12) as u32
            };
            Fault::SeekFail { at_call }
        }
        // ---- one flipped bit
        _ => {
            if aimed {
                // half of the aimed flips go to the fields the reader does arithmetic on (offsets, lengths, counts,
                // switch bounds) and there prefer the most significant byte
                let arith = |s: &FieldSpan| matches!(s.kind, SpanKind::CodeOffset | SpanKind::BranchOffset | SpanKind::Count | SpanKind::Length) || s.path.ends_with(".low") || s.path.ends_with(".high") || s.path.ends_with(".npairs");
                let pool: Vec<&FieldSpan> = if f.chance(50) { spans_where(enc, |s| is_primitive(&s.kind) && arith(s)) } else { vec![] };
                let (s, hot) = if pool.is_empty() {
                    let prims = spans_where(enc, |s| is_primitive(&s.kind));
                    (prims[f.usize(prims.len())], false)
                } else {
                    st_aim.push("aimed.flip_in_arithmetic_field");
                    (pool[f.usize(pool.len())], true)
                };
                st_aim.push("aimed.flip_in_field");
                let mut off = if hot && f.chance(60) { s.start as u64 } else { within(f, s) };
                let mut bit = if hot && f.chance(50) { 7 - f.below(2) as u8 } else { f.below(8) as u8 };
                if s.kind == SpanKind::Length && s.len == 4 && off < s.start as u64 + 2 {
                    // never invent a length above 65535: the allocation it would size belongs to C16's child sandbox
                    off = s.start as u64 + 2;
                    bit = f.below(8) as u8;
                }
                Fault::Flip { off, bit }
            } else {
                Fault::Flip { off: f.below(len.max(1)), bit: f.below(8) as u8 }
            }
        }
    }
}

fn gen_cfg(w: &mut Rng, tier: Tier) -> (GenCfg, &'static str) {
    let (max_members, max_insns, name) = match (w.below(100), tier) {
        (0..=34, _) => (2, 12, "small"),
        (35..=79, _) => (4, 40, "default"),
        (80..=94, _) => (6, 120, "medium"),
        (_, Tier::Quick) => (8, 400, "large"),
        (95..=97, Tier::Thorough) => (8, 400, "large"),
        (_, Tier::Thorough) => (12, 6000, "huge"),
    };
    let features = if w.chance(35) {
        feat::ALL
    } else {
        let mut f = 0;
        for b in 0..20 {
            if w.chance(if b == 0 { 92 } else { 72 }) {
                f |= 1 << b;
            }
        }
        f
    };
    let (major_min, major_max) = if w.chance(45) {
        (45, 67)
    } else {
        let m = w.range(45, 67) as u16;
        (m, m)
    };
    (GenCfg { max_members, max_insns, features, major_min, major_max }, name)
}

impl C01 {
    fn draw_class(&self, w: &mut Rng, tier: Tier) -> (String, Vec<u8>, bool) {
        // ---- corpus
        if w.chance(12) {
            let (name, bytes) = corpus::CORPUS[w.usize(corpus::CORPUS.len())];
            return (format!("corpus {name}"), bytes.to_vec(), true);
        }
        // ---- generated
        let big_pct = match tier {
            Tier::Quick => 3,
            Tier::Thorough => 20,
        };
        for _attempt in 0..8 {
            let (mut m, origin) = if w.below(1000) < big_pct {
                let kind = *w.pick(&BigJumpKind::ALL);
                let bj = gen_big_jump_method(w, kind);
                if bj.needs_trampoline {
                    continue;
                }
                (bj.sem, format!("gen big-jump {kind:?}"))
            } else {
                let (cfg, size) = gen_cfg(w, tier);
                let seed = w.next();
                let m = gen_class(&mut Rng::new(seed), &cfg);
                (m, format!("gen seed={seed} size={size} features={:#x} major={}..={}", cfg.features, cfg.major_min, cfg.major_max))
            };
            admit::admit(&mut m);
            let origin = if w.chance(4) {
                extremes(&mut m, w);
                format!("{origin} +extremes")
            } else {
                origin
            };
            let misplaced = if w.chance(25) { admit::misplace_names(&mut m, &mut |n| w.below(n)) } else { 0 };
            let mask = match w.below(10) {
                0 => 0,
                1 => avoid::EXC_END_AT_CODE_END,
                2 => avoid::NEWEST_PREVIEW_MINOR,
                _ => avoid::ALL,
            };
            admit::apply_avoid(&mut m, mask);
            match encode(&m, &Layout::default()) {
                Ok(enc) => {
                    // the two halves of the reference model must agree before duke is judged by either
                    match parse(&enc.bytes) {
                        Ok(back) if back == m => return (format!("{origin} avoid={mask} misplaced-names={misplaced}"), enc.bytes, false),
                        Ok(back) => panic!("harness: refclass parse(encode(M)) != M at {:?} ({origin})", m.diff(&back)),
                        Err(e) => panic!("harness: refclass cannot parse its own encoding: {e:?} ({origin})"),
                    }
                }
                Err(_) => continue, // pool overflow / code too long for this draw: draw again
            }
        }
        // eight unencodable draws in a row do not happen; fall back to a corpus class rather than to nothing
        let (name, bytes) = corpus::CORPUS[0];
        (format!("corpus {name}"), bytes.to_vec(), true)
    }
}

/// Values at the limits of the format: a 255-dimension array type, a Utf8 constant of (nearly) 65535 bytes, a long
/// class name, immediates at their extremes.
fn extremes(m: &mut refclass::Sem, w: &mut Rng) {
    use refclass::sem::{Const, Field, Insn};
    use refclass::JStr;
    match w.below(4) {
        0 => {
            let dims = *w.pick(&[254usize, 255]);
            let mut d = vec![b'['; dims];
            d.extend_from_slice(if w.chance(50) { b"I" } else { b"Ljava/lang/Object;" });
            m.fields.push(Field { access: 0x0002, name: JStr::from_str("manyDims"), desc: JStr(d), ..Default::default() });
        }
        1 => {
            let len = *w.pick(&[65535usize, 65534, 32768, 4096]);
            let text = JStr(vec![b'x'; len]);
            if let Some(c) = m.methods.iter_mut().filter_map(|me| me.code.as_mut()).next() {
                c.insns.insert(0, Insn::Ldc(Const::String(text)));
                c.insns.insert(1, Insn::Simple(refclass::op::POP));
                // every index stored in the code moves by two
                crate::c02::for_each_index(c, &mut |i| *i += 2);
                c.max_stack = c.max_stack.max(1);
            } else {
                m.source_file = Some(text);
            }
        }
        2 => {
            let mut n = String::from("p");
            for i in 0..w.range(50, 400) {
                n.push_str(&format!("/seg{i}"));
            }
            m.interfaces.push(JStr::from_str(&n));
        }
        _ => {
            if let Some(c) = m.methods.iter_mut().filter_map(|me| me.code.as_mut()).next() {
                let pop = Insn::Simple(refclass::op::POP);
                let add: Vec<Insn> = vec![Insn::SiPush(i16::MIN), pop.clone(), Insn::SiPush(i16::MAX), pop.clone(), Insn::BiPush(i8::MIN), pop.clone(), Insn::Ldc(Const::Int(i32::MIN)), pop.clone(), Insn::Ldc(Const::Long(i64::MIN)), Insn::Simple(88), Insn::Iinc(0, i16::MIN), Insn::Iinc(65535, i16::MAX)];
                let n = add.len();
                for (k, i) in add.into_iter().enumerate() {
                    c.insns.insert(k, i);
                }
                crate::c02::for_each_index(c, &mut |i| *i += n);
                c.max_stack = c.max_stack.max(2);
                c.max_locals = 65535;
            }
        }
    }
}

// --------------------------------------------------------------------------------------------- engine

impl Engine for C01 {
    type Plan = Plan;
    fn id(&self) -> &'static str {
        "C01"
    }
    fn runs(&self, tier: Tier) -> u64 {
        match tier {
            Tier::Quick => 30_000,
            Tier::Thorough => 250_000,
        }
    }

    fn gen(&self, rng: &mut Rng, tier: Tier, _run: u64) -> Plan {
        let mut w = rng.split("workload");
        let mut s = rng.split("schedule");
        let mut f = rng.split("faults");
        let (origin, pristine, is_corpus) = self.draw_class(&mut w, tier);
        let m = parse(&pristine).unwrap_or_else(|e| panic!("harness: refclass cannot parse {origin}: {e:?}"));
        let nl = if is_corpus { w.range(1, 2) } else { w.range(1, 3) };
        let mut layouts = vec![];
        let mut raw_input = is_corpus;
        for i in 0..nl {
            if !is_corpus && i == 0 && w.chance(30) {
                raw_input = true; // canonical layout = the pristine bytes
                continue;
            }
            let l = LayoutP::from(&gen_layout(&mut w));
            if encode(&m, &l.layout()).is_ok() {
                layouts.push(l);
            }
        }
        // a pool filled towards its 65535 slots, shuffled, so that live entries get indices beyond 255 and 32767
        let big_pool_permille = match tier {
            Tier::Quick => 1,
            Tier::Thorough => 25,
        };
        if w.below(1000) < big_pool_permille && pristine.len() < 20_000 {
            let mut l = LayoutP::from(&gen_layout(&mut w));
            l.cp_order = 2;
            for unused in [38_000u32, 30_000, 20_000, 8_000] {
                l.cp_unused = unused;
                if encode(&m, &l.layout()).is_ok() {
                    layouts.push(l);
                    break;
                }
            }
        }
        if !raw_input && layouts.is_empty() {
            raw_input = true;
        }
        let n_inputs = raw_input as usize + layouts.len();
        // the fault target must have an offset map: prefer an encoded input
        let target = if !layouts.is_empty() { raw_input as usize + w.usize(layouts.len()) } else { 0 };
        debug_assert!(target < n_inputs);
        let mut p = Plan { origin, class_hex: hex(&pristine), raw_input, layouts, target, legal: None, tail: 0, head: 0, attrition: 0, warmup: false, faulty: None, aims: vec![] };
        p.warmup = rng.split("warmup").chance(2);
        if s.chance(75) {
            p.legal = Some(IoPlan::gen_legal(&mut s));
            if s.chance(50) {
                p.tail = s.range(1, 24) as u16;
            }
        }
        {
            let mut a = rng.split("attrition");
            if a.chance(3) {
                p.attrition = a.range(70, 260) as u16;
            }
        }
        {
            let mut h = rng.split("head");
            if p.legal.is_some() && h.chance(40) {
                p.head = match h.below(4) {
                    0 => 1,
                    1 => h.range(2, 16) as u16,
                    2 => h.range(17, 600) as u16,
                    _ => pristine.len().min(60_000) as u16, // as if the same class had been read just before
                };
            }
        }
        if f.chance(60) {
            let enc = build_inputs(&p, &pristine, &m).expect("inputs encode").swap_remove(p.target).enc;
            let mut io = if f.chance(50) { IoPlan::gen_legal(&mut f) } else { IoPlan::plain() };
            let mut aims = vec![];
            for _ in 0..f.range(1, 2) {
                io.faults.push(draw_fault(&mut f, &enc, &mut aims));
            }
            p.faulty = Some(io);
            p.aims = aims.into_iter().map(String::from).collect();
        }
        p
    }

    fn exec(&self, p: &Plan, st: &mut RunStats) -> Vec<Violation> {
        if p.warmup {
            static HEAVY: std::sync::OnceLock<Vec<u8>> = std::sync::OnceLock::new();
            let heavy = HEAVY.get_or_init(|| crate::c16::special_bytes("max-labels", 65_535));
            match read_real(&mut Cursor::new(&heavy[..])) {
                Out::Ok(_) => st.probe("warmup_label_heavy_read"),
                _ => st.probe("warmup_refused"),
            }
        }
        let mut out: Vec<Violation> = vec![];
        let mut obs = Digest::new();
        let pristine = unhex(&p.class_hex);
        let m = match parse(&pristine) {
            Ok(m) => m,
            Err(e) => panic!("harness: the plan's class does not parse under refclass: {e:?}"),
        };
        let inputs = match build_inputs(p, &pristine, &m) {
            Ok(v) => v,
            Err(e) => panic!("harness: {e}"),
        };
        st.shape = sem_hash(&m) ^ (inputs.len() as u64);
        workload_probes(&m, &inputs, p, st);

        // ---------------- T0: plain medium, every input against M, and the inputs against each other
        st.tier("T0");
        let mut t0: Vec<Out> = vec![];
        let mut t0_paths: Vec<BTreeSet<String>> = vec![];
        for inp in inputs.iter() {
            let mut cur = Cursor::new(&inp.enc.bytes[..]);
            let o = read_real(&mut cur);
            obs.u64(o.kind());
            let mut paths = BTreeSet::new();
            match &o {
                Out::Panic(pm) => out.push(Violation::new("T0", "panic", format!("read:{}", panic_id(pm)), format!("{pm} [{}]", inp.desc))),
                Out::Refused(n, full) => {
                    st.probe("t0.refused");
                    out.push(Violation::new("T0", "refused-wellformed", format!("read:{n}"), format!("{full} [{}; {}]", inp.desc, p.origin)));
                }
                Out::BadTree(e) => out.push(Violation::new("T0", "invalid-output", format!("tree:{}", bad_tree_path(e)), format!("{e} [{}]", inp.desc))),
                Out::Ok(s) => {
                    st.probe("t0.ok");
                    obs.u64(sem_hash(s));
                    let d = diff_all(&m, s);
                    let first = if d.is_empty() { String::new() } else { first_dump_diff(&m, s) };
                    for path in d {
                        paths.insert(abstract_indices(&path));
                        out.push(Violation::new("T0", "semantic-mismatch", path, format!("first difference of the listings: {first} [{}; {}]", inp.desc, p.origin)));
                    }
                    if paths.is_empty() {
                        st.probe("t0.exact");
                    }
                    if cur.position() != inp.enc.bytes.len() as u64 {
                        out.push(Violation::new("T0", "stream-position", "read.position", format!("position {} after Ok, class length {}", cur.position(), inp.enc.bytes.len())));
                    }
                }
            }
            t0.push(o);
            t0_paths.push(paths);
        }
        // the same class under another layout must read the same (also when both differ from M in a known way)
        for j in 1..inputs.len() {
            match (&t0[0], &t0[j]) {
                (Out::Ok(a), Out::Ok(b)) => {
                    if let Some(path) = a.diff(b) {
                        out.push(Violation::new("T0", "semantic-mismatch", format!("layout-dependence.{path}"), format!("`{}` and `{}` of one class read differently: {}", inputs[0].desc, inputs[j].desc, first_dump_diff(a, b))));
                    }
                }
                (a, b) if a.kind() == b.kind() => {}
                (a, b) => out.push(Violation::new("T0", "semantic-mismatch", "layout-dependence.result", format!("`{}` gives result kind {} but `{}` gives result kind {} (1 Ok, 2 refused, 3 tree does not project, 4 panic)", inputs[0].desc, a.kind(), inputs[j].desc, b.kind()))),
            }
        }
        let tj = p.target.min(inputs.len() - 1);
        let tb = &inputs[tj].enc.bytes;

        // ---------------- the same class with its frames carried in the older CLDC `StackMap` attribute (absolute offsets,
        // full frames, entries in descending order): the reader reports the same frames as for the StackMapTable form
        // (missed seeded change C01-17). T0 only: the reference PARSER does not model that attribute.
        if m.methods.iter().any(|me| me.code.as_ref().is_some_and(|c| c.frames.len() >= 2)) && out.is_empty() {
            let layout = Layout { frames: FrameEnc::Cldc, ..Layout::default() };
            if let Ok(enc) = encode(&m, &layout) {
                st.probe("t0.cldc_stack_map");
                match read_real(&mut Cursor::new(&enc.bytes[..])) {
                    Out::Panic(pm) => out.push(Violation::new("T0", "panic", format!("read:{}", panic_id(&pm)), format!("{pm} [frames in a CLDC StackMap attribute]"))),
                    Out::Refused(n, full) => out.push(Violation::new("T0", "refused-wellformed", format!("read-cldc-stackmap:{n}"), full)),
                    Out::BadTree(e) => out.push(Violation::new("T0", "invalid-output", format!("tree:{}", bad_tree_path(&e)), format!("{e} [frames in a CLDC StackMap attribute]"))),
                    Out::Ok(s) => {
                        for path in diff_all(&m, &s) {
                            out.push(Violation::new("T0", "semantic-mismatch", format!("cldc-stackmap.{path}"), format!("frames carried in a CLDC StackMap attribute: {}", first_dump_diff(&m, &s))));
                        }
                    }
                }
            }
        }

        // ---------------- T1: legal behaviours only - identical result, exact byte accounting
        if let Some(io) = &p.legal {
            let io = IoPlan { faults: vec![], ..io.clone() };
            st.tier("T1");
            let head = p.head as usize;
            let mut medium: Vec<u8> = (0..head).map(|i| 0x5A ^ (i as u8).wrapping_mul(29)).collect();
            if head > 0 && (head == tb.len() || head % 3 == 0) {
                // the preceding record is the class itself (a reader that jumps back too far lands in a well-formed twin)
                medium = tb.iter().cycle().take(head).copied().collect();
            }
            medium.extend_from_slice(tb);
            if head > 0 {
                st.probe("t1.head_bytes");
            }
            for i in 0..p.tail {
                medium.push(0xCA ^ (i as u8).wrapping_mul(37));
            }
            if p.tail > 0 {
                st.probe("t1.tail_bytes");
            }
            let mut src = SimReader::new(&medium, &io);
            src.start_at(head as u64);
            let o = read_real(&mut src);
            st.io(&src.stats, src.log);
            obs.u64(o.kind());
            if src.fuel_exhausted {
                out.push(Violation::new("T1", "runaway", "read", "fuel exhausted"));
            }
            match (&t0[tj], &o) {
                (_, Out::Panic(pm)) => out.push(Violation::new("T1", "panic", format!("read:{}", panic_id(pm)), pm.clone())),
                (Out::Ok(a), Out::Ok(b)) => {
                    obs.u64(sem_hash(b));
                    if let Some(path) = a.diff(b) {
                        out.push(Violation::new("T1", "schedule-dependence", format!("read.{path}"), format!("{} [{:?}]", first_dump_diff(a, b), io)));
                    }
                }
                (a, b) if a.kind() == b.kind() => {}
                (a, b) => out.push(Violation::new("T1", "schedule-dependence", "read.result", format!("plain medium gives result kind {}, schedule {:?} gives kind {}{}", a.kind(), io, b.kind(), if let Out::Refused(_, full) = b { format!(": {full}") } else { String::new() }))),
            }
            if let Out::Ok(_) = &o {
                let len = head as u64 + tb.len() as u64;
                if let Some(m) = src.stats.min_read_pos {
                    if m < head as u64 {
                        out.push(Violation::new("T1", "stream-position", "read.before-start", format!("a read started at offset {m}, the class starts at offset {head}")));
                    }
                }
                if src.position() != len {
                    out.push(Violation::new("T1", "stream-position", "read.position", format!("position {} after Ok, class length {} ({} bytes follow the class)", src.position(), len, p.tail)));
                }
                if src.stats.max_pos > len {
                    out.push(Violation::new("T1", "stream-position", "read.beyond-end", format!("bytes up to offset {} were read, class length {}", src.stats.max_pos, len)));
                }
            }
        }

        // ---------------- T2: faults - Err, or Ok equal to the reference reading of what the medium delivered
        if let Some(io) = &p.faulty {
            st.tier("T2");
            for a in &p.aims {
                for k in ["aimed.pool", "aimed.code", "aimed.member_table", "aimed.eof_at_span_edge", "aimed.seek_back", "aimed.flip_in_field", "aimed.flip_in_arithmetic_field"] {
                    if a == k {
                        st.probe(k);
                    }
                }
            }
            let mut src = SimReader::new(tb, io);
            let o = read_real(&mut src);
            st.io(&src.stats, src.log);
            obs.u64(o.kind());
            let fired = !src.stats.fired.is_empty();
            if src.fuel_exhausted {
                out.push(Violation::new("T2", "runaway", "read", format!("fuel exhausted [{:?}]", io.faults)));
            }
            match &o {
                Out::Panic(pm) => out.push(Violation::new("T2", "panic", format!("read:{}", panic_id(pm)), format!("{pm} [{:?}; {}]", io.faults, inputs[tj].desc))),
                Out::Refused(..) => {
                    st.probe("t2.err");
                    if fired && src.stats.seeks_back > 0 {
                        st.probe("t2.err_in_second_pass");
                    }
                }
                Out::BadTree(e) => {
                    // only bytes damaged beyond well-formedness may lead here; otherwise it is a wrong answer
                    if src.delivered() == &tb[..] || refclass::validate(src.delivered()).is_ok() {
                        out.push(Violation::new("T2", "reader-ok-with-wrong-data", format!("tree:{}", bad_tree_path(e)), format!("{e} [{:?}]", io.faults)));
                    } else {
                        st.probe("t2.ok_tree_not_a_class");
                    }
                }
                Out::Ok(s) => {
                    obs.u64(sem_hash(s));
                    let io_error_returned = src.stats.fired.iter().any(|k| k.starts_with("eio") || *k == "seek_fail");
                    if io_error_returned {
                        st.probe("t2.ok_after_io_error");
                    }
                    match parse(src.delivered()) {
                        // damaged bytes that are no longer a well-formed class file (undefined flag bits, an element value
                        // out of its range, an offset inside an instruction ...): the property says nothing about them
                        Ok(_) if src.delivered() != &tb[..] && refclass::validate(src.delivered()).is_err() => st.probe("lenient_accept_not_wellformed"),
                        Ok(mut r) => {
                            let mut s = s.clone();
                            if src.delivered() != &tb[..] {
                                admit::mask_undefined_flags(&mut r);
                                admit::mask_undefined_flags(&mut s);
                            }
                            let s = &s;
                            if src.delivered() == &tb[..] {
                                st.probe("t2.ok_pristine_delivery");
                            } else {
                                st.probe("t2.ok_on_damaged_but_wellformed_medium");
                            }
                            // differences this very input already shows on the plain medium are T0's business
                            let mut fresh = 0;
                            for path in diff_all(&r, s) {
                                if !t0_paths[tj].contains(&abstract_indices(&path)) {
                                    fresh += 1;
                                    out.push(Violation::new("T2", "reader-ok-with-wrong-data", format!("read.{path}"), format!("{} [{:?}]", first_dump_diff(&r, s), io.faults)));
                                }
                            }
                            if fresh == 0 && src.delivered() != &tb[..] {
                                st.probe("t2.ok_on_damaged_medium_agrees");
                            }
                        }
                        Err(e) => {
                            st.probe("lenient_accept");
                            let prefix = e.what.split(':').next().unwrap_or("");
                            if let Some(name) = LENIENT.iter().find(|n| n.strip_prefix("lenient_accept.") == Some(prefix)) {
                                st.probe(name);
                            }
                        }
                    }
                }
            }
            // heal: the undamaged bytes read as at T0
            let again = read_real(&mut Cursor::new(&tb[..]));
            let same = match (&t0[tj], &again) {
                (Out::Ok(a), Out::Ok(b)) => a == b,
                (a, b) => a.kind() == b.kind(),
            };
            if !same {
                out.push(Violation::new("T2", "residue-after-heal", "read", "re-reading the undamaged bytes differs from the first plain read"));
            }
        }
        // ---------------- attrition: many failing reads on this thread, then the undamaged bytes
        if p.attrition > 0 && !tb.is_empty() {
            st.tier("T2");
            st.probe("attrition_runs");
            st.nontrivial = true;
            let n = p.attrition as u64;
            let mut failed = 0u64;
            for k in 0..n {
                let at = (k + 1) * tb.len() as u64 / (n + 1);
                let io = IoPlan { faults: vec![if k % 2 == 0 { Fault::Eof { at } } else { Fault::EioAtOffset { off: at } }], ..IoPlan::plain() };
                let mut src = SimReader::new(tb, &io);
                match read_real(&mut src) {
                    Out::Panic(pm) => {
                        out.push(Violation::new("T2", "panic", format!("read:{}", panic_id(&pm)), pm));
                        break;
                    }
                    Out::Refused(..) => failed += 1,
                    _ => {}
                }
            }
            st.probe_n("attrition_failed_reads", failed);
            st.events += n;
            st.sched.u64(0xA77 ^ n);
            let again = read_real(&mut Cursor::new(&tb[..]));
            let same = match (&t0[tj], &again) {
                (Out::Ok(a), Out::Ok(b)) => a == b,
                (a, b) => a.kind() == b.kind(),
            };
            if !same {
                out.push(Violation::new("T2", "residue-after-heal", "read.after-many-failures", format!("after {failed} failed reads on this thread the undamaged bytes no longer read as before{}", if let Out::Refused(_, full) = &again { format!(": {full}") } else { String::new() })));
            }
        }
        st.obs = obs;
        // one violation per identity and run
        let mut seen = BTreeSet::new();
        out.retain(|v| seen.insert(v.identity()));
        out
    }

    fn shrink(&self, p: &Plan) -> Vec<Plan> {
        let mut c: Vec<Plan> = vec![];
        let n_inputs = p.raw_input as usize + p.layouts.len();
        // ---- fewer inputs
        if n_inputs > 1 {
            // keep only the target
            let mut q = p.clone();
            if p.raw_input && p.target == 0 {
                q.layouts.clear();
            } else {
                let keep = p.layouts[p.target - p.raw_input as usize].clone();
                q.layouts = vec![keep];
                q.raw_input = false;
            }
            q.target = 0;
            c.push(q);
            for i in 0..p.layouts.len() {
                let idx = i + p.raw_input as usize;
                let mut q = p.clone();
                q.layouts.remove(i);
                q.target = if p.target == idx { 0 } else if p.target > idx { p.target - 1 } else { p.target };
                c.push(q);
            }
            if p.raw_input {
                let mut q = p.clone();
                q.raw_input = false;
                q.target = p.target.saturating_sub(1);
                c.push(q);
            }
        }
        // ---- fewer tiers
        if p.legal.is_some() {
            let mut q = p.clone();
            q.legal = None;
            q.tail = 0;
            q.head = 0;
            c.push(q);
        }
        if p.faulty.is_some() {
            let mut q = p.clone();
            q.faulty = None;
            c.push(q);
        }
        // ---- canonical layouts
        for i in 0..p.layouts.len() {
            if p.layouts[i] != LayoutP::canonical() {
                let mut q = p.clone();
                q.layouts[i] = LayoutP::canonical();
                c.push(q);
            }
        }
        // ---- a simpler class
        let pristine = unhex(&p.class_hex);
        if let Ok(m) = parse(&pristine) {
            for cut in shrink_sem(&m) {
                if let Ok(enc) = encode(&cut, &Layout::default()) {
                    if parse(&enc.bytes).as_ref() == Ok(&cut) && enc.bytes.len() < pristine.len() && p.layouts.iter().all(|l| encode(&cut, &l.layout()).is_ok()) {
                        let mut q = p.clone();
                        q.class_hex = hex(&enc.bytes);
                        if !q.origin.ends_with(" (cut)") {
                            q.origin.push_str(" (cut)");
                        }
                        c.push(q);
                    }
                }
            }
        }
        // ---- calmer media
        if let Some(io) = &p.legal {
            for io in shrink_io(io) {
                let mut q = p.clone();
                q.legal = Some(io);
                c.push(q);
            }
            if p.tail > 0 {
                let mut q = p.clone();
                q.tail = 0;
                c.push(q);
            }
            if p.head > 0 {
                let mut q = p.clone();
                q.head = 0;
                c.push(q);
                if p.head > 1 {
                    let mut q = p.clone();
                    q.head = 1;
                    c.push(q);
                }
            }
        }
        if p.warmup {
            let mut q = p.clone();
            q.warmup = false;
            c.push(q);
        }
        if p.attrition > 0 {
            let mut q = p.clone();
            q.attrition = 0;
            c.push(q);
            if p.attrition > 70 {
                let mut q = p.clone();
                q.attrition = 70.max(p.attrition / 2);
                c.push(q);
            }
        }
        if let Some(io) = &p.faulty {
            for io in shrink_io(io) {
                if io.faults.is_empty() {
                    continue; // that is "drop T2", offered above
                }
                let mut q = p.clone();
                q.faulty = Some(io);
                c.push(q);
            }
        }
        // ---- single layout knobs
        for i in 0..p.layouts.len() {
            let l = &p.layouts[i];
            let canon = LayoutP::canonical();
            macro_rules! knob {
                ($f:ident) => {
                    if l.$f != canon.$f {
                        let mut q = p.clone();
                        q.layouts[i].$f = canon.$f.clone();
                        c.push(q);
                    }
                };
            }
            knob!(cp_order);
            knob!(cp_duplicates);
            knob!(cp_unused);
            knob!(bsm_duplicates);
            knob!(shuffle_attrs);
            knob!(p_ldc_w);
            knob!(p_local_explicit);
            knob!(p_local_wide);
            knob!(p_iinc_wide);
            knob!(p_goto_w);
            knob!(frames);
            knob!(p_frame_extended);
            knob!(split_line_numbers);
            knob!(split_local_vars);
            knob!(lvt_before_lnt);
        }
        c
    }

    fn size(&self, p: &Plan) -> (u64, u64) {
        ((p.class_hex.len() / 2) as u64 * (p.raw_input as u64 + p.layouts.len() as u64), p.faulty.as_ref().map_or(0, |f| f.faults.len() as u64))
    }
    fn rule(&self) -> String {
        "one run = one class M (refclass::gen_class swarm over size class, 20 feature bits, major 45..=67, big-jump methods; or one of 140 javac classes with M := refclass::parse) x 1-3 inputs (pristine bytes and/or refclass::encode(M, layout): pool order/duplicates/unused entries, attribute order, ldc/ldc_w, xload_n/xload/wide, iinc/wide iinc, goto/goto_w, frame encodings, split debug tables; switch paddings follow from the code offsets) x one legal schedule (chunk ceiling, short %, EINTR %, 0-24 trailing bytes) x 0-2 faults (EIO at offset aimed into the pool / a Code attribute / the member tables, EIO at call n, EOF, seek failure aimed at the seek back, one flipped bit aimed at a field of the offset map). T0: pi(read(input)) compared with M component by component (every differing component is reported, not only the first), inputs compared with each other; T1: same projection, position == class length, no byte beyond it read; T2: Err, or Ok equal to refclass::parse(delivered bytes) on every component that is exact at T0, no panic, no runaway, re-read of the pristine bytes unchanged. A run counts as non-trivial when a short read, EINTR or fault fired; distinct by (hash of M and input count, I/O event-log digest)".into()
    }
    fn assumptions(&self) -> Vec<String> {
        vec![
            "well-formed = accepted by refclass::validate plus two JVMS rules its generator does not enforce: Fieldref owners are not array types (4.4.2) and SourceDebugExtension is a modified-UTF-8 string (4.7.11); generated classes are rewritten accordingly before use (c01_admit.rs)".into(),
            "workload switch `avoid` (c01_admit.rs): in 7 of 10 generated runs exception ranges ending at code_length and version 67.65535 are taken out of the class, because duke refuses such files and a refused read hides every other fact of the class; the remaining runs keep them and report the refusal".into(),
            "the projection states what duke's tree holds; where the tree has no place for a fact (parameter annotations, an empty Record attribute) the projection yields `absent`, which is reported as a difference".into(),
            "T2: components that already differ for the same input on the plain medium are not reported again under T2; duke Ok on damaged bytes that refclass::parse rejects (lenient_accept) or that refclass::validate no longer calls well-formed (lenient_accept_not_wellformed) is counted, not flagged - the property quantifies over well-formed files; flag bits without a JVMS meaning are masked on both sides when the medium delivered damaged bytes".into(),
            "a flipped bit never lands in the upper half of a 4-byte length field (allocation limits are C16's subject and need its child sandbox)".into(),
            "harness profile: opt-level 2 with overflow checks and debug assertions (arithmetic semantics of the repository's test profile)".into(),
        ]
    }
    fn real_and_stub(&self) -> serde_json::Value {
        json!({
            "real": ["duke::read_class", "duke::class_reader::{read, read_field, read_method, read_code, pool::PoolRead, labels::Labels}", "duke tree-building visitors (visitor/implementations/tree.rs)", "java_string::JavaString::from_modified_utf8", "std read_exact / Seek"],
            "stub": ["byte source with seek (SimReader); plain std::io::Cursor at T0"],
            "reference": ["refclass::{gen_class, gen_layout, encode, parse, Sem, expand_frames, initial_locals}", "proj::project (duke tree -> Sem, through duke's `verif` accessors)"],
        })
    }
    fn expected_probes(&self) -> Vec<&'static str> {
        vec![
            "t0.ok",
            "t0.exact",
            "w.corpus",
            "w.generated",
            "w.frames",
            "w.switch",
            "w.switch_pad0",
            "w.switch_pad1",
            "w.switch_pad2",
            "w.switch_pad3",
            "w.indy",
            "w.condy",
            "w.module",
            "w.record",
            "w.jsr_ret",
            "w.exc_end_at_code_end",
            "w.local_vars",
            "w.code_type_annotations",
            "w.unknown_attrs",
            "w.predefined_name_at_undefined_location",
            "w.code_over_32k",
            "l.goto_w",
            "l.wide",
            "l.ldc_w",
            "l.cp_not_first_use",
            "l.attrs_shuffled",
            "l.frames_full",
            "l.pool_filled",
            "io.short_transfers",
            "io.eintr",
            "io.seek_back",
            "io.eintr_after_seek_back",
            "t1.tail_bytes",
            "t2.err",
            "t2.err_in_second_pass",
            "t2.ok_pristine_delivery",
            "t2.ok_on_damaged_medium_agrees",
            "lenient_accept",
            "lenient_accept_not_wellformed",
        ]
    }
}

/// reasons for which refclass refuses bytes that duke accepted under a fault (informative tally; never a violation)
const LENIENT: [&str; 29] = [
    "lenient_accept.magic",
    "lenient_accept.truncated",
    "lenient_accept.trailing-bytes",
    "lenient_accept.cp-count",
    "lenient_accept.cp-tag",
    "lenient_accept.cp-index-range",
    "lenient_accept.cp-index-kind",
    "lenient_accept.cp-handle-kind",
    "lenient_accept.cp-cycle",
    "lenient_accept.bootstrap",
    "lenient_accept.attr-length",
    "lenient_accept.attr-duplicate",
    "lenient_accept.code-length",
    "lenient_accept.opcode",
    "lenient_accept.insn-operand",
    "lenient_accept.invokeinterface-count",
    "lenient_accept.switch",
    "lenient_accept.branch-target",
    "lenient_accept.exception-range",
    "lenient_accept.line-number",
    "lenient_accept.local-var",
    "lenient_accept.frame",
    "lenient_accept.frame-offset",
    "lenient_accept.type-annotation-offset",
    "lenient_accept.type-annotation-target",
    "lenient_accept.element-value-tag",
    "lenient_accept.annotation-depth",
    "lenient_accept.utf8",
    "lenient_accept.version",
];

fn workload_probes(m: &Sem, inputs: &[Input], p: &Plan, st: &mut RunStats) {
    st.probe(if p.origin.starts_with("corpus") { "w.corpus" } else { "w.generated" });
    if p.origin.contains("+extremes") {
        st.probe("w.extremes");
    }
    st.probe_n("w.inputs", inputs.len() as u64);
    if m.module.is_some() {
        st.probe("w.module");
    }
    if p.origin.contains("misplaced-names=") && !p.origin.contains("misplaced-names=0") {
        st.probe("w.predefined_name_at_undefined_location");
    }
    if m.record.is_some() {
        st.probe("w.record");
    }
    if !m.unknown.is_empty() || m.methods.iter().any(|x| !x.unknown.is_empty() || x.code.as_ref().is_some_and(|c| !c.unknown.is_empty())) || m.fields.iter().any(|x| !x.unknown.is_empty()) {
        st.probe("w.unknown_attrs");
    }
    let mut switches = 0u64;
    for c in m.methods.iter().filter_map(|x| x.code.as_ref()) {
        if !c.frames.is_empty() {
            st.probe("w.frames");
        }
        if c.exceptions.iter().any(|e| e.end == c.insns.len()) {
            st.probe("w.exc_end_at_code_end");
        }
        if !c.local_vars.is_empty() || !c.local_var_types.is_empty() {
            st.probe("w.local_vars");
        }
        if !c.type_annotations.visible.is_empty() || !c.type_annotations.invisible.is_empty() {
            st.probe("w.code_type_annotations");
        }
        for i in &c.insns {
            match i {
                Insn::TableSwitch { .. } | Insn::LookupSwitch { .. } => {
                    st.probe("w.switch");
                    switches += 1;
                }
                Insn::InvokeDynamic(_) => st.probe("w.indy"),
                Insn::Ldc(Const::Dynamic(_)) => st.probe("w.condy"),
                Insn::Jsr(_) | Insn::Ret(_) => st.probe("w.jsr_ret"),
                _ => {}
            }
        }
    }
    for inp in inputs {
        let mut padded = 0u64;
        for s in &inp.enc.map {
            match (&s.kind, s.len) {
                (SpanKind::Other, n @ 1..=3) if s.path.ends_with(".padding") => {
                    padded += 1;
                    st.probe(["", "w.switch_pad1", "w.switch_pad2", "w.switch_pad3"][n]);
                }
                (SpanKind::Opcode, _) if s.path.ends_with(".wide") => st.probe("l.wide"),
                (SpanKind::Opcode, 1) if matches!(inp.enc.bytes[s.start], 200 | 201) => st.probe("l.goto_w"),
                (SpanKind::Opcode, 1) if inp.enc.bytes[s.start] == 19 => st.probe("l.ldc_w"),
                (SpanKind::CodeBytes(_), n) if n > 32767 => st.probe("w.code_over_32k"),
                _ => {}
            }
        }
        if !inp.enc.map.is_empty() {
            st.probe_n("w.switch_pad0", switches.saturating_sub(padded));
        }
    }
    for l in &p.layouts {
        if l.cp_order != 0 {
            st.probe("l.cp_not_first_use");
        }
        if l.shuffle_attrs {
            st.probe("l.attrs_shuffled");
        }
        if l.frames == 1 {
            st.probe("l.frames_full");
        }
        if l.cp_unused >= 8_000 {
            st.probe("l.pool_filled");
        }
    }
}

// ------------------------------------------------------------------------------------- class shrinking

/// keeps `insns[..k]`; `None` if a kept instruction jumps beyond. Tables lose the entries that point beyond.
fn truncate_code(c: &Code, k: usize) -> Option<Code> {
    if k == 0 || k >= c.insns.len() {
        return None;
    }
    let mut d = c.clone();
    d.insns.truncate(k);
    if d.insns.iter().any(|i| i.targets().iter().any(|t| *t >= k)) {
        return None;
    }
    d.exceptions.retain(|e| e.start < k && e.end <= k && e.handler < k);
    if d.exceptions.len() != c.exceptions.len() {
        let n = d.exceptions.len();
        let keep = |t: &TypeAnnotation| !matches!(t.target, Target::Catch(i) if i as usize >= n);
        d.type_annotations.visible.retain(keep);
        d.type_annotations.invisible.retain(keep);
    }
    d.line_numbers.retain(|l| l.at < k);
    d.local_vars.retain(|l| l.start < k && l.end <= k);
    d.local_var_types.retain(|l| l.start < k && l.end <= k);
    let vt_ok = |v: &VType| !matches!(v, VType::Uninitialized(at) if *at >= k);
    d.frames.retain(|f| f.at < k && f.locals.iter().all(vt_ok) && f.stack.iter().all(vt_ok));
    d.frames_raw = NotCompared(vec![]);
    let ta_ok = |t: &TypeAnnotation| match &t.target {
        Target::Offset { at, .. } | Target::TypeArgument { at, .. } => *at < k,
        Target::LocalVar { table, .. } => table.iter().all(|r| r.start < k && r.end <= k),
        _ => true,
    };
    d.type_annotations.visible.retain(ta_ok);
    d.type_annotations.invisible.retain(ta_ok);
    Some(d)
}

fn shrink_sem(m: &Sem) -> Vec<Sem> {
    let mut c: Vec<Sem> = vec![];
    let push = |c: &mut Vec<Sem>, q: Sem| {
        if q != *m {
            c.push(q);
        }
    };
    // members: all, halves, singles
    if !m.methods.is_empty() {
        let mut q = m.clone();
        q.methods.clear();
        push(&mut c, q);
    }
    if !m.fields.is_empty() {
        let mut q = m.clone();
        q.fields.clear();
        push(&mut c, q);
    }
    if m.methods.len() > 2 {
        let h = m.methods.len() / 2;
        let mut q = m.clone();
        q.methods.truncate(h);
        push(&mut c, q);
        let mut q = m.clone();
        q.methods.drain(..h);
        push(&mut c, q);
    }
    for i in 0..m.methods.len() {
        let mut q = m.clone();
        q.methods.remove(i);
        push(&mut c, q);
    }
    for i in 0..m.fields.len() {
        let mut q = m.clone();
        q.fields.remove(i);
        push(&mut c, q);
    }
    // class level attributes
    {
        let mut q = m.clone();
        q.source_file = None;
        q.source_debug_extension = None;
        q.inner_classes = None;
        q.enclosing_method = None;
        q.signature = None;
        q.synthetic = false;
        q.deprecated = false;
        q.annotations = Annotations::default();
        q.type_annotations = TypeAnnotations::default();
        q.nest_host = None;
        q.nest_members = None;
        q.permitted_subclasses = None;
        q.unknown.clear();
        q.interfaces.clear();
        push(&mut c, q);
    }
    macro_rules! class_cut {
        ($($f:ident = $v:expr),*) => {{ let mut q = m.clone(); $( q.$f = $v; )* push(&mut c, q); }};
    }
    class_cut!(source_file = None);
    class_cut!(source_debug_extension = None);
    class_cut!(inner_classes = None);
    class_cut!(enclosing_method = None);
    class_cut!(signature = None);
    class_cut!(annotations = Annotations::default());
    class_cut!(type_annotations = TypeAnnotations::default());
    class_cut!(nest_host = None, nest_members = None, permitted_subclasses = None);
    class_cut!(record = None);
    class_cut!(module_packages = None, module_main_class = None);
    class_cut!(unknown = vec![]);
    class_cut!(interfaces = vec![]);
    if let Some(r) = &m.record {
        for i in 0..r.len() {
            let mut q = m.clone();
            q.record.as_mut().unwrap().remove(i);
            push(&mut c, q);
        }
    }
    if let Some(md) = &m.module {
        let mut q = m.clone();
        *q.module.as_mut().unwrap() = Module { name: md.name.clone(), flags: md.flags, ..Module::default() };
        push(&mut c, q);
    }
    // per field
    for i in 0..m.fields.len() {
        let f = &m.fields[i];
        let bare = Field { access: f.access, name: f.name.clone(), desc: f.desc.clone(), ..Field::default() };
        let mut q = m.clone();
        q.fields[i] = bare;
        push(&mut c, q);
    }
    // per method
    for i in 0..m.methods.len() {
        let x = &m.methods[i];
        {
            // everything but the code
            let mut q = m.clone();
            q.methods[i] = Method { access: x.access, name: x.name.clone(), desc: x.desc.clone(), code: x.code.clone(), ..Method::default() };
            push(&mut c, q);
        }
        macro_rules! method_cut {
            ($($f:ident = $v:expr),*) => {{ let mut q = m.clone(); $( q.methods[i].$f = $v; )* push(&mut c, q); }};
        }
        method_cut!(code = None);
        method_cut!(exceptions = None);
        method_cut!(method_parameters = None);
        method_cut!(annotation_default = None);
        method_cut!(parameter_annotations = ParamAnnotations::default());
        method_cut!(annotations = Annotations::default());
        method_cut!(type_annotations = TypeAnnotations::default());
        method_cut!(signature = None);
        method_cut!(unknown = vec![]);
        if let Some(code) = &x.code {
            macro_rules! code_cut {
                ($($f:ident = $v:expr),*) => {{ let mut q = m.clone(); { let cc = q.methods[i].code.as_mut().unwrap(); $( cc.$f = $v; )* cc.frames_raw = NotCompared(vec![]); } push(&mut c, q); }};
            }
            code_cut!(exceptions = vec![], line_numbers = vec![], local_vars = vec![], local_var_types = vec![], frames = vec![], type_annotations = TypeAnnotations::default(), unknown = vec![]);
            code_cut!(line_numbers = vec![]);
            code_cut!(local_vars = vec![]);
            code_cut!(local_var_types = vec![]);
            code_cut!(frames = vec![]);
            code_cut!(type_annotations = TypeAnnotations::default());
            code_cut!(unknown = vec![]);
            if !code.exceptions.is_empty() {
                let keep = |t: &TypeAnnotation| !matches!(t.target, Target::Catch(_));
                let mut q = m.clone();
                let cc = q.methods[i].code.as_mut().unwrap();
                cc.exceptions.clear();
                cc.type_annotations.visible.retain(keep);
                cc.type_annotations.invisible.retain(keep);
                push(&mut c, q);
            }
            let n = code.insns.len();
            let mut ks = vec![1, n / 4, n / 2, n * 3 / 4, n.saturating_sub(1)];
            ks.dedup();
            for k in ks {
                if let Some(t) = truncate_code(code, k) {
                    let mut q = m.clone();
                    q.methods[i].code = Some(t);
                    push(&mut c, q);
                }
            }
            // single table entries
            for j in 0..code.exceptions.len().min(8) {
                if code.type_annotations.visible.iter().chain(&code.type_annotations.invisible).any(|t| matches!(t.target, Target::Catch(_))) {
                    break;
                }
                let mut q = m.clone();
                q.methods[i].code.as_mut().unwrap().exceptions.remove(j);
                push(&mut c, q);
            }
            for j in 0..code.local_vars.len().min(8) {
                let mut q = m.clone();
                q.methods[i].code.as_mut().unwrap().local_vars.remove(j);
                push(&mut c, q);
            }
        }
    }
    c
}
