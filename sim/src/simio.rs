//! The simulated byte media: `SimReader` (Read + Seek) and `SimWriter` (Write [+ Seek]).
//!
//! Every call into the medium is an event. Legal behaviours (full / short / Interrupted) are drawn from
//! the plan's own PRNG stream; faults are explicit entries in the plan. The behaviour of a medium is a
//! pure function of (`IoPlan`, the sequence of calls made on it) - nothing else.

use crate::rng::{Digest, Rng};
use serde::{Deserialize, Serialize};
use std::io::{self, Read, Seek, SeekFrom, Write};

#[derive(Clone, Debug, Serialize, Deserialize, PartialEq)]
#[serde(tag = "kind", rename_all = "snake_case")]
pub enum Fault {
    // ---- reader side
    /// `read` call number `at_call` (0-based, counting read calls only) fails with EIO. sticky: every later one too.
    Eio { at_call: u32, sticky: bool },
    /// the first read that would deliver the byte at `off` (or beyond) fails with EIO (sticky)
    EioAtOffset { off: u64 },
    /// the read that would deliver the byte at `off` fails once (bytes before it are delivered first); the retry
    /// succeeds; a reader that seeks over the byte never meets the fault
    EioOnceAtOffset { off: u64 },
    /// stored data ends at `at` (torn file / crash during the writer's life)
    Eof { at: u64 },
    /// stored byte flipped before the run
    Flip { off: u64, bit: u8 },
    /// `len` stored bytes from `off` on read as zero (a field of a header wiped: a size that says 0, a checksum of 0)
    Zero { off: u64, len: u8 },
    /// `seek` call number `at_call` fails
    SeekFail { at_call: u32 },
    // ---- writer side
    /// disk full once `after_bytes` have been accepted: partial acceptance up to the limit, then ENOSPC
    Enospc { after_bytes: u64 },
    /// `write` call number `at_call` fails with EIO
    WriteEio { at_call: u32, sticky: bool },
    /// `write` call number `at_call` (and all later) returns Ok(0)
    WriteZero { at_call: u32 },
    /// every `flush` fails
    FlushErr,
}

impl Fault {
    pub fn kind(&self) -> &'static str {
        match self {
            Fault::Eio { .. } => "eio",
            Fault::EioAtOffset { .. } => "eio_at_offset",
            Fault::EioOnceAtOffset { .. } => "eio_once_at_offset",
            Fault::Eof { .. } => "eof",
            Fault::Flip { .. } => "flip",
            Fault::Zero { .. } => "zero_field",
            Fault::SeekFail { .. } => "seek_fail",
            Fault::Enospc { .. } => "enospc",
            Fault::WriteEio { .. } => "write_eio",
            Fault::WriteZero { .. } => "write_zero",
            Fault::FlushErr => "flush_err",
        }
    }
}

#[derive(Clone, Debug, Serialize, Deserialize, PartialEq, Default)]
pub struct IoPlan {
    /// seed of the schedule stream (legal behaviours only)
    pub seed: u64,
    /// ceiling for one transfer; 0 = unlimited
    pub max_chunk: u32,
    /// percentage of calls answered short (1 <= k < request)
    pub short_pct: u8,
    /// percentage of calls answered `Interrupted` (never more than 3 in a row)
    pub eintr_pct: u8,
    #[serde(default)]
    pub faults: Vec<Fault>,
    /// which `io::ErrorKind` the medium's errors carry (EIO at call / offset, failed seek, write error, flush error;
    /// a full disk is always ENOSPC): 0 = drawn from `seed` (half of the plans EIO, the others InvalidData, TimedOut,
    /// UnexpectedEof, PermissionDenied, a custom `Other`), n > 0 = kind n - 1 of `ERR_KINDS`
    #[serde(default)]
    pub err_kind: u8,
}

pub const ERR_LABELS: [&str; 6] = ["errkind.eio", "errkind.invalid_data", "errkind.timed_out", "errkind.unexpected_eof", "errkind.permission_denied", "errkind.custom_other"];
pub const ERR_KINDS: [&str; 6] = ["eio", "invalid_data", "timed_out", "unexpected_eof", "permission_denied", "custom_other"];

impl IoPlan {
    /// index into `ERR_KINDS`
    pub fn kind(&self) -> u8 {
        if self.err_kind != 0 {
            return (self.err_kind - 1) % ERR_KINDS.len() as u8;
        }
        const TABLE: [u8; 10] = [0, 0, 0, 0, 0, 1, 2, 3, 4, 5];
        TABLE[((self.seed ^ (self.seed >> 17) ^ (self.seed >> 41)) % 10) as usize]
    }
    fn error(&self) -> io::Error {
        match self.kind() {
            1 => io::Error::new(io::ErrorKind::InvalidData, "sim: stream is corrupt"),
            2 => io::Error::new(io::ErrorKind::TimedOut, "sim: timed out"),
            3 => io::Error::new(io::ErrorKind::UnexpectedEof, "sim: unexpected end of stream"),
            4 => io::Error::new(io::ErrorKind::PermissionDenied, "sim: permission denied"),
            5 => io::Error::new(io::ErrorKind::Other, "sim: custom error"),
            _ => eio(),
        }
    }
    pub fn plain() -> IoPlan {
        IoPlan::default()
    }
    pub fn is_plain(&self) -> bool {
        self.max_chunk == 0 && self.short_pct == 0 && self.eintr_pct == 0 && self.faults.is_empty()
    }
    pub fn legal_only(&self) -> bool {
        self.faults.is_empty()
    }
    /// Draws a legal-behaviour schedule ("swarm": each run gets its own mix).
    pub fn gen_legal(rng: &mut Rng) -> IoPlan {
        const CHUNKS: [u32; 9] = [0, 1, 2, 3, 7, 64, 8191, 8192, 8193];
        let style = rng.below(5);
        IoPlan {
            seed: rng.next(),
            max_chunk: if style == 0 { 0 } else { *rng.pick(&CHUNKS) },
            short_pct: match style {
                0 => 0,
                1 => 100,
                _ => rng.below(60) as u8,
            },
            eintr_pct: match style {
                0 => 0,
                _ => *rng.pick(&[0u8, 0, 5, 20, 50]),
            },
            faults: vec![],
            err_kind: 0,
        }
    }
    /// the same plan with every non-default legal behaviour removed (shrinker step)
    pub fn calm(&self) -> IoPlan {
        IoPlan { seed: 0, max_chunk: 0, short_pct: 0, eintr_pct: 0, faults: self.faults.clone(), err_kind: self.kind() + 1 }
    }
}

#[derive(Clone, Debug, Default)]
pub struct IoStats {
    pub calls: u64,
    pub reads: u64,
    pub writes: u64,
    pub seeks: u64,
    pub seeks_back: u64,
    pub flushes: u64,
    pub shorts: u64,
    pub eintrs: u64,
    pub bytes: u64,
    pub fired: Vec<&'static str>,
    pub max_pos: u64,
    /// lowest offset any read call started at (None: nothing read)
    pub min_read_pos: Option<u64>,
    /// an Interrupted answered while the position was behind the maximum reached (i.e. after a seek back)
    pub eintr_after_seek_back: u64,
}

fn eio() -> io::Error {
    io::Error::from_raw_os_error(5)
}
fn enospc() -> io::Error {
    io::Error::from_raw_os_error(28)
}

pub struct SimReader {
    data: Vec<u8>,
    pos: u64,
    plan: IoPlan,
    rng: Rng,
    eintr_run: u32,
    read_calls: u32,
    seek_calls: u32,
    eio_sticky: bool,
    eio_off: Option<u64>,
    once_off: Option<u64>,
    pub stats: IoStats,
    pub log: Digest,
    /// step fuel: calls allowed before the medium refuses with an error (runaway guard)
    pub fuel: u64,
    pub fuel_exhausted: bool,
}

impl SimReader {
    pub fn new(data: &[u8], plan: &IoPlan) -> SimReader {
        let mut data = data.to_vec();
        let mut eio_off = None;
        let mut once_off = None;
        let mut fired = vec![];
        for f in &plan.faults {
            match f {
                Fault::Flip { off, bit } => {
                    if (*off as usize) < data.len() {
                        data[*off as usize] ^= 1 << (bit & 7);
                        fired.push("flip");
                    }
                }
                Fault::Zero { off, len } => {
                    let (a, b) = (*off as usize, (*off as usize + *len as usize).min(data.len()));
                    if a < b && data[a..b].iter().any(|x| *x != 0) {
                        data[a..b].fill(0);
                        fired.push("zero_field");
                    }
                }
                Fault::Eof { at } => {
                    if (*at as usize) < data.len() {
                        data.truncate(*at as usize);
                        fired.push("eof");
                    }
                }
                Fault::EioAtOffset { off } => eio_off = Some(eio_off.map_or(*off, |o: u64| o.min(*off))),
                Fault::EioOnceAtOffset { off } => once_off = Some(*off),
                _ => {}
            }
        }
        let fuel = 200_000 + 64 * data.len() as u64;
        SimReader {
            data,
            pos: 0,
            rng: Rng::new(plan.seed),
            plan: plan.clone(),
            eintr_run: 0,
            read_calls: 0,
            seek_calls: 0,
            eio_sticky: false,
            eio_off,
            once_off,
            stats: IoStats { fired, ..Default::default() },
            log: Digest::new(),
            fuel,
            fuel_exhausted: false,
        }
    }
    /// What the medium holds after the stored-data faults (flip, truncation) were applied.
    pub fn delivered(&self) -> &[u8] {
        &self.data
    }
    pub fn position(&self) -> u64 {
        self.pos
    }
    /// Places the stream at `pos` without an event: the caller has consumed what lies before (an earlier record of the
    /// same stream). `stats.min_read_pos` then tells whether anything before it was read.
    pub fn start_at(&mut self, pos: u64) {
        self.pos = pos;
        self.stats.min_read_pos = None;
    }
    fn burn(&mut self) -> io::Result<()> {
        self.stats.calls += 1;
        if self.stats.calls > self.fuel {
            self.fuel_exhausted = true;
            return Err(io::Error::new(io::ErrorKind::Other, "sim: fuel exhausted"));
        }
        Ok(())
    }
}

impl Read for SimReader {
    fn read(&mut self, buf: &mut [u8]) -> io::Result<usize> {
        self.burn()?;
        let call = self.read_calls;
        self.read_calls += 1;
        self.stats.reads += 1;
        self.log.u64(1);
        self.log.u64(buf.len() as u64);
        // faults first
        if self.eio_sticky {
            self.log.u64(0xE10);
            return Err(self.plan.error());
        }
        for f in &self.plan.faults {
            if let Fault::Eio { at_call, sticky } = f {
                if *at_call == call {
                    self.eio_sticky = *sticky;
                    self.stats.fired.push("eio");
                    self.stats.fired.push(ERR_LABELS[self.plan.kind() as usize]);
                    self.log.u64(0xE10);
                    return Err(self.plan.error());
                }
            }
        }
        let avail = (self.data.len() as u64).saturating_sub(self.pos);
        let mut k = (buf.len() as u64).min(avail);
        if k > 0 {
            if self.plan.eintr_pct > 0 && self.eintr_run < 3 && self.rng.below(100) < self.plan.eintr_pct as u64 {
                self.eintr_run += 1;
                self.stats.eintrs += 1;
                if self.pos < self.stats.max_pos {
                    self.stats.eintr_after_seek_back += 1;
                }
                self.log.u64(0xE147);
                return Err(io::Error::from(io::ErrorKind::Interrupted));
            }
            self.eintr_run = 0;
            if self.plan.max_chunk > 0 {
                k = k.min(self.plan.max_chunk as u64);
            }
            if k > 1 && self.plan.short_pct > 0 && self.rng.below(100) < self.plan.short_pct as u64 {
                k = 1 + self.rng.below(k - 1);
            }
            if k < (buf.len() as u64).min(avail) {
                self.stats.shorts += 1;
            }
            if let Some(off) = self.once_off {
                // only a read that covers the byte itself: a reader that seeks over it never meets the bad sector
                if self.pos <= off && self.pos + k > off {
                    if self.pos == off {
                        self.once_off = None;
                        self.stats.fired.push("eio");
                        self.stats.fired.push("eio_once_at_offset");
                        self.log.u64(0xE11);
                        return Err(self.plan.error());
                    }
                    k = off - self.pos;
                }
            }
            if let Some(off) = self.eio_off {
                if self.pos + k > off {
                    if self.pos >= off {
                        self.stats.fired.push("eio_at_offset");
                    self.stats.fired.push(ERR_LABELS[self.plan.kind() as usize]);
                        self.eio_sticky = true;
                        self.log.u64(0xE10);
                        return Err(self.plan.error());
                    }
                    k = off - self.pos; // deliver what lies before the bad sector
                }
            }
        }
        let k = k as usize;
        if k == 0 {
            // end of data (or a position beyond it after a seek past the end)
            self.log.u64(0);
            return Ok(0);
        }
        let p = self.pos as usize;
        if p > self.data.len() {
            // the consumer seeked beyond the end of the data (legal for `Seek`) and reads there: end of file
            self.log.u64(0);
            return Ok(0);
        }
        buf[..k].copy_from_slice(&self.data[p..p + k]);
        self.stats.min_read_pos = Some(self.stats.min_read_pos.map_or(self.pos, |m| m.min(self.pos)));
        self.pos += k as u64;
        self.stats.bytes += k as u64;
        self.stats.max_pos = self.stats.max_pos.max(self.pos);
        self.log.u64(k as u64);
        Ok(k)
    }
}

impl Seek for SimReader {
    fn seek(&mut self, to: SeekFrom) -> io::Result<u64> {
        self.burn()?;
        let call = self.seek_calls;
        self.seek_calls += 1;
        self.stats.seeks += 1;
        self.log.u64(2);
        for f in &self.plan.faults {
            if let Fault::SeekFail { at_call } = f {
                if *at_call == call {
                    self.stats.fired.push("seek_fail");
                    self.stats.fired.push(ERR_LABELS[self.plan.kind() as usize]);
                    self.log.u64(0xE10);
                    return Err(self.plan.error());
                }
            }
        }
        let new = match to {
            SeekFrom::Start(p) => Some(p),
            SeekFrom::Current(d) => self.pos.checked_add_signed(d),
            SeekFrom::End(d) => (self.data.len() as u64).checked_add_signed(d),
        };
        match new {
            Some(p) => {
                if p < self.pos {
                    self.stats.seeks_back += 1;
                }
                self.pos = p;
                self.log.u64(p);
                Ok(p)
            }
            None => Err(io::Error::new(io::ErrorKind::InvalidInput, "sim: seek before start")),
        }
    }
}

/// calls a sink answers before it declares the writer a runaway (the largest legitimate writer, a jar of a few
/// hundred KiB written one byte per call, stays far below)
pub const WRITER_FUEL: u64 = 3_000_000;
thread_local! {
    /// set when a `SimWriter` on this thread ran out of fuel; read and reset by the engine after each run
    pub static SINK_RUNAWAY: std::cell::Cell<bool> = const { std::cell::Cell::new(false) };
}

pub struct SimWriter {
    accepted: Vec<u8>,
    pos: u64,
    plan: IoPlan,
    rng: Rng,
    eintr_run: u32,
    write_calls: u32,
    eio_sticky: bool,
    zero_sticky: bool,
    limit: Option<u64>,
    flush_err: bool,
    pub last_event_was_ok_flush: bool,
    pub stats: IoStats,
    pub log: Digest,
    pub any_error_returned: bool,
}

impl SimWriter {
    pub fn new(plan: &IoPlan) -> SimWriter {
        let mut limit = None;
        let mut flush_err = false;
        for f in &plan.faults {
            match f {
                Fault::Enospc { after_bytes } => limit = Some(limit.map_or(*after_bytes, |l: u64| l.min(*after_bytes))),
                Fault::FlushErr => flush_err = true,
                _ => {}
            }
        }
        SimWriter {
            accepted: vec![],
            pos: 0,
            rng: Rng::new(plan.seed ^ 0x5157),
            plan: plan.clone(),
            eintr_run: 0,
            write_calls: 0,
            eio_sticky: false,
            zero_sticky: false,
            limit,
            flush_err,
            last_event_was_ok_flush: false,
            stats: IoStats::default(),
            log: Digest::new(),
            any_error_returned: false,
        }
    }
    /// "what the disk holds"
    pub fn accepted(&self) -> &[u8] {
        &self.accepted
    }
    pub fn into_accepted(self) -> Vec<u8> {
        self.accepted
    }
    fn put(&mut self, b: &[u8]) {
        let p = self.pos as usize;
        if p > self.accepted.len() {
            self.accepted.resize(p, 0);
        }
        let overlap = (self.accepted.len() - p).min(b.len());
        self.accepted[p..p + overlap].copy_from_slice(&b[..overlap]);
        self.accepted.extend_from_slice(&b[overlap..]);
        self.pos += b.len() as u64;
    }
}

impl Write for SimWriter {
    fn write(&mut self, buf: &[u8]) -> io::Result<usize> {
        self.stats.calls += 1;
        self.stats.writes += 1;
        if self.stats.calls > WRITER_FUEL {
            // a writer that keeps calling a sink which accepts nothing (or fails) is a runaway, not a schedule
            SINK_RUNAWAY.with(|c| c.set(true));
            return Err(io::Error::new(io::ErrorKind::Other, "sim: sink fuel exhausted"));
        }
        self.last_event_was_ok_flush = false;
        let call = self.write_calls;
        self.write_calls += 1;
        self.log.u64(3);
        self.log.u64(buf.len() as u64);
        if self.eio_sticky {
            self.any_error_returned = true;
            return Err(self.plan.error());
        }
        if self.zero_sticky && !buf.is_empty() {
            return Ok(0);
        }
        for f in &self.plan.faults {
            match f {
                Fault::WriteEio { at_call, sticky } if *at_call == call => {
                    self.eio_sticky = *sticky;
                    self.stats.fired.push("write_eio");
                    self.stats.fired.push(ERR_LABELS[self.plan.kind() as usize]);
                    self.any_error_returned = true;
                    self.log.u64(0xE10);
                    return Err(self.plan.error());
                }
                Fault::WriteZero { at_call } if *at_call <= call && !buf.is_empty() => {
                    self.zero_sticky = true;
                    self.stats.fired.push("write_zero");
                    self.log.u64(0);
                    return Ok(0);
                }
                _ => {}
            }
        }
        let mut k = buf.len() as u64;
        if k > 0 {
            if self.plan.eintr_pct > 0 && self.eintr_run < 3 && self.rng.below(100) < self.plan.eintr_pct as u64 {
                self.eintr_run += 1;
                self.stats.eintrs += 1;
                self.log.u64(0xE147);
                return Err(io::Error::from(io::ErrorKind::Interrupted));
            }
            self.eintr_run = 0;
            if self.plan.max_chunk > 0 {
                k = k.min(self.plan.max_chunk as u64);
            }
            if k > 1 && self.plan.short_pct > 0 && self.rng.below(100) < self.plan.short_pct as u64 {
                k = 1 + self.rng.below(k - 1);
            }
            if let Some(l) = self.limit {
                // bytes that overwrite what the sink already holds need no new room (a full disk still rewrites
                // allocated blocks); only growth is limited
                let end = self.accepted.len() as u64;
                let inside = end.saturating_sub(self.pos);
                let room = inside.saturating_add(l.saturating_sub(end.max(self.pos)));
                if room == 0 {
                    if !self.stats.fired.contains(&"enospc") {
                        self.stats.fired.push("enospc");
                    }
                    self.any_error_returned = true;
                    self.log.u64(0xE28);
                    return Err(enospc());
                }
                k = k.min(room);
            }
            if k < buf.len() as u64 {
                self.stats.shorts += 1;
            }
        }
        let k = k as usize;
        self.put(&buf[..k]);
        self.stats.bytes += k as u64;
        self.log.u64(k as u64);
        Ok(k)
    }
    /// A sink with a real gather write: the slices count as one run of bytes, and the number accepted (drawn like for
    /// `write`: chunk ceiling, short transfers, room left) may end inside any of them - what `writev` on a pipe, a
    /// socket or a nearly full disk does (missed seeded change C02-11: the tail behind a partly taken slice dropped).
    fn write_vectored(&mut self, bufs: &[io::IoSlice<'_>]) -> io::Result<usize> {
        let nonempty = bufs.iter().filter(|b| !b.is_empty()).count();
        if nonempty <= 1 {
            return self.write(bufs.iter().find(|b| !b.is_empty()).map(|b| &**b).unwrap_or(&[]));
        }
        let mut all = Vec::with_capacity(bufs.iter().map(|b| b.len()).sum());
        for b in bufs {
            all.extend_from_slice(b);
        }
        self.log.u64(0x5EC7);
        self.log.u64(nonempty as u64);
        self.write(&all)
    }
    fn flush(&mut self) -> io::Result<()> {
        self.stats.calls += 1;
        self.stats.flushes += 1;
        self.log.u64(4);
        if self.flush_err {
            if !self.stats.fired.contains(&"flush_err") {
                self.stats.fired.push("flush_err");
            }
            self.any_error_returned = true;
            self.last_event_was_ok_flush = false;
            return Err(self.plan.error());
        }
        self.last_event_was_ok_flush = true;
        Ok(())
    }
}

impl Seek for SimWriter {
    fn seek(&mut self, to: SeekFrom) -> io::Result<u64> {
        self.stats.calls += 1;
        self.stats.seeks += 1;
        let new = match to {
            SeekFrom::Start(p) => Some(p),
            SeekFrom::Current(d) => self.pos.checked_add_signed(d),
            SeekFrom::End(d) => (self.accepted.len() as u64).checked_add_signed(d),
        };
        match new {
            Some(p) => {
                self.pos = p;
                Ok(p)
            }
            None => Err(io::Error::new(io::ErrorKind::InvalidInput, "sim: seek before start")),
        }
    }
}

/// Shrinker steps over an I/O plan: drop a fault, calm the legal noise, move fault positions towards zero.
pub fn shrink_io(p: &IoPlan) -> Vec<IoPlan> {
    let mut c = vec![];
    for i in 0..p.faults.len() {
        let mut q = p.clone();
        q.faults.remove(i);
        c.push(q);
    }
    if p.calm() != *p {
        c.push(p.calm());
    }
    if p.kind() != 0 && !p.faults.is_empty() {
        c.push(IoPlan { err_kind: 1, ..p.clone() });
    }
    for i in 0..p.faults.len() {
        let smaller: Vec<Fault> = match &p.faults[i] {
            Fault::Enospc { after_bytes } if *after_bytes > 0 => vec![Fault::Enospc { after_bytes: 0 }, Fault::Enospc { after_bytes: after_bytes / 2 }, Fault::Enospc { after_bytes: after_bytes - 1 }],
            Fault::Eof { at } if *at > 0 => vec![Fault::Eof { at: 0 }, Fault::Eof { at: at / 2 }, Fault::Eof { at: at - 1 }],
            Fault::Flip { off, bit } if *off > 0 => vec![Fault::Flip { off: off / 2, bit: *bit }, Fault::Flip { off: off - 1, bit: *bit }],
            Fault::EioAtOffset { off } if *off > 0 => vec![Fault::EioAtOffset { off: 0 }, Fault::EioAtOffset { off: off / 2 }],
            Fault::EioOnceAtOffset { off } if *off > 0 => vec![Fault::EioOnceAtOffset { off: off / 2 }, Fault::EioOnceAtOffset { off: off - 1 }],
            Fault::Eio { at_call, sticky } if *at_call > 0 => vec![Fault::Eio { at_call: 0, sticky: *sticky }, Fault::Eio { at_call: at_call / 2, sticky: *sticky }],
            Fault::WriteEio { at_call, sticky } if *at_call > 0 => vec![Fault::WriteEio { at_call: 0, sticky: *sticky }, Fault::WriteEio { at_call: at_call / 2, sticky: *sticky }],
            Fault::WriteZero { at_call } if *at_call > 0 => vec![Fault::WriteZero { at_call: 0 }],
            Fault::SeekFail { at_call } if *at_call > 0 => vec![Fault::SeekFail { at_call: 0 }, Fault::SeekFail { at_call: at_call / 2 }],
            _ => vec![],
        };
        for f in smaller {
            let mut q = p.clone();
            q.faults[i] = f;
            c.push(q);
        }
    }
    c
}
