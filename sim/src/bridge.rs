//! Conversions between the reference model and quill's types (public API only).

use crate::refmap::*;
use crate::rng::Rng;
use anyhow::{anyhow, Context, Result};
use duke::tree::class::ObjClassName;
use duke::tree::field::{FieldDescriptor, FieldName, FieldNameAndDesc};
use duke::tree::method::{MethodDescriptor, MethodName, MethodNameAndDesc, ParameterName};
use java_string::JavaString;
use quill::tree::mappings::*;
use quill::tree::names::{Names as QNames, Namespaces};
use quill::tree::NodeInfo;

pub struct Ns;

fn js(s: &str) -> JavaString {
    JavaString::from(s.to_string())
}

fn qnames<const N: usize, T>(first: Option<&str>, rest: &[Option<String>]) -> Result<QNames<N, T>>
where
    T: TryFrom<JavaString, Error = anyhow::Error> + std::fmt::Debug + AsRef<java_string::JavaStr>,
{
    let mut v: Vec<Option<T>> = vec![];
    if let Some(f) = first {
        v.push(Some(T::try_from(js(f))?));
    }
    for n in rest {
        v.push(match n {
            Some(n) => Some(T::try_from(js(n))?),
            None => None,
        });
    }
    let arr: [Option<T>; N] = v.try_into().map_err(|_| anyhow!("wrong number of names"))?;
    QNames::try_from(arr)
}

/// Builds a quill mapping set from the model, inserting entries in a drawn order (None = model order).
pub fn to_quill<const N: usize>(m: &MapSet, order: Option<&mut Rng>) -> Result<Mappings<N, Ns>> {
    let mut dummy = Rng::new(0);
    let shuffle = order.is_some();
    let r = order.unwrap_or(&mut dummy);
    let ns: [String; N] = m.ns.clone().try_into().map_err(|_| anyhow!("namespace count"))?;
    let mut q: Mappings<N, Ns> = Mappings::new(MappingInfo { namespaces: Namespaces::try_from(ns)? });
    q.javadoc = m.doc.clone().map(JavadocMapping);
    let mut cls: Vec<_> = m.classes.iter().collect();
    if shuffle {
        r.shuffle(&mut cls);
    }
    for (k, c) in cls {
        let mut qc: ClassNowodeMapping<N> = ClassNowodeMapping::new(ClassMapping { names: qnames(Some(k), &c.names)? });
        qc.javadoc = c.doc.clone().map(JavadocMapping);
        let mut fs: Vec<_> = c.fields.iter().collect();
        if shuffle {
            r.shuffle(&mut fs);
        }
        for (fk, f) in fs {
            let (name, desc) = split_mkey(fk);
            let desc: FieldDescriptor = js(desc).try_into()?;
            let mut qf: FieldNowodeMapping<N> = FieldNowodeMapping::new(FieldMapping { desc: desc.clone(), names: qnames(Some(name), &f.names)? });
            qf.javadoc = f.doc.clone().map(JavadocMapping);
            let name: FieldName = js(name).try_into()?;
            qc.fields.insert(FieldNameAndDesc { desc, name }, qf);
        }
        let mut ms: Vec<_> = c.methods.iter().collect();
        if shuffle {
            r.shuffle(&mut ms);
        }
        for (mk, me) in ms {
            let (name, desc) = split_mkey(mk);
            let desc: MethodDescriptor = js(desc).try_into()?;
            let mut qm: MethodNowodeMapping<N> = MethodNowodeMapping::new(MethodMapping { desc: desc.clone(), names: qnames(Some(name), &me.names)? });
            qm.javadoc = me.doc.clone().map(JavadocMapping);
            let mut ps: Vec<_> = me.params.iter().collect();
            if shuffle {
                r.shuffle(&mut ps);
            }
            for (pi, p) in ps {
                let mut qp: ParameterNowodeMapping<N> = ParameterNowodeMapping::new(ParameterMapping { index: *pi, names: qnames::<N, ParameterName>(None, &p.names)? });
                qp.javadoc = p.doc.clone().map(JavadocMapping);
                qm.parameters.insert(ParameterKey { index: *pi }, qp);
            }
            let name: MethodName = js(name).try_into()?;
            qc.methods.insert(MethodNameAndDesc { desc, name }, qm);
        }
        let key: ObjClassName = js(k).try_into()?;
        q.classes.insert(key, qc);
    }
    Ok(q)
}

fn s_of(x: &impl AsRef<java_string::JavaStr>) -> Result<String> {
    Ok(x.as_ref().as_str().map_err(|_| anyhow!("unpaired surrogate"))?.to_string())
}

fn names_of<const N: usize, T: AsRef<java_string::JavaStr>>(n: &QNames<N, T>) -> Result<Vec<Option<String>>> {
    let arr: &[Option<T>; N] = n.into();
    arr.iter().map(|x| x.as_ref().map(|x| s_of(x)).transpose()).collect()
}

/// Projects a quill mapping set into the model. Fails if the quill value is internally inconsistent
/// (a key that differs from the entry's own first name), which is itself a reportable fact.
pub fn from_quill<const N: usize, X>(q: &Mappings<N, X>) -> Result<MapSet> {
    let ns: &[String; N] = (&q.info.namespaces).into();
    let mut m = MapSet { ns: ns.to_vec(), doc: q.javadoc.as_ref().map(|j| j.0.clone()), classes: Default::default() };
    for (k, c) in &q.classes {
        let names = names_of(&c.info.names)?;
        let key = s_of(k)?;
        if names[0].as_deref() != Some(key.as_str()) {
            return Err(anyhow!("class key {key:?} differs from its first name {:?}", names[0]));
        }
        let mut cm = ClassM { names: names[1..].to_vec(), doc: c.javadoc.as_ref().map(|j| j.0.clone()), ..Default::default() };
        for (fk, f) in &c.fields {
            let names = names_of(&f.info.names)?;
            let (kn, kd) = (s_of(&fk.name)?, s_of(&fk.desc)?);
            if names[0].as_deref() != Some(kn.as_str()) || s_of(&f.info.desc)? != kd {
                return Err(anyhow!("field key {kn:?} {kd:?} differs from its entry"));
            }
            if cm.fields.insert(mkey(&kn, &kd), MemberM { names: names[1..].to_vec(), doc: f.javadoc.as_ref().map(|j| j.0.clone()), params: Default::default() }).is_some() {
                return Err(anyhow!("duplicate field"));
            }
        }
        for (mk, me) in &c.methods {
            let names = names_of(&me.info.names)?;
            let (kn, kd) = (s_of(&mk.name)?, s_of(&mk.desc)?);
            if names[0].as_deref() != Some(kn.as_str()) || s_of(&me.info.desc)? != kd {
                return Err(anyhow!("method key {kn:?} {kd:?} differs from its entry"));
            }
            let mut mm = MemberM { names: names[1..].to_vec(), doc: me.javadoc.as_ref().map(|j| j.0.clone()), params: Default::default() };
            for (pk, p) in &me.parameters {
                if pk.index != p.info.index {
                    return Err(anyhow!("parameter key {} differs from its entry {}", pk.index, p.info.index));
                }
                mm.params.insert(pk.index, ParamM { names: names_of(&p.info.names)?, doc: p.javadoc.as_ref().map(|j| j.0.clone()) });
            }
            if cm.methods.insert(mkey(&kn, &kd), mm).is_some() {
                return Err(anyhow!("duplicate method"));
            }
        }
        if m.classes.insert(key, cm).is_some() {
            return Err(anyhow!("duplicate class"));
        }
    }
    Ok(m)
}

// ------------------------------------------------------------------------------------------------
// diffs

use crate::refdiff::*;
use quill::tree::mappings_diff::{Action, MappingsDiff};

fn act_of<T: AsRef<java_string::JavaStr>>(a: &Action<T>) -> Result<Act> {
    Ok(match a {
        Action::None => Act::None,
        Action::Add(b) => Act::Add(s_of(b)?),
        Action::Remove(a) => Act::Remove(s_of(a)?),
        Action::Edit(a, b) => Act::Edit(s_of(a)?, s_of(b)?),
    })
}
fn act_doc(a: &Action<JavadocMapping>) -> Act {
    match a {
        Action::None => Act::None,
        Action::Add(b) => Act::Add(b.0.clone()),
        Action::Remove(a) => Act::Remove(a.0.clone()),
        Action::Edit(a, b) => Act::Edit(a.0.clone(), b.0.clone()),
    }
}

/// Projects quill's diff tree into the reference model. A namespace action or a mapping-level comment action
/// cannot be expressed by the model and is reported as an error.
pub fn from_quill_diff(q: &MappingsDiff) -> Result<DiffSet> {
    if q.info != Action::None {
        return Err(anyhow!("diff carries a namespace action {:?}", q.info));
    }
    if q.javadoc != Action::None {
        return Err(anyhow!("diff carries a mapping-level comment action"));
    }
    let mut d = DiffSet::default();
    for (k, c) in &q.classes {
        let mut cd = ClassD { act: act_of(&c.info)?, doc: act_doc(&c.javadoc), ..Default::default() };
        for (fk, f) in &c.fields {
            cd.fields.insert(mkey(&s_of(&fk.name)?, &s_of(&fk.desc)?), MemberD { act: act_of(&f.info)?, doc: act_doc(&f.javadoc), params: Default::default() });
        }
        for (mk, m) in &c.methods {
            let mut md = MemberD { act: act_of(&m.info)?, doc: act_doc(&m.javadoc), params: Default::default() };
            for (pk, p) in &m.parameters {
                md.params.insert(pk.index, ParamD { act: act_of(&p.info)?, doc: act_doc(&p.javadoc) });
            }
            cd.methods.insert(mkey(&s_of(&mk.name)?, &s_of(&mk.desc)?), md);
        }
        d.classes.insert(s_of(k)?, cd);
    }
    Ok(d)
}

fn q_act<T: TryFrom<JavaString, Error = anyhow::Error>>(a: &Act) -> Result<Action<T>> {
    Ok(match a {
        Act::None => Action::None,
        Act::Add(b) => Action::Add(T::try_from(js(b))?),
        Act::Remove(a) => Action::Remove(T::try_from(js(a))?),
        Act::Edit(a, b) => Action::Edit(T::try_from(js(a))?, T::try_from(js(b))?),
    })
}
fn q_doc(a: &Act) -> Action<JavadocMapping> {
    match a {
        Act::None => Action::None,
        Act::Add(b) => Action::Add(JavadocMapping(b.clone())),
        Act::Remove(a) => Action::Remove(JavadocMapping(a.clone())),
        Act::Edit(a, b) => Action::Edit(JavadocMapping(a.clone()), JavadocMapping(b.clone())),
    }
}

/// Builds quill's in-memory diff tree from the model (public fields only).
pub fn to_quill_diff(d: &DiffSet) -> Result<MappingsDiff> {
    use quill::tree::mappings_diff::{ClassNowodeDiff, FieldNowodeDiff, MethodNowodeDiff, ParameterNowodeDiff};
    let mut q = MappingsDiff::default();
    for (k, c) in &d.classes {
        let mut qc = ClassNowodeDiff { info: q_act::<ObjClassName>(&c.act)?, javadoc: q_doc(&c.doc), ..Default::default() };
        for (fk, f) in &c.fields {
            let (name, desc) = split_mkey(fk);
            qc.fields.insert(FieldNameAndDesc { desc: js(desc).try_into()?, name: js(name).try_into()? }, FieldNowodeDiff { info: q_act::<FieldName>(&f.act)?, javadoc: q_doc(&f.doc) });
        }
        for (mk, m) in &c.methods {
            let (name, desc) = split_mkey(mk);
            let mut qm = MethodNowodeDiff { info: q_act::<MethodName>(&m.act)?, javadoc: q_doc(&m.doc), ..Default::default() };
            for (pi, p) in &m.params {
                qm.parameters.insert(ParameterKey { index: *pi }, ParameterNowodeDiff { info: q_act::<ParameterName>(&p.act)?, javadoc: q_doc(&p.doc) });
            }
            qc.methods.insert(MethodNameAndDesc { desc: js(desc).try_into()?, name: js(name).try_into()? }, qm);
        }
        q.classes.insert(js(k).try_into()?, qc);
    }
    Ok(q)
}
