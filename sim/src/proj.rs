//! π - the projection from duke's in-memory class tree to the reference model `refclass::Sem`.
//!
//! It states every fact the tree holds in the terms of the model and nothing else: no repair, no defaulting
//! beyond what the model's canonicalisation rules say (README "Canonicalisation decisions"). Where the tree
//! *cannot* hold a fact the model has (parameter annotations, an empty `Record` attribute) the projection
//! yields the model's "absent" value, so that the loss shows up as a difference under its own stable path.
//!
//! Labels become instruction indices: the label on instruction k -> k, the "last label" -> insns.len().
//! A label that is referenced but attached to no instruction makes the projection fail (`Err`): the tree
//! then does not denote a class, which is itself reportable.
//!
//! Crate-private tree fields are read through duke's `verif` feature (`duke::verif`), nothing else.

use duke::tree::annotation as da;
use duke::tree::class::{ClassFile, ClassName, ClassSignature, ObjClassName};
use duke::tree::descriptor::ReturnDescriptor;
use duke::tree::field::{self as df, FieldDescriptor, FieldName, FieldSignature};
use duke::tree::method::code::{self as dc, Instruction as I, Label, LabelRange, LocalVariableName};
use duke::tree::method::{self as dm, MethodDescriptor, MethodName, MethodSignature, ParameterName};
use duke::tree::module::{ModuleName, PackageName};
use duke::tree::record::RecordName;
use duke::tree::type_annotation as dt;
use duke::verif as dv;
use duke::visitor::method::code::{StackMapData, VerificationTypeInfo};
use java_string::{JavaStr, JavaString};
use refclass::sem::{self, *};
use refclass::{JStr, Sem};
use std::collections::BTreeMap;

type R<T> = Result<T, String>;

/// Lossless: the code points of the JavaString (which may be unpaired surrogates) re-encoded as MUTF-8.
/// Deliberately not `to_modified_utf8()` of the `java_string` crate - that is the codec duke itself uses.
pub fn jstr(s: &JavaStr) -> JStr {
    JStr::from_code_points(s.chars().map(|c| c.as_u32())).expect("a JavaCodePoint is at most 0x10FFFF")
}

trait J {
    fn j(&self) -> JStr;
}
impl J for JavaString {
    fn j(&self) -> JStr {
        jstr(self.as_java_str())
    }
}
macro_rules! impl_j {
    ($($t:ty),* $(,)?) => { $( impl J for $t { fn j(&self) -> JStr { jstr(<$t as AsRef<JavaStr>>::as_ref(self)) } } )* };
}
impl_j!(
    ClassName,
    ObjClassName,
    ClassSignature,
    FieldName,
    FieldDescriptor,
    FieldSignature,
    MethodName,
    MethodDescriptor,
    MethodSignature,
    ParameterName,
    LocalVariableName,
    ModuleName,
    PackageName,
    RecordName,
    ReturnDescriptor,
);
fn oj<T: J>(o: &Option<T>) -> Option<JStr> {
    o.as_ref().map(|x| x.j())
}
fn vj<T: J>(v: &[T]) -> Vec<JStr> {
    v.iter().map(|x| x.j()).collect()
}

// ------------------------------------------------------------------------------------------------ class

pub fn project(c: &ClassFile) -> R<Sem> {
    let (major, minor) = dv::version_major_minor(&c.version);
    let this_class = c.name.j();
    let mut s = Sem {
        minor,
        major,
        access: u16::from(c.access),
        this_class: this_class.clone(),
        super_class: oj(&c.super_class),
        interfaces: vj(&c.interfaces),
        ..Sem::default()
    };
    for (i, f) in c.fields.iter().enumerate() {
        s.fields.push(project_field(f).map_err(|e| format!("field[{i}]: {e}"))?);
    }
    for (i, m) in c.methods.iter().enumerate() {
        s.methods.push(project_method(&this_class, m).map_err(|e| format!("method[{i}]: {e}"))?);
    }
    s.source_file = oj(&c.source_file);
    s.source_debug_extension = c.source_debug_extension.as_ref().map(|x| x.j().0);
    s.inner_classes = c.inner_classes.as_ref().map(|v| {
        v.iter()
            .map(|ic| InnerClass { inner: ic.inner_class.j(), outer: oj(&ic.outer_class), inner_name: oj(&ic.inner_name), access: u16::from(ic.flags) })
            .collect()
    });
    s.enclosing_method = c.enclosing_method.as_ref().map(|em| EnclosingMethod { class: em.class.j(), method: em.method.as_ref().map(|nd| (nd.name.j(), nd.desc.j())) });
    s.signature = oj(&c.signature);
    s.synthetic = c.has_synthetic_attribute;
    s.deprecated = c.has_deprecated_attribute;
    s.annotations = Annotations { visible: annotations(&c.runtime_visible_annotations), invisible: annotations(&c.runtime_invisible_annotations) };
    s.type_annotations = TypeAnnotations {
        visible: type_annotations(&c.runtime_visible_type_annotations, &class_target)?,
        invisible: type_annotations(&c.runtime_invisible_type_annotations, &class_target)?,
    };
    s.nest_host = oj(&c.nest_host_class);
    s.nest_members = c.nest_members.as_ref().map(|v| vj(v));
    s.permitted_subclasses = c.permitted_subclasses.as_ref().map(|v| vj(v));
    // The tree holds a plain Vec: "Record attribute with zero components" and "no Record attribute" are the
    // same tree. The projection states what the tree can say: components, or nothing.
    s.record = if c.record_components.is_empty() {
        None
    } else {
        let mut v = vec![];
        for rc in &c.record_components {
            v.push(RecordComponent {
                name: rc.name.j(),
                desc: rc.descriptor.j(),
                signature: dv::record_component_signature(rc).map(|x| x.j()),
                annotations: Annotations { visible: annotations(dv::record_component_annotations(rc, true)), invisible: annotations(dv::record_component_annotations(rc, false)) },
                type_annotations: TypeAnnotations {
                    visible: type_annotations(dv::record_component_type_annotations(rc, true), &field_target)?,
                    invisible: type_annotations(dv::record_component_type_annotations(rc, false), &field_target)?,
                },
                unknown: unknown(dv::record_component_attributes(rc)),
            });
        }
        Some(v)
    };
    s.module = c.module.as_ref().map(|m| Module {
        name: dv::module_name(m).j(),
        flags: dv::module_flags(m),
        version: dv::module_version(m).map(|x| x.j()),
        requires: dv::module_requires(m)
            .iter()
            .map(|r| {
                let (n, f, v) = dv::module_requires_parts(r);
                Requires { module: n.j(), flags: f, version: v.map(|x| x.j()) }
            })
            .collect(),
        exports: dv::module_exports(m)
            .iter()
            .map(|e| {
                let (p, f, to) = dv::module_exports_parts(e);
                Exports { package: p.j(), flags: f, to: vj(to) }
            })
            .collect(),
        opens: dv::module_opens(m)
            .iter()
            .map(|e| {
                let (p, f, to) = dv::module_opens_parts(e);
                Exports { package: p.j(), flags: f, to: vj(to) }
            })
            .collect(),
        uses: vj(dv::module_uses(m)),
        provides: dv::module_provides(m)
            .iter()
            .map(|p| {
                let (svc, with) = dv::module_provides_parts(p);
                Provides { service: svc.j(), with: vj(with) }
            })
            .collect(),
    });
    s.module_packages = c.module_packages.as_ref().map(|v| vj(v));
    s.module_main_class = oj(&c.module_main_class);
    s.unknown = unknown(&c.attributes);
    Ok(s)
}

fn unknown(v: &[duke::tree::attribute::Attribute]) -> Vec<UnknownAttr> {
    v.iter().map(|a| UnknownAttr { name: a.name.j(), bytes: a.bytes.clone() }).collect()
}

pub fn project_field(f: &df::Field) -> R<sem::Field> {
    Ok(sem::Field {
        access: u16::from(f.access),
        name: f.name.j(),
        desc: f.descriptor.j(),
        constant_value: f.constant_value.as_ref().map(|c| match c {
            df::ConstantValue::Integer(v) => ConstValue::Int(*v),
            df::ConstantValue::Float(v) => ConstValue::Float(v.to_bits()),
            df::ConstantValue::Long(v) => ConstValue::Long(*v),
            df::ConstantValue::Double(v) => ConstValue::Double(v.to_bits()),
            df::ConstantValue::String(v) => ConstValue::String(v.j()),
        }),
        signature: oj(&f.signature),
        synthetic: f.has_synthetic_attribute,
        deprecated: f.has_deprecated_attribute,
        annotations: Annotations { visible: annotations(&f.runtime_visible_annotations), invisible: annotations(&f.runtime_invisible_annotations) },
        type_annotations: TypeAnnotations {
            visible: type_annotations(&f.runtime_visible_type_annotations, &field_target)?,
            invisible: type_annotations(&f.runtime_invisible_type_annotations, &field_target)?,
        },
        unknown: unknown(&f.attributes),
    })
}

pub fn project_method(this_class: &JStr, m: &dm::Method) -> R<sem::Method> {
    let access = u16::from(m.access);
    let name = m.name.j();
    let desc = m.descriptor.j();
    let code = match &m.code {
        Some(c) => Some(project_code(this_class, access, &name, &desc, c).map_err(|e| format!("code: {e}"))?),
        None => None,
    };
    Ok(sem::Method {
        access,
        name,
        desc,
        code,
        exceptions: m.exceptions.as_ref().map(|v| vj(v)),
        method_parameters: m.method_parameters.as_ref().map(|v| v.iter().map(|p| MethodParameter { name: oj(&p.name), access: u16::from(p.flags) }).collect()),
        annotation_default: m.annotation_default.as_ref().map(element_value),
        // duke's tree has no place for Runtime(In)VisibleParameterAnnotations (tree/method.rs: "TODO")
        parameter_annotations: ParamAnnotations::default(),
        annotations: Annotations { visible: annotations(&m.runtime_visible_annotations), invisible: annotations(&m.runtime_invisible_annotations) },
        type_annotations: TypeAnnotations {
            visible: type_annotations(&m.runtime_visible_type_annotations, &method_target)?,
            invisible: type_annotations(&m.runtime_invisible_type_annotations, &method_target)?,
        },
        signature: oj(&m.signature),
        synthetic: m.has_synthetic_attribute,
        deprecated: m.has_deprecated_attribute,
        unknown: unknown(&m.attributes),
    })
}

// ------------------------------------------------------------------------------------------- annotations

fn annotation(a: &da::Annotation) -> Annotation {
    Annotation { type_desc: a.annotation_type.j(), pairs: a.element_value_pairs.iter().map(|p| Pair { name: p.name.j(), value: element_value(&p.value) }).collect() }
}
fn annotations(v: &[da::Annotation]) -> Vec<Annotation> {
    v.iter().map(annotation).collect()
}
fn element_value(v: &da::ElementValue) -> ElementValue {
    match v {
        da::ElementValue::Object(o) => match o {
            da::Object::Byte(x) => ElementValue::Byte(*x as i32),
            da::Object::Char(x) => ElementValue::Char(*x as i32),
            da::Object::Double(x) => ElementValue::Double(x.to_bits()),
            da::Object::Float(x) => ElementValue::Float(x.to_bits()),
            da::Object::Integer(x) => ElementValue::Int(*x),
            da::Object::Long(x) => ElementValue::Long(*x),
            da::Object::Short(x) => ElementValue::Short(*x as i32),
            da::Object::Boolean(x) => ElementValue::Boolean(*x as i32),
            da::Object::String(x) => ElementValue::String(x.j()),
        },
        da::ElementValue::Enum { type_name, const_name } => ElementValue::Enum { type_desc: type_name.j(), const_name: const_name.j() },
        da::ElementValue::Class(c) => ElementValue::Class(c.j()),
        da::ElementValue::AnnotationInterface(a) => ElementValue::Annotation(Box::new(annotation(a))),
        da::ElementValue::ArrayType(v) => ElementValue::Array(v.iter().map(element_value).collect()),
    }
}

fn type_annotations<T>(v: &[dt::TypeAnnotation<T>], target: &dyn Fn(&T) -> R<Target>) -> R<Vec<TypeAnnotation>> {
    v.iter()
        .map(|t| {
            Ok(TypeAnnotation {
                target: target(&t.type_reference)?,
                path: dv::type_path_steps(&t.type_path).into_iter().map(|(kind, arg)| PathStep { kind, arg }).collect(),
                annotation: annotation(&t.annotation),
            })
        })
        .collect()
}
fn class_target(t: &dt::TargetInfoClass) -> R<Target> {
    Ok(match *t {
        dt::TargetInfoClass::ClassTypeParameter { index } => Target::TypeParameter { target_type: 0x00, index },
        dt::TargetInfoClass::Extends => Target::Supertype(0xFFFF),
        dt::TargetInfoClass::Implements { index } => Target::Supertype(index),
        dt::TargetInfoClass::ClassTypeParameterBound { type_parameter_index, bound_index } => Target::TypeParameterBound { target_type: 0x11, param: type_parameter_index, bound: bound_index },
    })
}
fn field_target(t: &dt::TargetInfoField) -> R<Target> {
    Ok(match t {
        dt::TargetInfoField::Field => Target::Empty(0x13),
    })
}
fn method_target(t: &dt::TargetInfoMethod) -> R<Target> {
    Ok(match *t {
        dt::TargetInfoMethod::MethodTypeParameter { index } => Target::TypeParameter { target_type: 0x01, index },
        dt::TargetInfoMethod::MethodTypeParameterBound { type_parameter_index, bound_index } => Target::TypeParameterBound { target_type: 0x12, param: type_parameter_index, bound: bound_index },
        dt::TargetInfoMethod::Return => Target::Empty(0x14),
        dt::TargetInfoMethod::Receiver => Target::Empty(0x15),
        dt::TargetInfoMethod::FormalParameter { index } => Target::FormalParameter(index),
        dt::TargetInfoMethod::Throws { index } => Target::Throws(index),
    })
}

// -------------------------------------------------------------------------------------------------- code

/// label id -> instruction index (or insns.len() for the last label)
struct Labels {
    at: BTreeMap<u16, usize>,
}
impl Labels {
    fn build(c: &dc::Code) -> R<Labels> {
        let mut at = BTreeMap::new();
        for (k, e) in c.instructions.iter().enumerate() {
            if let Some(l) = &e.label {
                let id = dv::label_id(l);
                if let Some(prev) = at.insert(id, k) {
                    return Err(format!("label {id} is attached to instruction {prev} and to instruction {k}"));
                }
            }
        }
        if let Some(l) = &c.last_label {
            let id = dv::label_id(l);
            if let Some(prev) = at.insert(id, c.instructions.len()) {
                return Err(format!("the last label {id} is also attached to instruction {prev}"));
            }
        }
        Ok(Labels { at })
    }
    fn ix(&self, l: &Label, what: &str) -> R<usize> {
        let id = dv::label_id(l);
        self.at.get(&id).copied().ok_or_else(|| format!("dangling-label: {what} refers to label {id}, which is attached to no instruction"))
    }
    fn range(&self, r: &LabelRange, what: &str) -> R<(usize, usize)> {
        let (s, e) = dv::label_range_bounds(r);
        Ok((self.ix(&s, what)?, self.ix(&e, what)?))
    }
}

fn vtype(l: &Labels, v: &VerificationTypeInfo) -> R<VType> {
    Ok(match v {
        VerificationTypeInfo::Top => VType::Top,
        VerificationTypeInfo::Integer => VType::Integer,
        VerificationTypeInfo::Float => VType::Float,
        VerificationTypeInfo::Long => VType::Long,
        VerificationTypeInfo::Double => VType::Double,
        VerificationTypeInfo::Null => VType::Null,
        VerificationTypeInfo::UninitializedThis => VType::UninitializedThis,
        VerificationTypeInfo::Object(c) => VType::Object(c.j()),
        VerificationTypeInfo::Uninitialized(lb) => VType::Uninitialized(l.ix(lb, "frame: Uninitialized")?),
    })
}
fn vtypes(l: &Labels, v: &[VerificationTypeInfo]) -> R<Vec<VType>> {
    v.iter().map(|x| vtype(l, x)).collect()
}
fn raw_frame(l: &Labels, f: &StackMapData) -> R<RawFrame> {
    Ok(match f {
        StackMapData::Same => RawFrame::Same,
        StackMapData::SameLocals1StackItem { stack } => RawFrame::SameLocals1(vtype(l, stack)?),
        StackMapData::Chop { k } => RawFrame::Chop(*k),
        StackMapData::Append { locals } => RawFrame::Append(vtypes(l, locals)?),
        StackMapData::Full { locals, stack } => RawFrame::Full { locals: vtypes(l, locals)?, stack: vtypes(l, stack)? },
    })
}

pub fn project_code(this_class: &JStr, method_access: u16, method_name: &JStr, method_desc: &JStr, c: &dc::Code) -> R<sem::Code> {
    let l = Labels::build(c)?;
    let mut out = sem::Code {
        max_stack: c.max_stack.ok_or("the tree holds no max_stack")?,
        max_locals: c.max_locals.ok_or("the tree holds no max_locals")?,
        ..sem::Code::default()
    };
    let mut raw = vec![];
    for (k, e) in c.instructions.iter().enumerate() {
        out.insns.push(insn(&l, &e.instruction).map_err(|e| format!("insn[{k}]: {e}"))?);
        if let Some(f) = &e.frame {
            raw.push((k, raw_frame(&l, f).map_err(|e| format!("frame at insn[{k}]: {e}"))?));
        }
    }
    for (j, x) in c.exception_table.iter().enumerate() {
        let w = format!("exception[{j}]");
        out.exceptions.push(ExceptionEntry { start: l.ix(&x.start, &w)?, end: l.ix(&x.end, &w)?, handler: l.ix(&x.handler, &w)?, catch_type: oj(&x.catch) });
    }
    for (j, (lb, line)) in c.line_numbers.iter().flatten().enumerate() {
        out.line_numbers.push(LineNumber { at: l.ix(lb, &format!("line_number[{j}]"))?, line: *line });
    }
    for (j, lv) in c.local_variables.iter().flatten().enumerate() {
        let (start, end) = l.range(&lv.range, &format!("local_variable[{j}]"))?;
        if let Some(d) = &lv.descriptor {
            out.local_vars.push(LocalVar { start, end, name: lv.name.j(), desc: d.j(), slot: lv.index.index });
        }
        if let Some(s) = &lv.signature {
            out.local_var_types.push(LocalVar { start, end, name: lv.name.j(), desc: s.j(), slot: lv.index.index });
        }
    }
    let initial = initial_locals(this_class, method_access, method_name, method_desc).unwrap_or_default();
    out.frames = expand_frames(&initial, &raw).map_err(|e| format!("frames: {e}"))?;
    out.frames_raw = NotCompared(raw);
    let ct = |t: &dt::TargetInfoCode| code_target(&l, t);
    out.type_annotations = TypeAnnotations { visible: type_annotations(&c.runtime_visible_type_annotations, &ct)?, invisible: type_annotations(&c.runtime_invisible_type_annotations, &ct)? };
    out.unknown = unknown(&c.attributes);
    Ok(out)
}

fn code_target(l: &Labels, t: &dt::TargetInfoCode) -> R<Target> {
    use dt::TargetInfoCode as T;
    let table = |tt: u8, v: &[(LabelRange, dc::LvIndex)]| -> R<Target> {
        let mut table = vec![];
        for (r, ix) in v {
            let (start, end) = l.range(r, "type annotation localvar_target")?;
            table.push(LocalVarRange { start, end, slot: ix.index });
        }
        Ok(Target::LocalVar { target_type: tt, table })
    };
    let w = "type annotation offset";
    Ok(match t {
        T::LocalVariable { table: v } => table(0x40, v)?,
        T::ResourceVariable { table: v } => table(0x41, v)?,
        T::ExceptionParameter { index } => Target::Catch(*index),
        T::InstanceOf(lb) => Target::Offset { target_type: 0x43, at: l.ix(lb, w)? },
        T::New(lb) => Target::Offset { target_type: 0x44, at: l.ix(lb, w)? },
        T::ConstructorReference(lb) => Target::Offset { target_type: 0x45, at: l.ix(lb, w)? },
        T::MethodReference(lb) => Target::Offset { target_type: 0x46, at: l.ix(lb, w)? },
        T::Cast { label, index } => Target::TypeArgument { target_type: 0x47, at: l.ix(label, w)?, index: *index },
        T::ConstructorInvocationTypeArgument { label, index } => Target::TypeArgument { target_type: 0x48, at: l.ix(label, w)?, index: *index },
        T::MethodInvocationTypeArgument { label, index } => Target::TypeArgument { target_type: 0x49, at: l.ix(label, w)?, index: *index },
        T::ConstructorReferenceTypeArgument { label, index } => Target::TypeArgument { target_type: 0x4A, at: l.ix(label, w)?, index: *index },
        T::MethodReferenceTypeArgument { label, index } => Target::TypeArgument { target_type: 0x4B, at: l.ix(label, w)?, index: *index },
    })
}

fn field_ref(f: &df::FieldRef) -> MemberRef {
    MemberRef { owner: f.class.j(), name: f.name.j(), desc: f.desc.j(), is_interface: false }
}
fn method_ref(m: &dm::MethodRef, is_interface: bool) -> MemberRef {
    MemberRef { owner: m.class.j(), name: m.name.j(), desc: m.desc.j(), is_interface }
}
fn handle(h: &dc::Handle) -> Handle {
    use dc::Handle as H;
    match h {
        H::GetField(f) => Handle { kind: 1, member: field_ref(f) },
        H::GetStatic(f) => Handle { kind: 2, member: field_ref(f) },
        H::PutField(f) => Handle { kind: 3, member: field_ref(f) },
        H::PutStatic(f) => Handle { kind: 4, member: field_ref(f) },
        H::InvokeVirtual(m) => Handle { kind: 5, member: method_ref(m, false) },
        H::InvokeStatic(m, itf) => Handle { kind: 6, member: method_ref(m, *itf) },
        H::InvokeSpecial(m, itf) => Handle { kind: 7, member: method_ref(m, *itf) },
        H::NewInvokeSpecial(m) => Handle { kind: 8, member: method_ref(m, false) },
        H::InvokeInterface(m) => Handle { kind: 9, member: method_ref(m, true) },
    }
}
fn loadable(c: &dc::Loadable) -> Const {
    use dc::Loadable as L;
    match c {
        L::Integer(v) => Const::Int(*v),
        L::Float(v) => Const::Float(v.to_bits()),
        L::Long(v) => Const::Long(*v),
        L::Double(v) => Const::Double(v.to_bits()),
        L::Class(v) => Const::Class(v.j()),
        L::String(v) => Const::String(v.j()),
        L::MethodHandle(h) => Const::MethodHandle(handle(h)),
        L::MethodType(d) => Const::MethodType(d.j()),
        L::Dynamic(d) => Const::Dynamic(Box::new(Dynamic { bsm: handle(&d.handle), args: d.arguments.iter().map(loadable).collect(), name: d.name.j(), desc: d.descriptor.j() })),
    }
}

/// opcode of an operand-less instruction / a conditional branch, by JVMS 6.5 numbering
fn insn(l: &Labels, i: &I) -> R<Insn> {
    let s = Insn::Simple;
    let br = |op: u8, lb: &Label| -> R<Insn> { Ok(Insn::Branch(op, l.ix(lb, "branch")?)) };
    let ld = |k: LocalKind, ix: &dc::LvIndex| Insn::Load(k, ix.index);
    let st = |k: LocalKind, ix: &dc::LvIndex| Insn::Store(k, ix.index);
    Ok(match i {
        I::Nop => s(0),
        I::AConstNull => s(1),
        I::IConstM1 => s(2),
        I::IConst0 => s(3),
        I::IConst1 => s(4),
        I::IConst2 => s(5),
        I::IConst3 => s(6),
        I::IConst4 => s(7),
        I::IConst5 => s(8),
        I::LConst0 => s(9),
        I::LConst1 => s(10),
        I::FConst0 => s(11),
        I::FConst1 => s(12),
        I::FConst2 => s(13),
        I::DConst0 => s(14),
        I::DConst1 => s(15),
        I::BiPush(v) => Insn::BiPush(*v),
        I::SiPush(v) => Insn::SiPush(*v),
        I::Ldc(c) => Insn::Ldc(loadable(c)),
        I::ILoad(x) => ld(LocalKind::I, x),
        I::LLoad(x) => ld(LocalKind::L, x),
        I::FLoad(x) => ld(LocalKind::F, x),
        I::DLoad(x) => ld(LocalKind::D, x),
        I::ALoad(x) => ld(LocalKind::A, x),
        I::IALoad => s(46),
        I::LALoad => s(47),
        I::FALoad => s(48),
        I::DALoad => s(49),
        I::AALoad => s(50),
        I::BALoad => s(51),
        I::CALoad => s(52),
        I::SALoad => s(53),
        I::IStore(x) => st(LocalKind::I, x),
        I::LStore(x) => st(LocalKind::L, x),
        I::FStore(x) => st(LocalKind::F, x),
        I::DStore(x) => st(LocalKind::D, x),
        I::AStore(x) => st(LocalKind::A, x),
        I::IAStore => s(79),
        I::LAStore => s(80),
        I::FAStore => s(81),
        I::DAStore => s(82),
        I::AAStore => s(83),
        I::BAStore => s(84),
        I::CAStore => s(85),
        I::SAStore => s(86),
        I::Pop => s(87),
        I::Pop2 => s(88),
        I::Dup => s(89),
        I::DupX1 => s(90),
        I::DupX2 => s(91),
        I::Dup2 => s(92),
        I::Dup2X1 => s(93),
        I::Dup2X2 => s(94),
        I::Swap => s(95),
        I::IAdd => s(96),
        I::LAdd => s(97),
        I::FAdd => s(98),
        I::DAdd => s(99),
        I::ISub => s(100),
        I::LSub => s(101),
        I::FSub => s(102),
        I::DSub => s(103),
        I::IMul => s(104),
        I::LMul => s(105),
        I::FMul => s(106),
        I::DMul => s(107),
        I::IDiv => s(108),
        I::LDiv => s(109),
        I::FDiv => s(110),
        I::DDiv => s(111),
        I::IRem => s(112),
        I::LRem => s(113),
        I::FRem => s(114),
        I::DRem => s(115),
        I::INeg => s(116),
        I::LNeg => s(117),
        I::FNeg => s(118),
        I::DNeg => s(119),
        I::IShl => s(120),
        I::LShl => s(121),
        I::IShr => s(122),
        I::LShr => s(123),
        I::IUShr => s(124),
        I::LUShr => s(125),
        I::IAnd => s(126),
        I::LAnd => s(127),
        I::IOr => s(128),
        I::LOr => s(129),
        I::IXor => s(130),
        I::LXor => s(131),
        I::IInc(x, d) => Insn::Iinc(x.index, *d),
        I::I2L => s(133),
        I::I2F => s(134),
        I::I2D => s(135),
        I::L2I => s(136),
        I::L2F => s(137),
        I::L2D => s(138),
        I::F2I => s(139),
        I::F2L => s(140),
        I::F2D => s(141),
        I::D2I => s(142),
        I::D2L => s(143),
        I::D2F => s(144),
        I::I2B => s(145),
        I::I2C => s(146),
        I::I2S => s(147),
        I::LCmp => s(148),
        I::FCmpL => s(149),
        I::FCmpG => s(150),
        I::DCmpL => s(151),
        I::DCmpG => s(152),
        I::IfEq(t) => br(153, t)?,
        I::IfNe(t) => br(154, t)?,
        I::IfLt(t) => br(155, t)?,
        I::IfGe(t) => br(156, t)?,
        I::IfGt(t) => br(157, t)?,
        I::IfLe(t) => br(158, t)?,
        I::IfICmpEq(t) => br(159, t)?,
        I::IfICmpNe(t) => br(160, t)?,
        I::IfICmpLt(t) => br(161, t)?,
        I::IfICmpGe(t) => br(162, t)?,
        I::IfICmpGt(t) => br(163, t)?,
        I::IfICmpLe(t) => br(164, t)?,
        I::IfACmpEq(t) => br(165, t)?,
        I::IfACmpNe(t) => br(166, t)?,
        I::Goto(t) => Insn::Goto(l.ix(t, "goto")?),
        I::Jsr(t) => Insn::Jsr(l.ix(t, "jsr")?),
        I::Ret(x) => Insn::Ret(x.index),
        I::TableSwitch { default, low, high, table } => {
            // the model derives `high` from `low` and the number of targets; the tree stores it as a fact of its own
            let want = (*low as i64) + table.len() as i64 - 1;
            if table.is_empty() || want != *high as i64 {
                return Err(format!("tableswitch: low={low} high={high} but {} targets", table.len()));
            }
            let mut targets = vec![];
            for t in table {
                targets.push(l.ix(t, "tableswitch")?);
            }
            Insn::TableSwitch { default: l.ix(default, "tableswitch default")?, low: *low, targets }
        }
        I::LookupSwitch { default, pairs } => {
            let mut p = vec![];
            for (k, t) in pairs {
                p.push((*k, l.ix(t, "lookupswitch")?));
            }
            Insn::LookupSwitch { default: l.ix(default, "lookupswitch default")?, pairs: p }
        }
        I::IReturn => s(172),
        I::LReturn => s(173),
        I::FReturn => s(174),
        I::DReturn => s(175),
        I::AReturn => s(176),
        I::Return => s(177),
        I::GetStatic(f) => Insn::Field(FieldOp::GetStatic, field_ref(f)),
        I::PutStatic(f) => Insn::Field(FieldOp::PutStatic, field_ref(f)),
        I::GetField(f) => Insn::Field(FieldOp::GetField, field_ref(f)),
        I::PutField(f) => Insn::Field(FieldOp::PutField, field_ref(f)),
        I::InvokeVirtual(m) => Insn::Invoke(InvokeOp::Virtual, method_ref(m, false)),
        I::InvokeSpecial(m, itf) => Insn::Invoke(InvokeOp::Special, method_ref(m, *itf)),
        I::InvokeStatic(m, itf) => Insn::Invoke(InvokeOp::Static, method_ref(m, *itf)),
        I::InvokeInterface(m) => Insn::Invoke(InvokeOp::Interface, method_ref(m, true)),
        I::InvokeDynamic(d) => Insn::InvokeDynamic(Box::new(Dynamic { bsm: handle(&d.handle), args: d.arguments.iter().map(loadable).collect(), name: d.name.j(), desc: d.descriptor.j() })),
        I::New(c) => Insn::New(c.j()),
        I::NewArray(t) => Insn::NewArray(match t {
            dc::ArrayType::Boolean => PrimType::Boolean,
            dc::ArrayType::Char => PrimType::Char,
            dc::ArrayType::Float => PrimType::Float,
            dc::ArrayType::Double => PrimType::Double,
            dc::ArrayType::Byte => PrimType::Byte,
            dc::ArrayType::Short => PrimType::Short,
            dc::ArrayType::Int => PrimType::Int,
            dc::ArrayType::Long => PrimType::Long,
        }),
        I::ANewArray(c) => Insn::ANewArray(c.j()),
        I::ArrayLength => s(190),
        I::AThrow => s(191),
        I::CheckCast(c) => Insn::CheckCast(c.j()),
        I::InstanceOf(c) => Insn::InstanceOf(c.j()),
        I::MonitorEnter => s(194),
        I::MonitorExit => s(195),
        I::MultiANewArray(c, d) => Insn::MultiANewArray(c.j(), *d),
        I::IfNull(t) => br(198, t)?,
        I::IfNonNull(t) => br(199, t)?,
    })
}

#[cfg(test)]
mod tests {
    use super::*;

    /// The opcode numbers typed into `insn` agree with refclass' mnemonic table: the Debug name of the duke
    /// variant, lower-cased, equals the mnemonic with the underscores removed. (Branch opcodes need a `Label`,
    /// which cannot be built outside duke; they are validated by `c01::survey` on generated classes that hold
    /// every opcode.)
    #[test]
    fn opcode_numbers_match_mnemonics() {
        let lb = Labels { at: BTreeMap::new() };
        let all = [
            I::Nop, I::AConstNull, I::IConstM1, I::IConst0, I::IConst1, I::IConst2, I::IConst3, I::IConst4, I::IConst5, I::LConst0, I::LConst1, I::FConst0, I::FConst1, I::FConst2,
            I::DConst0, I::DConst1, I::IALoad, I::LALoad, I::FALoad, I::DALoad, I::AALoad, I::BALoad, I::CALoad, I::SALoad, I::IAStore, I::LAStore, I::FAStore, I::DAStore, I::AAStore,
            I::BAStore, I::CAStore, I::SAStore, I::Pop, I::Pop2, I::Dup, I::DupX1, I::DupX2, I::Dup2, I::Dup2X1, I::Dup2X2, I::Swap, I::IAdd, I::LAdd, I::FAdd, I::DAdd, I::ISub, I::LSub,
            I::FSub, I::DSub, I::IMul, I::LMul, I::FMul, I::DMul, I::IDiv, I::LDiv, I::FDiv, I::DDiv, I::IRem, I::LRem, I::FRem, I::DRem, I::INeg, I::LNeg, I::FNeg, I::DNeg, I::IShl,
            I::LShl, I::IShr, I::LShr, I::IUShr, I::LUShr, I::IAnd, I::LAnd, I::IOr, I::LOr, I::IXor, I::LXor, I::I2L, I::I2F, I::I2D, I::L2I, I::L2F, I::L2D, I::F2I, I::F2L, I::F2D,
            I::D2I, I::D2L, I::D2F, I::I2B, I::I2C, I::I2S, I::LCmp, I::FCmpL, I::FCmpG, I::DCmpL, I::DCmpG, I::IReturn, I::LReturn, I::FReturn, I::DReturn, I::AReturn, I::Return,
            I::ArrayLength, I::AThrow, I::MonitorEnter, I::MonitorExit,
        ];
        assert_eq!(all.len(), refclass::op::simple_opcodes().len());
        for i in all {
            match insn(&lb, &i).unwrap() {
                Insn::Simple(op) => assert_eq!(refclass::op::name(op).replace('_', ""), format!("{i:?}").to_lowercase()),
                other => panic!("{other:?}"),
            }
        }
    }
}
