//! The vendored javac corpus (`<verif>/corpus/classes/**.class`), loaded at run time in sorted path order.

use std::path::{Path, PathBuf};
use std::sync::OnceLock;

fn walk(dir: &Path, out: &mut Vec<PathBuf>) {
    let Ok(rd) = std::fs::read_dir(dir) else { return };
    for e in rd.flatten() {
        let p = e.path();
        if p.is_dir() {
            walk(&p, out);
        } else if p.extension().map(|x| x == "class").unwrap_or(false) {
            out.push(p);
        }
    }
}

/// (path relative to corpus/classes, bytes), sorted by path. A missing corpus is a harness error.
pub fn corpus() -> &'static [(String, Vec<u8>)] {
    static C: OnceLock<Vec<(String, Vec<u8>)>> = OnceLock::new();
    C.get_or_init(|| {
        let root = crate::engine::verif_dir().join("corpus").join("classes");
        let mut files = vec![];
        walk(&root, &mut files);
        files.sort();
        let v: Vec<(String, Vec<u8>)> = files
            .into_iter()
            .filter_map(|p| {
                let rel = p.strip_prefix(&root).ok()?.to_string_lossy().to_string();
                std::fs::read(&p).ok().map(|b| (rel, b))
            })
            .collect();
        if v.is_empty() {
            eprintln!("harness error: no corpus classes under {}", root.display());
            std::process::exit(2);
        }
        v
    })
}
