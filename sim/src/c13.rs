//! C13 - `dukebox::merge::merge(client, server)` is a faithful, annotated union.
//!
//! Both inputs are `SimJar`s (jar bytes assembled by the harness, served through `SimReader`s with one `IoPlan`
//! each; the code under test alternates between the two readers). The oracle is `refmerge`, written from the
//! property statement; output classes are looked at only through `refclass::parse`.

use crate::engine::*;
use crate::refmerge::{self, InContent, InEntry, Obs, RefMerge, Seen};
use crate::rng::{Digest, Rng};
use crate::simio::*;
use crate::simjar::{build_jar, open_entries, EntryData, JarAgg, SimJar};
use dukebox::storage::{ClassRepr, IsClass, JarEntryEnum};
use refclass::gen::feat;
use refclass::sem::Sem;
use refclass::{GenCfg, JStr};
use serde::{Deserialize, Serialize};
use serde_json::json;
use std::io::Cursor;
use std::sync::{Arc, Mutex};

pub struct C13;

// ------------------------------------------------------------------------------------------------------------
// plan

#[derive(Clone, Serialize, Deserialize, Debug, PartialEq)]
pub struct Plan {
    pub items: Vec<Item>,
    pub c_deflate: bool,
    pub s_deflate: bool,
    pub c_io: IoPlan,
    pub s_io: IoPlan,
    /// Some: the same pair is also offered as two `LazyJar`s (entry-level seam), with these faults on the client /
    /// server side
    #[serde(default)]
    pub lazy: Option<(crate::simjar::LazyPlan, crate::simjar::LazyPlan)>,
    /// non-zero: before the merged jar is written to memory, it is written once where the write FAILS (odd: the public
    /// `put_to_file` onto /dev/full; even: hook H3 into a sink with room for this many bytes): what a failed write
    /// leaves behind on the thread must not show in the next one (missed seeded change C13-10)
    #[serde(default)]
    pub failed_write_first: u32,
    /// a class write that fails inside an attribute body is made on this thread before anything else
    #[serde(default)]
    pub poison_first: bool,
    /// the two jars are also stored as files of the simulated directory and merged through dukebox `FileJar`s, after
    /// the same two paths held the OTHER jar each (client and server swapped) for one call; both generations have the
    /// same size (archive comments) and the replacement keeps the modification time - what is remembered per path must
    /// not outlive the file (missed seeded change C13-13: FileJar::open cached per path, validated by size)
    #[serde(default)]
    pub file_route: bool,
}

/// One logical entry name, with what each side holds under it.
#[derive(Clone, Serialize, Deserialize, Debug, PartialEq)]
pub struct Item {
    pub name: String,
    /// position keys: each jar lists its entries sorted by (pos, index in `items`)
    pub c_pos: u32,
    pub s_pos: u32,
    pub kind: ItemKind,
}

#[derive(Clone, Serialize, Deserialize, Debug, PartialEq)]
#[serde(rename_all = "snake_case")]
pub enum ItemKind {
    Dir { client: bool, server: bool },
    Res { client: Option<Blob>, server: Option<Blob> },
    Class(ClassItem),
}

/// Resource content, regenerated from (seed, len); equal on both sides iff the two blobs are equal.
#[derive(Clone, Serialize, Deserialize, Debug, PartialEq)]
pub struct Blob {
    pub seed: u64,
    pub len: u32,
}
impl Blob {
    pub fn bytes(&self) -> Vec<u8> {
        let mut r = Rng::new(self.seed);
        let mut out = Vec::with_capacity(self.len as usize);
        // half-compressible text-like content
        let words: [&[u8]; 6] = [b"minecraft", b"{\"pack\":", b"\n", b"assets/", b"=true", b"\x00\xff\x80"];
        while out.len() < self.len as usize {
            if r.chance(70) {
                out.extend_from_slice(words[r.usize(words.len())]);
            } else {
                out.push(r.below(256) as u8);
            }
        }
        out.truncate(self.len as usize);
        out
    }
}

/// A class entry: a member pool regenerated from (seed, GenCfg), and per side the explicit lists of pool
/// indices (in that side's order) plus tweaks.
#[derive(Clone, Serialize, Deserialize, Debug, PartialEq)]
pub struct ClassItem {
    pub seed: u64,
    /// enlarge the pool with the members of a second generated class
    pub pool2: bool,
    pub max_members: u8,
    pub max_insns: u16,
    pub features: u32,
    pub major_min: u16,
    pub major_max: u16,
    /// keep the pool inside what `duke::read_class` accepts today (no exception range ending at code_length, no
    /// preview minor version): refusals of such classes are C01's matter and would end the run at T0
    #[serde(default)]
    pub tame: bool,
    pub client: Option<Variant>,
    pub server: Option<Variant>,
}

#[derive(Clone, Serialize, Deserialize, Debug, PartialEq)]
pub struct Variant {
    pub itfs: Vec<u16>,
    pub fields: Vec<u16>,
    pub methods: Vec<u16>,
    #[serde(default)]
    pub tweaks: Vec<Tweak>,
    /// 0 = canonical layout, else seed of `refclass::gen_layout`
    pub layout: u64,
}

#[derive(Clone, Serialize, Deserialize, Debug, PartialEq)]
#[serde(tag = "t", rename_all = "snake_case")]
pub enum Tweak {
    // ---- a shared member whose body differs between the sides
    FieldAccess { i: u16, xor: u16 },
    MethodAccess { i: u16, xor: u16 },
    /// max_stack + 1 and line numbers dropped (methods with code), else ACC_FINAL toggled
    MethodBody { i: u16 },
    // ---- class-level differences the property does not talk about
    ClassSourceFile,
    // ---- differences merge.rs asserts on (`merge_from_client`)
    FieldDeprecated { i: u16 },
    MethodDeprecated { i: u16 },
    ClassAccess { xor: u16 },
    ClassDeprecated,
}
impl Tweak {
    fn asserts(&self) -> bool {
        matches!(self, Tweak::FieldDeprecated { .. } | Tweak::MethodDeprecated { .. } | Tweak::ClassAccess { .. } | Tweak::ClassDeprecated)
    }
}

// ------------------------------------------------------------------------------------------------------------
// workload realisation (pure functions of the plan)

fn class_pool(ci: &ClassItem, entry_name: &str) -> Sem {
    let cfg = GenCfg { max_members: ci.max_members as usize, max_insns: ci.max_insns as usize, features: ci.features, major_min: ci.major_min, major_max: ci.major_max };
    let mut r = Rng::new(ci.seed);
    let mut base = refclass::gen_class(&mut r, &cfg);
    if ci.pool2 && base.module.is_none() {
        let mut r2 = Rng::new(ci.seed ^ 0x5EED_0002);
        // same version range so that the members are legal for the class
        let cfg2 = GenCfg { major_min: base.major, major_max: base.major, features: cfg.features & !feat::MODULE, ..cfg.clone() };
        let extra = refclass::gen_class(&mut r2, &cfg2);
        base.interfaces.extend(extra.interfaces);
        base.fields.extend(extra.fields);
        base.methods.extend(extra.methods);
    }
    if base.module.is_none() {
        base.this_class = JStr::from_str(entry_name.strip_suffix(".class").unwrap_or(entry_name));
    }
    if ci.tame {
        if base.minor == 65535 {
            base.minor = 0;
        }
        // generated as random bytes; duke decodes it as modified UTF-8
        base.source_debug_extension = None;
        for m in &mut base.methods {
            if let Some(c) = &mut m.code {
                let n = c.insns.len();
                c.exceptions.retain(|e| e.end < n);
                for i in &mut c.insns {
                    tame_insn(i);
                }
                for ta in c.type_annotations.visible.iter_mut().chain(c.type_annotations.invisible.iter_mut()) {
                    if let refclass::sem::Target::Catch(i) = &mut ta.target {
                        if c.exceptions.is_empty() {
                            ta.target = refclass::sem::Target::Offset { target_type: 0x43, at: 0 };
                        } else {
                            *i = (*i as usize % c.exceptions.len()) as u16;
                        }
                    }
                }
            }
        }
    }
    // keys are unique within a class
    let mut seen: Vec<JStr> = vec![];
    base.interfaces.retain(|i| {
        let fresh = !seen.contains(i);
        if fresh {
            seen.push(i.clone());
        }
        fresh
    });
    let mut seen: Vec<(JStr, JStr)> = vec![];
    base.fields.retain(|f| {
        let k = (f.name.clone(), f.desc.clone());
        let fresh = !seen.contains(&k);
        if fresh {
            seen.push(k);
        }
        fresh
    });
    let mut seen: Vec<(JStr, JStr)> = vec![];
    base.methods.retain(|m| {
        let k = (m.name.clone(), m.desc.clone());
        let fresh = !seen.contains(&k);
        if fresh {
            seen.push(k);
        }
        fresh
    });
    base
}

// duke refuses a Fieldref/Methodref whose owner is an array class (javac emits `[I.clone()`): C01's matter
fn tame_member(m: &mut refclass::sem::MemberRef) {
    if m.owner.as_bytes().first() == Some(&b'[') {
        m.owner = JStr::from_str("java/lang/Object");
    }
}
fn tame_const(c: &mut refclass::sem::Const) {
    match c {
        refclass::sem::Const::MethodHandle(h) => tame_member(&mut h.member),
        refclass::sem::Const::Dynamic(d) => tame_dynamic(d),
        _ => {}
    }
}
fn tame_dynamic(d: &mut refclass::sem::Dynamic) {
    tame_member(&mut d.bsm.member);
    for a in &mut d.args {
        tame_const(a);
    }
}
fn tame_insn(i: &mut refclass::sem::Insn) {
    use refclass::sem::Insn;
    match i {
        Insn::Field(_, m) | Insn::Invoke(_, m) => tame_member(m),
        Insn::InvokeDynamic(d) => tame_dynamic(d),
        Insn::Ldc(c) => tame_const(c),
        _ => {}
    }
}

fn pick_unique<T: Clone>(pool: &[T], idx: &[u16]) -> Vec<T> {
    let mut used: Vec<u16> = vec![];
    let mut out = vec![];
    for i in idx {
        if (*i as usize) < pool.len() && !used.contains(i) {
            used.push(*i);
            out.push(pool[*i as usize].clone());
        }
    }
    out
}

fn realise(pool: &Sem, v: &Variant) -> Sem {
    let mut s = pool.clone();
    // tweaks address pool indices, so apply them to the pool copy first
    for t in &v.tweaks {
        match t {
            Tweak::FieldAccess { i, xor } => {
                if let Some(f) = s.fields.get_mut(*i as usize) {
                    f.access ^= xor;
                }
            }
            Tweak::MethodAccess { i, xor } => {
                if let Some(m) = s.methods.get_mut(*i as usize) {
                    m.access ^= xor;
                }
            }
            Tweak::MethodBody { i } => {
                if let Some(m) = s.methods.get_mut(*i as usize) {
                    match &mut m.code {
                        Some(c) => {
                            c.max_stack = c.max_stack.wrapping_add(1).max(1);
                            c.line_numbers.clear();
                        }
                        None => m.access ^= 0x0010,
                    }
                }
            }
            Tweak::ClassSourceFile => s.source_file = Some(JStr::from_str("Other.java")),
            Tweak::FieldDeprecated { i } => {
                if let Some(f) = s.fields.get_mut(*i as usize) {
                    f.deprecated = !f.deprecated;
                }
            }
            Tweak::MethodDeprecated { i } => {
                if let Some(m) = s.methods.get_mut(*i as usize) {
                    m.deprecated = !m.deprecated;
                }
            }
            Tweak::ClassAccess { xor } => s.access ^= xor,
            Tweak::ClassDeprecated => s.deprecated = !s.deprecated,
        }
    }
    s.interfaces = pick_unique(&s.interfaces, &v.itfs);
    s.fields = pick_unique(&s.fields, &v.fields);
    s.methods = pick_unique(&s.methods, &v.methods);
    s
}

fn encode_variant(pool: &Sem, v: &Variant) -> Result<Vec<u8>, String> {
    let sem = realise(pool, v);
    let layout = if v.layout == 0 {
        refclass::Layout { emit_map: false, ..refclass::Layout::default() }
    } else {
        let mut r = Rng::new(v.layout);
        refclass::Layout { emit_map: false, ..refclass::gen_layout(&mut r) }
    };
    refclass::encode(&sem, &layout).map(|e| e.bytes)
}

pub struct Built {
    pub client: Vec<(String, EntryData)>,
    pub server: Vec<(String, EntryData)>,
    pub c_bytes: Vec<u8>,
    pub s_bytes: Vec<u8>,
    pub encode_failures: u64,
    pub shape: u64,
}

pub fn build(p: &Plan) -> Built {
    let mut c: Vec<(u32, usize, String, EntryData)> = vec![];
    let mut s: Vec<(u32, usize, String, EntryData)> = vec![];
    let mut names: Vec<&str> = vec![];
    let mut encode_failures = 0;
    let mut shape = Digest::new();
    for (ix, it) in p.items.iter().enumerate() {
        if names.contains(&it.name.as_str()) {
            continue; // names are unique within a jar
        }
        names.push(&it.name);
        let (dc, ds) = match &it.kind {
            ItemKind::Dir { client, server } => {
                shape.u64(1);
                (client.then_some(EntryData::Dir), server.then_some(EntryData::Dir))
            }
            ItemKind::Res { client, server } => {
                shape.u64(2 + (client.is_some() as u64) * 2 + (server.is_some() as u64) * 4 + ((client == server) as u64) * 8);
                (client.as_ref().map(|b| EntryData::File(b.bytes())), server.as_ref().map(|b| EntryData::File(b.bytes())))
            }
            ItemKind::Class(ci) => {
                let pool = class_pool(ci, &it.name);
                let mut enc = |v: &Option<Variant>| match v {
                    None => None,
                    Some(v) => {
                        shape.u64(v.fields.len() as u64 * 31 + v.methods.len() as u64 * 7 + v.itfs.len() as u64);
                        match encode_variant(&pool, v) {
                            Ok(b) => Some(EntryData::File(b)),
                            Err(_) => {
                                encode_failures += 1;
                                None
                            }
                        }
                    }
                };
                let a = enc(&ci.client);
                let b = enc(&ci.server);
                shape.u64(100 + (a.is_some() as u64) + (b.is_some() as u64) * 2 + ((a == b) as u64) * 4);
                (a, b)
            }
        };
        shape.u64(crate::rng::fnv(it.name.rsplit('/').nth(1).unwrap_or("").as_bytes()));
        if let Some(d) = dc {
            c.push((it.c_pos, ix, it.name.clone(), d));
        }
        if let Some(d) = ds {
            s.push((it.s_pos, ix, it.name.clone(), d));
        }
    }
    c.sort_by_key(|x| (x.0, x.1));
    s.sort_by_key(|x| (x.0, x.1));
    let client: Vec<(String, EntryData)> = c.into_iter().map(|x| (x.2, x.3)).collect();
    let server: Vec<(String, EntryData)> = s.into_iter().map(|x| (x.2, x.3)).collect();
    let c_bytes = build_jar(&client, p.c_deflate);
    let s_bytes = build_jar(&server, p.s_deflate);
    Built { client, server, c_bytes, s_bytes, encode_failures, shape: shape.0 }
}

fn as_in(e: &[(String, EntryData)]) -> Vec<InEntry> {
    e.iter()
        .map(|(n, d)| {
            (
                n.clone(),
                match d {
                    EntryData::Dir => InContent::Dir,
                    EntryData::File(b) => InContent::File(b.clone()),
                },
            )
        })
        .collect()
}

// ------------------------------------------------------------------------------------------------------------
// calling the real code

enum Outcome {
    Panic(String, &'static str),
    Err(String, &'static str),
    Ok(Vec<(String, Obs)>, Option<Result<Vec<u8>, String>>),
}

struct JarHandles {
    c: Arc<Mutex<JarAgg>>,
    s: Arc<Mutex<JarAgg>>,
}
impl JarHandles {
    fn report(&self, st: &mut RunStats) -> (Vec<&'static str>, Vec<&'static str>, bool) {
        let mut fired = (vec![], vec![]);
        let mut fuel = false;
        for (h, out) in [(&self.c, &mut fired.0), (&self.s, &mut fired.1)] {
            let a = h.lock().unwrap();
            for s in &a.stats {
                st.io(s, Digest::new());
                out.extend(s.fired.iter().copied());
            }
            st.sched.u64(a.log.0);
            fuel |= a.fuel_exhausted;
        }
        (fired.0, fired.1, fuel)
    }
}

/// merge + observation of the result (+ optionally the jar written to memory). Each stage under `no_panic`.
fn run_merge(c_bytes: &[u8], c_io: &IoPlan, s_bytes: &[u8], s_io: &IoPlan, with_mem: bool, failed_write_first: u32) -> (Outcome, JarHandles) {
    let cj = SimJar::new(c_bytes.to_vec(), c_io);
    let sj = SimJar::new(s_bytes.to_vec(), s_io);
    let h = JarHandles { c: cj.agg.clone(), s: sj.agg.clone() };
    (merge_and_observe(cj, sj, with_mem, failed_write_first), h)
}

/// a Write + Seek sink with room for `room` bytes (ENOSPC beyond)
struct RoomFor {
    buf: std::io::Cursor<Vec<u8>>,
    room: u64,
}
impl std::io::Write for RoomFor {
    fn write(&mut self, b: &[u8]) -> std::io::Result<usize> {
        if self.buf.position() + b.len() as u64 > self.room {
            return Err(std::io::Error::from_raw_os_error(28));
        }
        self.buf.write(b)
    }
    fn flush(&mut self) -> std::io::Result<()> {
        Ok(())
    }
}
impl std::io::Seek for RoomFor {
    fn seek(&mut self, p: std::io::SeekFrom) -> std::io::Result<u64> {
        self.buf.seek(p)
    }
}

fn merge_and_observe(cj: impl dukebox::storage::Jar, sj: impl dukebox::storage::Jar, with_mem: bool, failed_write_first: u32) -> Outcome {
    let merged = match no_panic(move || dukebox::merge::merge(cj, sj)) {
        Err(pm) => return Outcome::Panic(pm, "merge"),
        Ok(Err(e)) => return Outcome::Err(format!("{e:#}"), "merge"),
        Ok(Ok(pj)) => pj,
    };
    let observed = no_panic(|| -> anyhow::Result<Vec<(String, Obs)>> {
        let mut out = vec![];
        for (name, e) in &merged.entries {
            let o = match &e.content {
                JarEntryEnum::Dir => Obs::Dir,
                JarEntryEnum::Class(c) => {
                    let c: &ClassRepr = c;
                    Obs::Class(<ClassRepr as IsClass>::write(c)?.as_ref().to_vec())
                }
                JarEntryEnum::Other(b) => Obs::Other(b.clone()),
            };
            out.push((name.clone(), o));
        }
        Ok(out)
    });
    let obs = match observed {
        Err(pm) => return Outcome::Panic(pm, "write-class"),
        Ok(Err(e)) => return Outcome::Err(format!("{e:#}"), "write-class"),
        Ok(Ok(o)) => o,
    };
    if with_mem && failed_write_first != 0 {
        // the outcome of the failing write itself is C07's business (sink phase); here only what it leaves behind counts
        let _g = crate::c07::quiet::on();
        if failed_write_first % 2 == 1 && std::path::Path::new("/dev/full").exists() {
            let _ = no_panic(|| dukebox::storage::Jar::put_to_file(&merged, std::path::Path::new("/dev/full")).map(|_| ()));
        } else {
            let _ = no_panic(|| merged.verif_write(RoomFor { buf: std::io::Cursor::new(vec![]), room: failed_write_first as u64 }).map(|_| ()));
        }
    }
    let mem = if with_mem {
        Some(match no_panic(move || merged.to_mem()) {
            Err(pm) => Err(format!("panic: {pm}")),
            Ok(Err(e)) => Err(format!("{e:#}")),
            Ok(Ok(j)) => Ok(j.data),
        })
    } else {
        None
    };
    Outcome::Ok(obs, mem)
}

/// Stable family of an error text: digits -> N, quoted / parenthesised payloads dropped.
fn family(msg: &str) -> String {
    let mut out = String::new();
    let mut depth = 0i32;
    let mut quote = false;
    let mut last_n = false;
    for ch in msg.chars() {
        match ch {
            '"' => quote = !quote,
            _ if quote => {}
            '(' | '[' | '{' => depth += 1,
            ')' | ']' | '}' => depth -= 1,
            _ if depth > 0 => {}
            c if c.is_ascii_digit() => {
                if !last_n {
                    out.push('N');
                }
                last_n = true;
                continue;
            }
            c => out.push(c),
        }
        last_n = false;
    }
    // slug: lower case, runs of other characters -> '-'
    let mut slug = String::new();
    for ch in out.chars() {
        if ch.is_ascii_alphanumeric() {
            slug.push(ch.to_ascii_lowercase());
        } else if !slug.ends_with('-') && !slug.is_empty() {
            slug.push('-');
        }
    }
    slug.trim_end_matches('-').chars().take(64).collect()
}

/// identity of a panic: file (line numbers are volatile) plus the family of the first line of the message
fn panic_id(stage: &str, pm: &str) -> String {
    let msg = pm.splitn(3, ':').nth(2).unwrap_or("").lines().next().unwrap_or("");
    format!("{stage}:{}:{}", panic_path(pm), family(msg))
}

/// merge refused a healthy pair: is it merge's own doing, or does duke alone refuse one of the input classes
/// (then it is a C01/C02 matter and gets its own path)?
fn classify_refusal(b: &Built, stage: &str, err: &str) -> (String, String) {
    for (n, d) in b.client.iter().chain(b.server.iter()) {
        let EntryData::File(bytes) = d else { continue };
        if !refmerge::is_class_name(n) {
            continue;
        }
        match no_panic(|| duke::read_class(&mut Cursor::new(bytes))) {
            Ok(Ok(tree)) => match no_panic(|| {
                let mut v = Vec::new();
                duke::write_class(&mut v, &tree).map(|_| v)
            }) {
                Ok(Ok(_)) => {}
                Ok(Err(e)) => return (format!("duke-write-class.{}", family(&e.root_cause().to_string())), format!("{n:?}: duke::write_class alone refuses the class duke read: {e:#}")),
                Err(pm) => return (panic_id("duke-write-class", &pm), format!("{n:?}: {pm}")),
            },
            Ok(Err(e)) => return (format!("duke-read-class.{}", family(&e.root_cause().to_string())), format!("{n:?}: duke::read_class alone refuses this well-formed class: {e:#}")),
            Err(pm) => return (panic_id("duke-read-class", &pm), format!("{n:?}: {pm}")),
        }
    }
    (stage.to_string(), err.to_string())
}

fn obs_digest(d: &mut Digest, obs: &[(String, Obs)]) {
    d.u64(obs.len() as u64);
    for (n, o) in obs {
        d.str(n);
        match o {
            Obs::Dir => d.u64(0),
            Obs::Class(b) => {
                d.u64(1);
                d.bytes(b)
            }
            Obs::Other(b) => {
                d.u64(2);
                d.bytes(b)
            }
        }
    }
}

/// Are two observations the same "entries list: name, kind, and for classes the parsed Sem / for others bytes"?
fn same_observation(a: &[(String, Obs)], b: &[(String, Obs)]) -> Result<(), (String, String)> {
    if a.len() != b.len() {
        return Err(("entries.len".into(), format!("{} vs {} entries", a.len(), b.len())));
    }
    for (i, ((na, oa), (nb, ob))) in a.iter().zip(b.iter()).enumerate() {
        if na != nb {
            return Err((format!("entries[{i}].name"), format!("{na:?} vs {nb:?}")));
        }
        match (oa, ob) {
            (Obs::Dir, Obs::Dir) => {}
            (Obs::Other(x), Obs::Other(y)) => {
                if x != y {
                    return Err(("resource.content".into(), format!("{na:?}: {}", refmerge::first_byte_diff(x, y))));
                }
            }
            (Obs::Class(x), Obs::Class(y)) => {
                if x != y {
                    match (refclass::parse(x), refclass::parse(y)) {
                        (Ok(sx), Ok(sy)) => {
                            if let Some(p) = sx.diff(&sy) {
                                return Err((format!("class.{p}"), format!("{na:?}: first difference at {p}")));
                            }
                        }
                        _ => return Err(("class.bytes".into(), format!("{na:?}: {}", refmerge::first_byte_diff(x, y)))),
                    }
                }
            }
            _ => return Err((format!("entries[{i}].kind"), format!("{na:?}: {} vs {}", oa.kind(), ob.kind()))),
        }
    }
    Ok(())
}

fn apply_seen(st: &mut RunStats, s: &Seen) {
    st.probe_n("identical_class_passthrough", s.identical_class);
    st.probe_n("onesided_class_client", s.onesided_client);
    st.probe_n("onesided_class_server", s.onesided_server);
    st.probe_n("differing_class", s.merged);
    st.probe_n("differing_list_compatible_orders", s.merged_compatible);
    st.probe_n("differing_list_incompatible_orders", s.merged_incompatible);
    st.probe_n("onesided_interface", s.merged_itf_onesided);
    st.probe_n("interface_order_not_kept(unconstrained)", s.interface_order_not_kept);
    st.probe_n("onesided_member", s.merged_member_onesided);
    st.probe_n("shared_member_differs", s.merged_member_shared_differs);
    st.probe_n("signature_file_dropped", s.sig_dropped);
    st.probe_n("server_library_dropped", s.lib_dropped);
    st.probe_n("resource_conflict", s.res_conflict);
    st.probe_n("manifest", s.manifest);
    st.probe_n("directory", s.dirs);
    st.probe_n("classlevel_differs_from_client(unconstrained)", s.classlevel_differs_from_client);
    st.probe_n("known.frames_dropped", s.known_frames);
    st.probe_n("known.local_vars_dropped", s.known_localvars);
    st.probe_n("class_compared_exactly", s.exact_class_compares);
    st.probe_n("input_class_outside_reference", s.input_class_unparsable);
    if let Some(n) = &s.classlevel_note {
        if st.notes.len() < 4 {
            st.notes.push(n.clone());
        }
    }
}

/// layout of a harness-built jar: where the structures are (used to aim faults)
pub struct JarLayout {
    pub len: u64,
    /// (local header start, data start, compressed size, central header start) per entry
    pub entries: Vec<(u64, u64, u64, u64)>,
    pub cd_start: u64,
}
pub fn jar_layout(bytes: &[u8]) -> JarLayout {
    let mut z = zip::ZipArchive::new(Cursor::new(bytes)).expect("harness-built jar opens");
    let mut entries = vec![];
    let mut cd_start = bytes.len() as u64;
    for i in 0..z.len() {
        let f = z.by_index_raw(i).expect("harness-built jar entry");
        cd_start = cd_start.min(f.central_header_start());
        entries.push((f.header_start(), f.data_start(), f.compressed_size(), f.central_header_start()));
    }
    if entries.is_empty() {
        cd_start = (bytes.len() as u64).saturating_sub(22);
    }
    JarLayout { len: bytes.len() as u64, entries, cd_start }
}

fn gen_fault(f: &mut Rng, l: &JarLayout) -> Fault {
    let n = l.entries.len();
    let within = |f: &mut Rng, start: u64, len: u64| start + f.below(len.max(1));
    // an offset aimed at a structure
    let aimed = |f: &mut Rng| -> u64 {
        match f.below(6) {
            0 | 1 if n > 0 => {
                let e = l.entries[f.usize(n)];
                within(f, e.1, e.2) // compressed / stored data
            }
            2 if n > 0 => {
                let e = l.entries[f.usize(n)];
                within(f, e.0, e.1 - e.0) // local header (signature, sizes, crc, name)
            }
            3 => within(f, l.cd_start, l.len.saturating_sub(22).saturating_sub(l.cd_start)), // central directory
            4 => within(f, l.len.saturating_sub(22), 22), // end of central directory record
            _ => f.below(l.len.max(1)),
        }
    };
    let calls = 8 + 8 * n as u64;
    match f.below(10) {
        0 | 1 | 2 => Fault::Flip { off: aimed(f), bit: f.below(8) as u8 },
        3 | 4 => Fault::Eof { at: if f.chance(30) { l.len.saturating_sub(1 + f.below(30)) } else { aimed(f) } },
        5 | 6 => Fault::EioAtOffset { off: aimed(f) },
        7 | 8 => Fault::Eio { at_call: f.below(calls) as u32, sticky: f.chance(60) },
        _ => Fault::SeekFail { at_call: f.below(4 + 3 * n as u64) as u32 },
    }
}

// ------------------------------------------------------------------------------------------------------------
// generation

/// a pair of index lists over 0..n whose relation is one of the shapes the property quantifies over
fn gen_list_pair(r: &mut Rng, n: usize) -> (Vec<u16>, Vec<u16>) {
    let mut p: Vec<u16> = (0..n as u16).collect();
    r.shuffle(&mut p);
    let (a, b): (Vec<u16>, Vec<u16>) = match r.below(11) {
        0 => (p.clone(), p.clone()),
        1 => {
            let k = r.usize(n + 1);
            (p.clone(), p[..k].to_vec()) // prefix
        }
        2 => {
            let k = r.usize(n + 1);
            (p.clone(), p[k..].to_vec()) // suffix
        }
        3 | 4 => {
            // interleaving: both are subsequences of one order
            let mut a = vec![];
            let mut b = vec![];
            for x in &p {
                match r.below(3) {
                    0 => a.push(*x),
                    1 => b.push(*x),
                    _ => {
                        a.push(*x);
                        b.push(*x)
                    }
                }
            }
            (a, b)
        }
        5 => {
            let k = r.usize(n + 1);
            (p[..k].to_vec(), p[k..].to_vec()) // disjoint
        }
        6 => {
            let mut q = p.clone();
            r.shuffle(&mut q);
            (p.clone(), q) // permutation
        }
        7 => {
            // one adjacent transposition plus one-sided extras
            let mut a = vec![];
            let mut b = vec![];
            for x in &p {
                match r.below(5) {
                    0 => a.push(*x),
                    1 => b.push(*x),
                    _ => {
                        a.push(*x);
                        b.push(*x)
                    }
                }
            }
            if b.len() >= 2 {
                let i = r.usize(b.len() - 1);
                b.swap(i, i + 1);
            }
            (a, b)
        }
        8 => {
            // one side has an extra element in front of / in the middle of the shared ones
            if n == 0 {
                (vec![], vec![])
            } else {
                let k = r.usize(n);
                let mut a = p.clone();
                a.remove(k);
                (a, p.clone())
            }
        }
        9 => {
            // independent subsets in independent orders
            let mut a: Vec<u16> = p.iter().copied().filter(|_| r.chance(70)).collect();
            let mut b: Vec<u16> = p.iter().copied().filter(|_| r.chance(70)).collect();
            r.shuffle(&mut a);
            r.shuffle(&mut b);
            (a, b)
        }
        _ => (vec![], p.clone()),
    };
    if r.chance(50) {
        (b, a)
    } else {
        (a, b)
    }
}

const EXACT_MASK: u32 = feat::ALL & !(feat::FRAMES | feat::DEBUG_TABLES);

fn gen_class_item(w: &mut Rng, name: &str, swarm_features: u32, big: bool, allow_asserting: bool, tame: bool) -> ClassItem {
    let mut ci = ClassItem {
        seed: w.next(),
        pool2: w.chance(40),
        max_members: if big { w.range(3, 6) as u8 } else { w.range(0, 3) as u8 },
        max_insns: *w.pick(&[0u16, 6, 12, 30]),
        features: swarm_features & !feat::MODULE | if w.chance(3) { feat::MODULE & swarm_features } else { 0 },
        major_min: 45,
        major_max: 67,
        tame,
        client: None,
        server: None,
    };
    if w.chance(50) {
        // a narrow version band: modern classes
        ci.major_min = 52;
        ci.major_max = 65;
    }
    let pool = class_pool(&ci, name);
    let (ni, nf, nm) = (pool.interfaces.len(), pool.fields.len(), pool.methods.len());
    let all = |n: usize| (0..n as u16).collect::<Vec<u16>>();
    let full = Variant { itfs: all(ni), fields: all(nf), methods: all(nm), tweaks: vec![], layout: if w.chance(50) { 0 } else { w.next() | 1 } };
    match w.below(20) {
        0..=3 => ci.client = Some(full),
        4..=7 => ci.server = Some(full),
        8..=10 => {
            ci.client = Some(full.clone());
            ci.server = Some(full); // byte-identical
        }
        11 => {
            // same class, other encoding: bytes differ, nothing is one-sided
            ci.server = Some(Variant { layout: w.next() | 1, ..full.clone() });
            ci.client = Some(full);
        }
        _ => {
            let (ia, ib) = gen_list_pair(w, ni);
            let (fa, fb) = gen_list_pair(w, nf);
            let (ma, mb) = gen_list_pair(w, nm);
            let mut a = Variant { itfs: ia, fields: fa, methods: ma, tweaks: vec![], layout: full.layout };
            let mut b = Variant { itfs: ib, fields: fb, methods: mb, tweaks: vec![], layout: if w.chance(70) { full.layout } else { w.next() | 1 } };
            // shared members with different bodies
            if w.chance(35) {
                let side = if w.chance(50) { &mut a } else { &mut b };
                for _ in 0..w.range(1, 2) {
                    let t = match w.below(4) {
                        0 if nf > 0 => Tweak::FieldAccess { i: w.usize(nf) as u16, xor: *w.pick(&[0x0010u16, 0x0080, 0x0001]) },
                        1 if nm > 0 => Tweak::MethodAccess { i: w.usize(nm) as u16, xor: *w.pick(&[0x0010u16, 0x0020, 0x0001]) },
                        2 if nm > 0 => Tweak::MethodBody { i: w.usize(nm) as u16 },
                        _ => Tweak::ClassSourceFile,
                    };
                    side.tweaks.push(t);
                }
            }
            if allow_asserting && w.chance(50) {
                let side = if w.chance(50) { &mut a } else { &mut b };
                let t = match w.below(4) {
                    0 if nf > 0 => Tweak::FieldDeprecated { i: w.usize(nf) as u16 },
                    1 if nm > 0 => Tweak::MethodDeprecated { i: w.usize(nm) as u16 },
                    2 => Tweak::ClassAccess { xor: 0x0010 },
                    _ => Tweak::ClassDeprecated,
                };
                side.tweaks.push(t);
            }
            ci.client = Some(a);
            ci.server = Some(b);
        }
    }
    ci
}

const CLASS_PREFIXES: [&str; 12] = ["net/minecraft/", "net/minecraft/", "net/minecraft/server/", "", "", "com/google/common/", "org/apache/logging/", "netx/minecraft/", "META-INF/versions/9/", "net/minecraftforge/", "net/fabricmc/api/", "net/"];
const RES_NAMES: [&str; 12] = [
    "pack.mcmeta",
    "assets/minecraft/lang/en_us.json",
    "data/minecraft/tags/a.json",
    "log4j2.xml",
    "com/google/common/thing.properties",
    "META-INF/services/java.lang.Runnable",
    "META-INF/NOTSIG.SFX",
    "notmeta/X.SF",
    "META-INF/LICENSE",
    "version.json",
    "net/minecraft/x.class.txt",
    "flightrecorder-config.jfc",
];
const SIG_NAMES: [&str; 6] = ["META-INF/MOJANG_C.SF", "META-INF/MOJANG_C.DSA", "META-INF/CODESIGN.RSA", "META-INF/CODESIGN.SF", "META-INF/EC_KEY.EC", "META-INF/MOJANG.RSA"];
const DIR_NAMES: [&str; 6] = ["net/", "net/minecraft/", "META-INF/", "assets/", "com/google/", "data/"];

fn gen_sides(w: &mut Rng) -> (bool, bool, bool) {
    // (client, server, equal)
    match w.below(5) {
        0 => (true, false, false),
        1 => (false, true, false),
        2 | 3 => (true, true, true),
        _ => (true, true, false),
    }
}

fn gen_blob(w: &mut Rng, big_ok: bool) -> Blob {
    let len = match w.below(10) {
        0 => 0,
        1..=6 => w.range(1, 200),
        7 | 8 => w.range(200, 3000),
        _ => {
            if big_ok {
                w.range(8000, 20000)
            } else {
                w.range(200, 3000)
            }
        }
    } as u32;
    Blob { seed: w.next(), len }
}

impl Engine for C13 {
    type Plan = Plan;
    fn id(&self) -> &'static str {
        "C13"
    }
    fn runs(&self, tier: Tier) -> u64 {
        match tier {
            Tier::Quick => 60_000,
            Tier::Thorough => 2_400_000,
        }
    }

    fn gen(&self, rng: &mut Rng, tier: Tier, _run: u64) -> Plan {
        let mut w = rng.split("workload");
        let mut s = rng.split("schedule");
        let mut f = rng.split("faults");

        // ---- swarm: feature mask of the whole run
        let features = match w.below(10) {
            0..=3 => EXACT_MASK & !(feat::UNICODE),
            4..=5 => EXACT_MASK,
            6 => feat::CODE | feat::ANNOTATIONS,
            7 => (w.next() as u32) & feat::ALL & EXACT_MASK | feat::CODE,
            _ => (w.next() as u32 | feat::CODE | feat::FRAMES | feat::DEBUG_TABLES) & feat::ALL,
        };
        let size = w.below(10);
        let big = size >= 8 || (tier == Tier::Thorough && size >= 6);
        let n_classes = match size {
            0 => w.below(2),
            1..=5 => w.range(1, 3),
            _ => w.range(2, 6),
        };
        let allow_asserting = w.chance(3);
        // 92 % of the runs stay inside what duke reads today (see ClassItem::tame)
        let tame = w.chance(92);
        let features = if tame { features & !feat::UNICODE } else { features };
        let mut items: Vec<Item> = vec![];
        let pos = |w: &mut Rng| if w.chance(30) { 0 } else { w.below(1000) as u32 };
        for k in 0..n_classes {
            let prefix = *w.pick(&CLASS_PREFIXES);
            let simple = match w.below(6) {
                0 => format!("a{k}"),
                1 => format!("C{k}$1"),
                2 => format!("C{k}$Inner"),
                _ => format!("C{k}"),
            };
            let name = format!("{prefix}{simple}.class");
            let ci = gen_class_item(&mut w, &name, features, big, allow_asserting, tame);
            items.push(Item { name, c_pos: pos(&mut w), s_pos: pos(&mut w), kind: ItemKind::Class(ci) });
        }
        let n_res = w.below(if big { 6 } else { 4 });
        for _ in 0..n_res {
            let name = w.pick(&RES_NAMES).to_string();
            let (c, sv, eq) = gen_sides(&mut w);
            let a = gen_blob(&mut w, big);
            let b = if eq { a.clone() } else { gen_blob(&mut w, big) };
            items.push(Item { name, c_pos: pos(&mut w), s_pos: pos(&mut w), kind: ItemKind::Res { client: c.then_some(a), server: sv.then_some(b) } });
        }
        if w.chance(55) {
            let (c, sv, eq) = gen_sides(&mut w);
            let a = Blob { seed: w.next(), len: w.range(20, 120) as u32 };
            let b = if eq { a.clone() } else { Blob { seed: w.next(), len: w.range(20, 120) as u32 } };
            items.push(Item { name: refmerge::MANIFEST.into(), c_pos: 0, s_pos: 0, kind: ItemKind::Res { client: c.then_some(a), server: sv.then_some(b) } });
        }
        // a resource whose name equals the manifest's up to case (an ordinary entry: only the exact name is the manifest) -
        // missed seeded change C13-18: the jar writer matched the manifest case-insensitively and dropped the second match
        if w.chance(8) {
            let name = w.pick(&["meta-inf/manifest.mf", "META-INF/Manifest.mf", "META-INF/manifest.MF"]).to_string();
            let (c, sv, eq) = gen_sides(&mut w);
            let a = gen_blob(&mut w, false);
            let b = if eq { a.clone() } else { gen_blob(&mut w, false) };
            items.push(Item { name, c_pos: pos(&mut w), s_pos: pos(&mut w), kind: ItemKind::Res { client: c.then_some(a), server: sv.then_some(b) } });
        }
        if w.chance(45) {
            for _ in 0..w.range(1, 3) {
                let name = w.pick(&SIG_NAMES).to_string();
                let (c, sv, eq) = gen_sides(&mut w);
                let a = gen_blob(&mut w, false);
                let b = if eq { a.clone() } else { gen_blob(&mut w, false) };
                items.push(Item { name, c_pos: pos(&mut w), s_pos: pos(&mut w), kind: ItemKind::Res { client: c.then_some(a), server: sv.then_some(b) } });
            }
        }
        for _ in 0..w.below(3) {
            let name = w.pick(&DIR_NAMES).to_string();
            let (c, sv, _) = gen_sides(&mut w);
            items.push(Item { name, c_pos: pos(&mut w), s_pos: pos(&mut w), kind: ItemKind::Dir { client: c, server: sv } });
        }
        // unique names
        let mut seen: Vec<String> = vec![];
        items.retain(|i| {
            let fresh = !seen.contains(&i.name);
            if fresh {
                seen.push(i.name.clone());
            }
            fresh
        });

        let mut p = Plan { items, c_deflate: w.chance(60), s_deflate: w.chance(60), c_io: IoPlan::plain(), s_io: IoPlan::plain(), lazy: None, failed_write_first: 0, poison_first: false, file_route: false };
        p.file_route = rng.split("file-route").chance(8);
        p.poison_first = rng.split("poison-first").chance(5);
        {
            let mut fw = rng.split("failed-write-first");
            if fw.chance(12) {
                p.failed_write_first = 1 + fw.below(2000) as u32;
            }
        }

        // ---- schedule and faults: 20 % plain, 30 % legal behaviours only, 50 % faults
        let mode = s.below(10);
        if mode >= 2 {
            match s.below(3) {
                0 => p.c_io = IoPlan::gen_legal(&mut s),
                1 => p.s_io = IoPlan::gen_legal(&mut s),
                _ => {
                    p.c_io = IoPlan::gen_legal(&mut s);
                    p.s_io = IoPlan::gen_legal(&mut s);
                }
            }
        }
        if mode >= 5 {
            if mode >= 8 {
                // faults over otherwise calm media
                p.c_io = IoPlan::plain();
                p.s_io = IoPlan::plain();
            }
            let b = build(&p);
            let lc = jar_layout(&b.c_bytes);
            let ls = jar_layout(&b.s_bytes);
            let nf = if f.chance(70) { 1 } else { 2 };
            let both = f.chance(25);
            for k in 0..nf {
                let on_client = if both { k % 2 == 0 } else { f.chance(50) };
                if on_client {
                    p.c_io.faults.push(gen_fault(&mut f, &lc));
                } else {
                    p.s_io.faults.push(gen_fault(&mut f, &ls));
                }
            }
            if both && nf == 1 {
                p.s_io.faults.push(gen_fault(&mut f, &ls));
            }
        }
        // ---- the entry-level seam
        let mut z = rng.split("lazy-jar");
        if z.chance(20) {
            let span = 5 * p.items.len() as u64 + 6;
            let n = p.items.len() as u64;
            let side = |z: &mut Rng| {
                let mut l = crate::simjar::LazyPlan::draw(z, span, n);
                l.renumber = z.chance(30);
                l
            };
            let c = side(&mut z);
            let sv = side(&mut z);
            p.lazy = Some((c, sv));
        }
        p
    }

    fn exec(&self, p: &Plan, st: &mut RunStats) -> Vec<Violation> {
        if p.poison_first && crate::c02::poison_write() {
            st.probe("poison_write_first");
        }
        let mut out = vec![];
        let b = build(p);
        st.shape = b.shape;
        st.probe_n("harness.encode_refused(entry skipped)", b.encode_failures);
        let mut obs = Digest::new();
        let plain = IoPlan::plain();
        let asserting = p.items.iter().any(|i| match &i.kind {
            ItemKind::Class(c) => [&c.client, &c.server].into_iter().flatten().any(|v| v.tweaks.iter().any(|t| t.asserts())),
            _ => false,
        });
        if asserting {
            st.probe("workload.difference_merge_asserts_on");
        }

        // ---------------- T0: plain media, compare with the reference union
        st.tier("T0");
        let reference: RefMerge = refmerge::reference(&as_in(&b.client), &as_in(&b.server));
        let (r0, h0) = run_merge(&b.c_bytes, &plain, &b.s_bytes, &plain, true, p.failed_write_first);
        h0.report(st);
        let mut t0_ids: Vec<(String, String)> = vec![];
        let obs0 = match r0 {
            Outcome::Panic(pm, stage) => {
                obs.u64(0xDEAD);
                out.push(Violation::new("T0", "panic", panic_id(stage, &pm), pm));
                st.obs = obs;
                return out;
            }
            Outcome::Err(e, stage) => {
                obs.u64(0xE44);
                if reference.may_fail() {
                    st.probe("kind_conflict_refused");
                } else {
                    let (path, detail) = classify_refusal(&b, stage, &e);
                    st.probe("t0_refused");
                    st.probe(if path.contains("label-for-bytecode") {
                        "t0_refused.duke_label_at_code_length"
                    } else if path.contains("-utf-") {
                        "t0_refused.duke_mutf8"
                    } else if path.contains("array-class-name") {
                        "t0_refused.duke_array_class_name"
                    } else if path.contains("class-file-version") {
                        "t0_refused.duke_version"
                    } else if path.starts_with("duke-") {
                        "t0_refused.duke_other"
                    } else {
                        "t0_refused.merge_itself"
                    });
                    if std::env::var_os("C13_DEBUG").is_some() {
                        eprintln!("REFUSED {path}");
                    }
                    out.push(Violation::new("T0", "refused-wellformed", path, detail));
                }
                st.obs = obs;
                return out;
            }
            Outcome::Ok(o, mem) => {
                obs_digest(&mut obs, &o);
                let mut seen = Seen::default();
                for i in refmerge::check(&reference, &o, &mut seen) {
                    t0_ids.push((i.class.to_string(), i.path.clone()));
                    out.push(Violation::new("T0", i.class, i.path, i.detail));
                }
                apply_seen(st, &seen);
                // the jar written to memory holds exactly the observed entries
                match mem {
                    Some(Ok(data)) => match open_entries(&data) {
                        Ok(es) => {
                            st.probe("to_mem_reopened");
                            if es.len() != o.len() {
                                out.push(Violation::new("T0", "invalid-output", "to_mem.entries.len", format!("{} entries in the written jar, {} in the ParsedJar", es.len(), o.len())));
                            } else {
                                for ((n1, d1), (n2, o2)) in es.iter().zip(o.iter()) {
                                    let same = n1 == n2
                                        && match (d1, o2) {
                                            (EntryData::Dir, Obs::Dir) => true,
                                            (EntryData::File(x), Obs::Class(y)) | (EntryData::File(x), Obs::Other(y)) => x == y,
                                            _ => false,
                                        };
                                    if !same {
                                        out.push(Violation::new("T0", "invalid-output", "to_mem.entry", format!("written jar entry {n1:?} differs from ParsedJar entry {n2:?}")));
                                        break;
                                    }
                                }
                            }
                        }
                        Err(e) => out.push(Violation::new("T0", "invalid-output", "to_mem.reopen", format!("{e:#}"))),
                    },
                    Some(Err(e)) => out.push(Violation::new("T0", "refused-wellformed", "to_mem", e)),
                    None => {}
                }
                o
            }
        };

        // ---------------- T1 / T2: the same pair through the simulated media
        if !(p.c_io.is_plain() && p.s_io.is_plain()) {
            let legal = p.c_io.legal_only() && p.s_io.legal_only();
            let tier = if legal { "T1" } else { "T2" };
            st.tier(tier);
            let (r1, h1) = run_merge(&b.c_bytes, &p.c_io, &b.s_bytes, &p.s_io, false, 0);
            let (fired_c, fired_s, fuel) = h1.report(st);
            if fuel {
                out.push(Violation::new(tier, "runaway", "merge", "medium fuel exhausted"));
            }
            if !fired_c.is_empty() {
                st.probe("fault_fired_client_side");
            }
            if !fired_s.is_empty() {
                st.probe("fault_fired_server_side");
            }
            if !fired_c.is_empty() && !fired_s.is_empty() {
                st.probe("fault_fired_both_sides");
            }
            match r1 {
                Outcome::Panic(pm, stage) => {
                    obs.u64(0xDEAD);
                    out.push(Violation::new(tier, "panic", panic_id(stage, &pm), pm));
                }
                Outcome::Err(e, stage) => {
                    obs.u64(0xE44);
                    if legal {
                        out.push(Violation::new("T1", "schedule-dependence", format!("{stage}.result"), format!("legal short/interrupted reads made merge fail: {e}")));
                    } else {
                        st.probe("merge_err_under_fault");
                    }
                }
                Outcome::Ok(o, _) => {
                    obs_digest(&mut obs, &o);
                    if legal {
                        if let Err((path, d)) = same_observation(&obs0, &o) {
                            out.push(Violation::new("T1", "schedule-dependence", path, d));
                        }
                    } else {
                        // what did the media actually deliver?
                        let dc = SimJar::new(b.c_bytes.clone(), &p.c_io).delivered();
                        let ds = SimJar::new(b.s_bytes.clone(), &p.s_io).delivered();
                        let damaged = dc != b.c_bytes || ds != b.s_bytes;
                        if !fired_c.is_empty() || !fired_s.is_empty() {
                            st.probe("merge_ok_despite_fired_fault");
                        }
                        if !damaged {
                            // only transient faults (EIO, failed seek): an Ok must be the complete T0 answer
                            if let Err((path, d)) = same_observation(&obs0, &o) {
                                out.push(Violation::new("T2", "reader-ok-with-wrong-data", format!("undamaged.{path}"), d));
                            }
                        } else {
                            match (refmerge::open_lazy(&dc), refmerge::open_lazy(&ds)) {
                                (Ok(ec), Ok(es)) => {
                                    let r = refmerge::reference(&ec, &es);
                                    if let Some(why) = r.must_fail() {
                                        out.push(Violation::new("T2", "reader-ok-with-wrong-data", "merge.ok-though-entry-unreadable", format!("merge returned Ok although an entry it has to carry over is not delivered: {why}")));
                                    } else {
                                        st.probe("merge_ok_on_damaged_jar_compared_with_reference");
                                        let mut seen = Seen::default();
                                        let issues = refmerge::check(&r, &o, &mut seen);
                                        // input-level findings reproduce when the DELIVERED bytes are merged over plain media;
                                        // they are T0's business (other workload), not a property of the fault
                                        let (rp, _hp) = run_merge(&dc, &plain, &ds, &plain, false, 0);
                                        let plain_ids: Vec<(String, String)> = match &rp {
                                            Outcome::Ok(o2, _) => {
                                                if let Err((path, d)) = same_observation(o2, &o) {
                                                    out.push(Violation::new("T2", "reader-ok-with-wrong-data", format!("damaged-vs-plain-delivery.{path}"), d));
                                                }
                                                let mut s2 = Seen::default();
                                                refmerge::check(&r, o2, &mut s2).into_iter().map(|i| (i.class.to_string(), abstract_indices(&i.path))).collect()
                                            }
                                            _ => vec![],
                                        };
                                        for i in issues {
                                            let id = (i.class.to_string(), abstract_indices(&i.path));
                                            if plain_ids.contains(&id) || t0_ids.iter().any(|(c, p)| *c == id.0 && abstract_indices(p) == id.1) {
                                                continue;
                                            }
                                            out.push(Violation::new("T2", "reader-ok-with-wrong-data", format!("damaged.{}", i.path), i.detail));
                                        }
                                    }
                                }
                                (a, b2) => {
                                    let why = a.err().or(b2.err()).unwrap_or_default();
                                    out.push(Violation::new("T2", "reader-ok-with-wrong-data", "merge.ok-on-unopenable-jar", format!("merge returned Ok although the zip crate refuses the delivered bytes: {why}")));
                                }
                            }
                        }
                    }
                }
            }
            if !legal {
                // heal: the healthy pair merges to the T0 answer again
                let (r2, _h2) = run_merge(&b.c_bytes, &plain, &b.s_bytes, &plain, false, 0);
                match r2 {
                    Outcome::Ok(o, _) => {
                        if let Err((path, d)) = same_observation(&obs0, &o) {
                            out.push(Violation::new("T2", "residue-after-heal", path, d));
                        }
                    }
                    Outcome::Err(e, stage) => out.push(Violation::new("T2", "residue-after-heal", format!("{stage}.result"), e)),
                    Outcome::Panic(pm, stage) => out.push(Violation::new("T2", "panic", format!("heal.{}", panic_id(stage, &pm)), pm)),
                }
            }
        }
        // ---------------- the jars as files behind dukebox FileJar, under paths that held the other jar before
        if p.file_route {
            use crate::simjar::build_jar_commented;
            if let (Ok(ec), Ok(es)) = (open_entries(&b.c_bytes), open_entries(&b.s_bytes)) {
                let (c0, s0) = (build_jar_commented(&ec, p.c_deflate, 0), build_jar_commented(&es, p.s_deflate, 0));
                let (pc, ps) = (s0.len().saturating_sub(c0.len()), c0.len().saturating_sub(s0.len()));
                // comment lengths that make all four files equally long (1 extra byte each so that both carry a comment)
                let (c_real, s_real) = (build_jar_commented(&ec, p.c_deflate, pc + 1), build_jar_commented(&es, p.s_deflate, ps + 1));
                if c_real.len() == s_real.len() {
                    st.tier("T1");
                    st.probe("file_route");
                    st.nontrivial = true;
                    let mut dir = crate::simdir::SimDir::new("c13");
                    // first generation: swapped
                    dir.create("client.jar", &s_real);
                    dir.create("server.jar", &c_real);
                    let open = |d: &crate::simdir::SimDir| (dukebox::storage::FileJar { path: d.join("client.jar") }, dukebox::storage::FileJar { path: d.join("server.jar") });
                    let (cj, sj) = open(&dir);
                    let _ = merge_and_observe(cj, sj, false, 0);
                    dir.overwrite_keep_mtime("client.jar", &c_real);
                    dir.overwrite_keep_mtime("server.jar", &s_real);
                    st.events += 8;
                    st.sched.u64(0xF11E);
                    let (cj, sj) = open(&dir);
                    match merge_and_observe(cj, sj, false, 0) {
                        Outcome::Ok(o, _) => {
                            if let Err((path, d)) = same_observation(&obs0, &o) {
                                out.push(Violation::new("T1", "residue-after-heal", format!("file.{path}"), format!("merged through FileJars under paths that held the other jar before: {d}")));
                            }
                        }
                        Outcome::Err(e, stage) => out.push(Violation::new("T1", "residue-after-heal", format!("file.{stage}.result"), format!("merge of the jars stored as files fails: {e}"))),
                        Outcome::Panic(pm, stage) => out.push(Violation::new("T1", "panic", format!("file.{stage}:{}", panic_path(&pm)), pm)),
                    }
                }
            }
        }
        // ---------------- the entry-level seam: the same pair behind two LazyJars
        if let Some((lc, ls)) = &p.lazy {
            use crate::simjar::{LazyJar, SharedLazy};
            let cj = Arc::new(LazyJar::new(b.client.clone(), lc));
            let sj = Arc::new(LazyJar::new(b.server.clone(), ls));
            let r = merge_and_observe(SharedLazy(cj.clone()), SharedLazy(sj.clone()), false, 0);
            cj.report(st);
            sj.report(st);
            let failed = cj.failed() + sj.failed() > 0;
            let tier = if failed { "T2" } else { "T1" };
            st.tier(tier);
            obs.u64(0x1a2);
            match r {
                Outcome::Panic(pm, stage) => out.push(Violation::new(tier, "panic", panic_id(stage, &pm), pm)),
                Outcome::Err(e, stage) => {
                    obs.u64(0xE44);
                    if failed {
                        st.probe("lazy.err_after_failed_entry_operation");
                    } else {
                        out.push(Violation::new("T1", "schedule-dependence", format!("lazy.{stage}.result"), format!("fails on jars that hand out their entries one by one although no entry operation failed: {e}")));
                    }
                }
                Outcome::Ok(o, _) => {
                    obs_digest(&mut obs, &o);
                    if failed {
                        st.probe("lazy.ok_after_failed_entry_operation");
                    }
                    // the data is intact whatever failed in between: an answer must be THE answer. The ORDER of the entries
                    // of the merged jar follows the order in which the jars list their names, which the property does
                    // not constrain: with a drawn names order the comparison is by entry name
                    let (mut a, mut b2) = (obs0.clone(), o.clone());
                    if lc.names_order != 0 || ls.names_order != 0 || lc.renumber || ls.renumber {
                        a.sort_by(|x, y| x.0.cmp(&y.0));
                        b2.sort_by(|x, y| x.0.cmp(&y.0));
                    }
                    if let Err((path, d)) = same_observation(&a, &b2) {
                        let class = if failed { "reader-ok-with-wrong-data" } else { "schedule-dependence" };
                        out.push(Violation::new(tier, class, format!("lazy.{path}"), d));
                    }
                }
            }
        }
        st.obs = obs;
        out
    }

    fn shrink(&self, p: &Plan) -> Vec<Plan> {
        let mut c: Vec<Plan> = vec![];
        if p.failed_write_first != 0 {
            c.push(Plan { failed_write_first: 0, ..p.clone() });
        }
        if p.poison_first {
            c.push(Plan { poison_first: false, ..p.clone() });
        }
        if p.file_route {
            c.push(Plan { file_route: false, ..p.clone() });
        }
        if let Some((lc, ls)) = &p.lazy {
            c.push(Plan { lazy: None, ..p.clone() });
            for l in lc.smaller() {
                c.push(Plan { lazy: Some((l, ls.clone())), ..p.clone() });
            }
            for l in ls.smaller() {
                c.push(Plan { lazy: Some((lc.clone(), l)), ..p.clone() });
            }
        }
        // ---- faults and schedule
        for io in shrink_io(&p.c_io) {
            c.push(Plan { c_io: io, ..p.clone() });
        }
        for io in shrink_io(&p.s_io) {
            c.push(Plan { s_io: io, ..p.clone() });
        }
        // ---- entries
        let n = p.items.len();
        if n > 3 {
            c.push(Plan { items: p.items[..n / 2].to_vec(), ..p.clone() });
            c.push(Plan { items: p.items[n / 2..].to_vec(), ..p.clone() });
        }
        for i in 0..n {
            let mut q = p.clone();
            q.items.remove(i);
            c.push(q);
        }
        if p.c_deflate || p.s_deflate {
            c.push(Plan { c_deflate: false, s_deflate: false, ..p.clone() });
        }
        if p.items.iter().any(|i| i.c_pos != 0 || i.s_pos != 0) {
            let mut q = p.clone();
            for i in &mut q.items {
                i.c_pos = 0;
                i.s_pos = 0;
            }
            c.push(q);
        }
        // ---- inside entries
        for (ix, it) in p.items.iter().enumerate() {
            let put = |c: &mut Vec<Plan>, k: ItemKind| {
                let mut q = p.clone();
                q.items[ix].kind = k;
                c.push(q);
            };
            match &it.kind {
                ItemKind::Dir { .. } => {}
                ItemKind::Res { client, server } => {
                    for (a, b) in [(client, server)] {
                        let small = |x: &Option<Blob>| x.as_ref().map(|b| Blob { seed: b.seed, len: b.len.min(4) });
                        if a.as_ref().is_some_and(|x| x.len > 4) || b.as_ref().is_some_and(|x| x.len > 4) {
                            put(&mut c, ItemKind::Res { client: small(a), server: small(b) });
                        }
                    }
                }
                ItemKind::Class(ci) => {
                    if ci.client.is_some() && ci.server.is_some() {
                        put(&mut c, ItemKind::Class(ClassItem { server: None, ..ci.clone() }));
                        put(&mut c, ItemKind::Class(ClassItem { client: None, ..ci.clone() }));
                    }
                    if ci.pool2 {
                        put(&mut c, ItemKind::Class(ClassItem { pool2: false, ..ci.clone() }));
                    }
                    // drop a pool member from both sides, then from one side
                    let both = |f: &dyn Fn(&mut Variant)| {
                        let mut x = ci.clone();
                        if let Some(v) = &mut x.client {
                            f(v);
                        }
                        if let Some(v) = &mut x.server {
                            f(v);
                        }
                        x
                    };
                    let mut used: (Vec<u16>, Vec<u16>, Vec<u16>) = (vec![], vec![], vec![]);
                    for v in [&ci.client, &ci.server].into_iter().flatten() {
                        for (dst, src) in [(&mut used.0, &v.itfs), (&mut used.1, &v.fields), (&mut used.2, &v.methods)] {
                            for i in src {
                                if !dst.contains(i) {
                                    dst.push(*i);
                                }
                            }
                        }
                    }
                    if used.0.len() + used.1.len() + used.2.len() > 2 {
                        put(&mut c, ItemKind::Class(both(&|v| v.itfs.clear())));
                        put(&mut c, ItemKind::Class(both(&|v| v.fields.clear())));
                        put(&mut c, ItemKind::Class(both(&|v| v.methods.clear())));
                    }
                    for i in &used.0 {
                        put(&mut c, ItemKind::Class(both(&|v| v.itfs.retain(|x| x != i))));
                    }
                    for i in &used.1 {
                        put(&mut c, ItemKind::Class(both(&|v| v.fields.retain(|x| x != i))));
                    }
                    for i in &used.2 {
                        put(&mut c, ItemKind::Class(both(&|v| v.methods.retain(|x| x != i))));
                    }
                    for side in 0..2 {
                        let Some(v) = (if side == 0 { &ci.client } else { &ci.server }) else { continue };
                        let set = |c: &mut Vec<Plan>, nv: Variant| {
                            let mut x = ci.clone();
                            if side == 0 {
                                x.client = Some(nv);
                            } else {
                                x.server = Some(nv);
                            }
                            put(c, ItemKind::Class(x));
                        };
                        for k in 0..v.itfs.len() {
                            let mut nv = v.clone();
                            nv.itfs.remove(k);
                            set(&mut c, nv);
                        }
                        for k in 0..v.fields.len() {
                            let mut nv = v.clone();
                            nv.fields.remove(k);
                            set(&mut c, nv);
                        }
                        for k in 0..v.methods.len() {
                            let mut nv = v.clone();
                            nv.methods.remove(k);
                            set(&mut c, nv);
                        }
                        for k in 0..v.tweaks.len() {
                            let mut nv = v.clone();
                            nv.tweaks.remove(k);
                            set(&mut c, nv);
                        }
                        if v.layout != 0 {
                            set(&mut c, Variant { layout: 0, ..v.clone() });
                        }
                    }
                    // a simpler pool (regenerates the members: kept only if the same violation persists)
                    for fm in [feat::CODE, EXACT_MASK & !feat::UNICODE] {
                        if ci.features & fm != ci.features {
                            put(&mut c, ItemKind::Class(ClassItem { features: ci.features & fm, ..ci.clone() }));
                        }
                    }
                    if ci.max_insns > 6 {
                        put(&mut c, ItemKind::Class(ClassItem { max_insns: 6, ..ci.clone() }));
                    }
                }
            }
        }
        // a candidate must change something, otherwise the greedy loop would spin on it
        c.retain(|q| q != p);
        c
    }

    fn size(&self, p: &Plan) -> (u64, u64) {
        let mut ops = 0u64;
        for i in &p.items {
            ops += 1;
            if let ItemKind::Class(c) = &i.kind {
                for v in [&c.client, &c.server].into_iter().flatten() {
                    ops += (v.itfs.len() + v.fields.len() + v.methods.len() + v.tweaks.len()) as u64;
                }
            }
        }
        (ops + p.lazy.is_some() as u64, (p.c_io.faults.len() + p.s_io.faults.len() + p.lazy.as_ref().map_or(0, |(a, b)| a.faults() + b.faults())) as u64)
    }

    fn rule(&self) -> String {
        "one run = one pair of jars (0-6 class names, each client-only / server-only / byte-identical / same class in another encoding / differing: per side explicit interface, field and method lists drawn as equal, prefix, suffix, interleaving, disjoint, permutation, adjacent transposition, one extra element, independent subsets; optional shared members with different bodies; resources equal / different / one-sided; MANIFEST; signature files; directories; library-package and default-package class names; entry order and deflate/stored per jar) x one I/O plan per jar (20 % plain, 30 % legal chunking/EINTR on one or both, 50 % with 1-2 faults on either or both jars: flip / EOF / EIO-at-offset aimed at entry data, local header, central directory or end record; EIO at call n; failed seek). A run counts as non-trivial when a short transfer, EINTR or fault actually fired, and as distinct by (workload shape digest, I/O event-log digest of both readers)".into()
    }
    fn assumptions(&self) -> Vec<String> {
        vec![
            "facts of the API taken from merge.rs, not from the property: side mark = annotation Lnet/fabricmc/api/Environment; with value = enum Lnet/fabricmc/api/EnvType; CLIENT|SERVER; interface marks = Lnet/fabricmc/api/EnvironmentInterfaces; holding Lnet/fabricmc/api/EnvironmentInterface; {value = side, itf = class}; the oracle accepts the marks in the visible or the invisible annotation list (the property does not say which) and requires exactly one per one-sided element and none on shared ones".into(),
            "entry kinds as dukebox decides them: a zip directory entry is a directory, a name ending in .class is a class, anything else a resource".into(),
            "'bundled server library' = a class entry that only the server jar has, inside a package (name contains '/') other than net/minecraft/ (definition taken from merge.rs); a library-package class that BOTH jars have is an entry of the client jar and must be kept".into(),
            "'signature files' = names directly under META-INF/ ending in .SF (signature file) or .RSA/.DSA/.EC (signature block files of the JAR specification); merge.rs drops only .SF and .RSA, a kept .DSA/.EC is reported under its own path entries.unexpected.signature-block-dsa-ec; other spellings (lower case, nested, SIG-*) are not generated and tolerated either way".into(),
            "the property is silent on the following, the oracle follows merge.rs: META-INF/MANIFEST.MF is replaced by the fixed two-line manifest; a resource that differs between the sides keeps the client's bytes; a member present on both sides with different content keeps the client's version (unmarked)".into(),
            "class-level content of a differing class other than interfaces, fields and methods (version, flags, attributes, record components, permitted subclasses, inner classes) is not constrained by the property: differences from the client's are counted (probe classlevel_differs_from_client), never flagged".into(),
            "a one-sided class must equal its source class plus the mark, compared as refclass::Sem (the class is re-encoded by duke, so bytes are not compared); differences in stack map frames and local variable tables (known duke defects) are reported under <stage>.method[*].code.frame* / .local_var* and neutralised so that the rest of the class is still compared".into(),
            "order clause: the orders of a list on the two sides are compatible iff the keys both sides share occur in the same relative order; then the merged list restricted to each side's keys must equal that side's list; otherwise only exactly-once is demanded. The statement's order clause names members (fields, methods); for the interface list only exactly-once and the marks are demanded, a lost interface order is counted (probe interface_order_not_kept)".into(),
            "92 % of the runs keep the generated classes inside what duke::read_class accepts today (no exception range ending at code_length, no array-class owners in member references, no preview minor version, no SourceDebugExtension, no non-ASCII names): a class duke refuses makes merge return Err, which is C01's matter and is filed under refused-wellformed/duke-read-class.*; the other 8 % are untamed".into(),
            "3 % of the runs may draw a difference merge.rs asserts on (class version/access, Deprecated/Synthetic attribute of the class or of a shared member); everywhere else classes on both sides differ only in member lists, member bodies (access flag, max_stack, line numbers) and SourceFile".into(),
            "T2: an Ok under faults is compared with the reference union of the entries the zip crate delivers from the DELIVERED bytes of each jar (entries the merge has to drop need not be readable); when only transient faults fired (EIO, failed seek) an Ok must equal the T0 observation; findings already reported at T0 for the same run are not repeated at T2".into(),
            "jar entries of the merged result are observed from ParsedJar.entries (name, kind, class bytes via IsClass::write / resource bytes), never from jar bytes (the zip crate stamps the wall clock); to_mem() is reopened and must hold the same entries".into(),
            "harness profile: opt-level 2 with overflow checks and debug assertions".into(),
        ]
    }
    fn real_and_stub(&self) -> serde_json::Value {
        json!({
            "real": ["dukebox::merge::merge", "dukebox::storage::{ParsedJar::to_mem, zip_impls (OpenedJar/JarEntry for ZipArchive/ZipFile), ClassRepr, IsClass, IsOther}", "duke::{read_class, write_class}", "zip::ZipArchive (reading, over the simulated reader)"],
            "stub": ["both jar media (SimJar -> SimReader: chunking, EINTR, EIO, EOF, flipped byte, failed seek)", "zip crate used to ASSEMBLE the input jars and to re-open delivered / written jars (trusted)"],
            "reference": ["refmerge::{reference, check} (union model from the property statement)", "refclass::{gen_class, encode, parse, Sem::diff}"]
        })
    }
    fn expected_probes(&self) -> Vec<&'static str> {
        vec![
            "identical_class_passthrough",
            "onesided_class_client",
            "onesided_class_server",
            "differing_class",
            "differing_list_compatible_orders",
            "differing_list_incompatible_orders",
            "onesided_interface",
            "onesided_member",
            "shared_member_differs",
            "signature_file_dropped",
            "server_library_dropped",
            "resource_conflict",
            "manifest",
            "directory",
            "class_compared_exactly",
            "fault_fired_client_side",
            "fault_fired_server_side",
            "fault_fired_both_sides",
            "merge_err_under_fault",
            "merge_ok_on_damaged_jar_compared_with_reference",
            "io.eintr",
            "io.short_transfers",
            "to_mem_reopened",
            "lazy.err_after_failed_entry_operation",
        ]
    }
}
