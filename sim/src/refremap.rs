//! Reference renaming for C07: an independent remapper `Rho` (built from the mapping model and the class
//! hierarchy of the jar), a traversal of EVERY reference-carrying position of `refclass::Sem`, the reference
//! renaming `rename(&Sem, &Rho) -> Sem`, and a component-wise diff that reports every differing component
//! (not just the first), so that one known defect does not hide another.
//!
//! Written from the property statement and the documented lookup rules of the remapper; where the property
//! leaves a choice open the real code was read and its choice adopted (each such place is marked ADOPTED and
//! listed in `C07::assumptions()`).

use crate::refmap::{split_mkey, MapSet};
use refclass::sem::*;
use refclass::JStr;
use std::collections::BTreeMap;

// ------------------------------------------------------------------------------------------------
// positions

#[derive(Clone, Copy, Debug, PartialEq, Eq, PartialOrd, Ord)]
pub enum Pos {
    ThisClass,
    Super,
    Interface,
    FieldDecl,
    MethodDecl,
    Throws,
    FieldInsn,
    MethodInsn,
    TypeInsn,
    LdcClass,
    LdcMethodType,
    Handle,
    BootstrapArg,
    IndyDesc,
    CondyDesc,
    CatchType,
    FrameType,
    LocalVarDesc,
    LocalVarSig,
    AnnoType,
    AnnoClassValue,
    EnumValue,
    InnerClass,
    EnclosingMethod,
    NestHost,
    NestMember,
    PermittedSubclass,
    RecordComponent,
    Signature,
    ModuleClass,
}

impl Pos {
    pub const ALL: [Pos; 30] = [
        Pos::ThisClass,
        Pos::Super,
        Pos::Interface,
        Pos::FieldDecl,
        Pos::MethodDecl,
        Pos::Throws,
        Pos::FieldInsn,
        Pos::MethodInsn,
        Pos::TypeInsn,
        Pos::LdcClass,
        Pos::LdcMethodType,
        Pos::Handle,
        Pos::BootstrapArg,
        Pos::IndyDesc,
        Pos::CondyDesc,
        Pos::CatchType,
        Pos::FrameType,
        Pos::LocalVarDesc,
        Pos::LocalVarSig,
        Pos::AnnoType,
        Pos::AnnoClassValue,
        Pos::EnumValue,
        Pos::InnerClass,
        Pos::EnclosingMethod,
        Pos::NestHost,
        Pos::NestMember,
        Pos::PermittedSubclass,
        Pos::RecordComponent,
        Pos::Signature,
        Pos::ModuleClass,
    ];
    /// probe name: "a reference at this position was actually changed by the remapper"
    pub fn probe(self) -> &'static str {
        match self {
            Pos::ThisClass => "pos.this_class",
            Pos::Super => "pos.super",
            Pos::Interface => "pos.interface",
            Pos::FieldDecl => "pos.field_decl",
            Pos::MethodDecl => "pos.method_decl",
            Pos::Throws => "pos.throws",
            Pos::FieldInsn => "pos.field_insn",
            Pos::MethodInsn => "pos.method_insn",
            Pos::TypeInsn => "pos.type_insn",
            Pos::LdcClass => "pos.ldc_class",
            Pos::LdcMethodType => "pos.ldc_method_type",
            Pos::Handle => "pos.handle",
            Pos::BootstrapArg => "pos.bootstrap_arg",
            Pos::IndyDesc => "pos.indy_desc",
            Pos::CondyDesc => "pos.condy_desc",
            Pos::CatchType => "pos.catch_type",
            Pos::FrameType => "pos.frame_type",
            Pos::LocalVarDesc => "pos.local_var_desc",
            Pos::LocalVarSig => "pos.local_var_sig",
            Pos::AnnoType => "pos.annotation_type",
            Pos::AnnoClassValue => "pos.annotation_class_value",
            Pos::EnumValue => "pos.enum_value",
            Pos::InnerClass => "pos.inner_class_record",
            Pos::EnclosingMethod => "pos.enclosing_method",
            Pos::NestHost => "pos.nest_host",
            Pos::NestMember => "pos.nest_member",
            Pos::PermittedSubclass => "pos.permitted_subclass",
            Pos::RecordComponent => "pos.record_component",
            Pos::Signature => "pos.signature",
            Pos::ModuleClass => "pos.module_class",
        }
    }
}

// ------------------------------------------------------------------------------------------------
// traversal of every reference-carrying position

/// Callbacks of the traversal. All names are the ORIGINAL ones when a callback is entered; the callback
/// replaces them in place.
pub trait RefVisitor {
    /// a CONSTANT_Class style name: internal class name or array descriptor
    fn class(&mut self, pos: Pos, c: &mut JStr);
    /// a field, method or return descriptor
    fn desc(&mut self, pos: Pos, d: &mut JStr);
    fn field_decl(&mut self, this: &JStr, name: &mut JStr, desc: &mut JStr);
    fn method_decl(&mut self, this: &JStr, name: &mut JStr, desc: &mut JStr);
    fn field_ref(&mut self, pos: Pos, m: &mut MemberRef);
    fn method_ref(&mut self, pos: Pos, m: &mut MemberRef);
    fn enclosing_method(&mut self, class: &mut JStr, method: &mut Option<(JStr, JStr)>);
    fn enum_const(&mut self, type_desc: &mut JStr, const_name: &mut JStr);
    fn record_component(&mut self, this: &JStr, name: &mut JStr, desc: &mut JStr);
    fn signature(&mut self, pos: Pos, s: &mut JStr);
}

fn w_annotation<V: RefVisitor>(a: &mut Annotation, v: &mut V) {
    let Annotation { type_desc, pairs } = a;
    v.desc(Pos::AnnoType, type_desc);
    for p in pairs {
        let Pair { name: _, value } = p; // element names: no descriptor at hand, left alone (see assumptions)
        w_element(value, v);
    }
}
fn w_element<V: RefVisitor>(e: &mut ElementValue, v: &mut V) {
    match e {
        ElementValue::Byte(_)
        | ElementValue::Char(_)
        | ElementValue::Double(_)
        | ElementValue::Float(_)
        | ElementValue::Int(_)
        | ElementValue::Long(_)
        | ElementValue::Short(_)
        | ElementValue::Boolean(_)
        | ElementValue::String(_) => {}
        ElementValue::Enum { type_desc, const_name } => v.enum_const(type_desc, const_name),
        ElementValue::Class(d) => v.desc(Pos::AnnoClassValue, d),
        ElementValue::Annotation(a) => w_annotation(a, v),
        ElementValue::Array(xs) => {
            for x in xs {
                w_element(x, v);
            }
        }
    }
}
fn w_annotations<V: RefVisitor>(a: &mut Annotations, v: &mut V) {
    let Annotations { visible, invisible } = a;
    for x in visible.iter_mut().chain(invisible.iter_mut()) {
        w_annotation(x, v);
    }
}
fn w_type_annotations<V: RefVisitor>(a: &mut TypeAnnotations, v: &mut V) {
    let TypeAnnotations { visible, invisible } = a;
    for x in visible.iter_mut().chain(invisible.iter_mut()) {
        let TypeAnnotation { target: _, path: _, annotation } = x;
        w_annotation(annotation, v);
    }
}
fn w_handle<V: RefVisitor>(h: &mut Handle, pos: Pos, v: &mut V) {
    let Handle { kind, member } = h;
    if (1..=4).contains(kind) {
        v.field_ref(pos, member);
    } else {
        v.method_ref(pos, member);
    }
}
fn w_const<V: RefVisitor>(c: &mut Const, arg: bool, v: &mut V) {
    match c {
        Const::Int(_) | Const::Float(_) | Const::Long(_) | Const::Double(_) | Const::String(_) => {}
        Const::Class(n) => v.class(if arg { Pos::BootstrapArg } else { Pos::LdcClass }, n),
        Const::MethodType(d) => v.desc(if arg { Pos::BootstrapArg } else { Pos::LdcMethodType }, d),
        Const::MethodHandle(h) => w_handle(h, if arg { Pos::BootstrapArg } else { Pos::Handle }, v),
        Const::Dynamic(d) => w_dynamic(d, false, v),
    }
}
fn w_dynamic<V: RefVisitor>(d: &mut Dynamic, indy: bool, v: &mut V) {
    let Dynamic { bsm, args, name: _, desc } = d; // name: no owner to look it up in, left alone (see assumptions)
    w_handle(bsm, Pos::Handle, v);
    for a in args {
        w_const(a, true, v);
    }
    v.desc(if indy { Pos::IndyDesc } else { Pos::CondyDesc }, desc);
}
fn w_vtype<V: RefVisitor>(t: &mut VType, v: &mut V) {
    match t {
        VType::Top | VType::Integer | VType::Float | VType::Long | VType::Double | VType::Null | VType::UninitializedThis | VType::Uninitialized(_) => {}
        VType::Object(c) => v.class(Pos::FrameType, c),
    }
}
fn w_code<V: RefVisitor>(c: &mut Code, v: &mut V) {
    let Code { max_stack: _, max_locals: _, insns, exceptions, line_numbers: _, local_vars, local_var_types, frames, frames_raw: _, type_annotations, unknown: _ } = c;
    for i in insns {
        match i {
            Insn::Simple(_)
            | Insn::BiPush(_)
            | Insn::SiPush(_)
            | Insn::Load(..)
            | Insn::Store(..)
            | Insn::Iinc(..)
            | Insn::Ret(_)
            | Insn::Branch(..)
            | Insn::Goto(_)
            | Insn::Jsr(_)
            | Insn::TableSwitch { .. }
            | Insn::LookupSwitch { .. }
            | Insn::NewArray(_) => {}
            Insn::Ldc(k) => w_const(k, false, v),
            Insn::Field(_, m) => v.field_ref(Pos::FieldInsn, m),
            Insn::Invoke(_, m) => v.method_ref(Pos::MethodInsn, m),
            Insn::InvokeDynamic(d) => w_dynamic(d, true, v),
            Insn::New(c) | Insn::ANewArray(c) | Insn::CheckCast(c) | Insn::InstanceOf(c) | Insn::MultiANewArray(c, _) => v.class(Pos::TypeInsn, c),
        }
    }
    for e in exceptions {
        let ExceptionEntry { start: _, end: _, handler: _, catch_type } = e;
        if let Some(c) = catch_type {
            v.class(Pos::CatchType, c);
        }
    }
    for l in local_vars {
        let LocalVar { start: _, end: _, name: _, desc, slot: _ } = l;
        v.desc(Pos::LocalVarDesc, desc);
    }
    for l in local_var_types {
        let LocalVar { start: _, end: _, name: _, desc, slot: _ } = l;
        v.signature(Pos::LocalVarSig, desc);
    }
    for f in frames {
        let Frame { at: _, locals, stack } = f;
        for t in locals.iter_mut().chain(stack.iter_mut()) {
            w_vtype(t, v);
        }
    }
    w_type_annotations(type_annotations, v);
}

/// Visits every reference-carrying position of a class. Every struct is destructured exhaustively (no `..`),
/// so a field added to the model cannot be forgotten silently.
pub fn walk<V: RefVisitor>(s: &mut Sem, v: &mut V) {
    let this = s.this_class.clone();
    let Sem {
        minor: _,
        major: _,
        access: _,
        this_class,
        super_class,
        interfaces,
        fields,
        methods,
        source_file: _,
        source_debug_extension: _,
        inner_classes,
        enclosing_method,
        signature,
        synthetic: _,
        deprecated: _,
        annotations,
        type_annotations,
        nest_host,
        nest_members,
        permitted_subclasses,
        record,
        module,
        module_packages: _,
        module_main_class,
        unknown: _,
    } = s;
    v.class(Pos::ThisClass, this_class);
    if let Some(c) = super_class {
        v.class(Pos::Super, c);
    }
    for c in interfaces {
        v.class(Pos::Interface, c);
    }
    for f in fields {
        let Field { access: _, name, desc, constant_value: _, signature, synthetic: _, deprecated: _, annotations, type_annotations, unknown: _ } = f;
        v.field_decl(&this, name, desc);
        if let Some(s) = signature {
            v.signature(Pos::Signature, s);
        }
        w_annotations(annotations, v);
        w_type_annotations(type_annotations, v);
    }
    for m in methods {
        let Method {
            access: _,
            name,
            desc,
            code,
            exceptions,
            method_parameters: _, // parameter names: the remapper has no answer for them
            annotation_default,
            parameter_annotations,
            annotations,
            type_annotations,
            signature,
            synthetic: _,
            deprecated: _,
            unknown: _,
        } = m;
        v.method_decl(&this, name, desc);
        if let Some(c) = code {
            w_code(c, v);
        }
        if let Some(xs) = exceptions {
            for c in xs {
                v.class(Pos::Throws, c);
            }
        }
        if let Some(e) = annotation_default {
            w_element(e, v);
        }
        let ParamAnnotations { visible, invisible } = parameter_annotations;
        for list in visible.iter_mut().chain(invisible.iter_mut()) {
            for per_param in list {
                for a in per_param {
                    w_annotation(a, v);
                }
            }
        }
        w_annotations(annotations, v);
        w_type_annotations(type_annotations, v);
        if let Some(s) = signature {
            v.signature(Pos::Signature, s);
        }
    }
    if let Some(xs) = inner_classes {
        for ic in xs {
            let InnerClass { inner, outer, inner_name: _, access: _ } = ic;
            v.class(Pos::InnerClass, inner);
            if let Some(o) = outer {
                v.class(Pos::InnerClass, o);
            }
        }
    }
    if let Some(em) = enclosing_method {
        let EnclosingMethod { class, method } = em;
        v.enclosing_method(class, method);
    }
    if let Some(s) = signature {
        v.signature(Pos::Signature, s);
    }
    w_annotations(annotations, v);
    w_type_annotations(type_annotations, v);
    if let Some(c) = nest_host {
        v.class(Pos::NestHost, c);
    }
    if let Some(xs) = nest_members {
        for c in xs {
            v.class(Pos::NestMember, c);
        }
    }
    if let Some(xs) = permitted_subclasses {
        for c in xs {
            v.class(Pos::PermittedSubclass, c);
        }
    }
    if let Some(xs) = record {
        for rc in xs {
            let RecordComponent { name, desc, signature, annotations, type_annotations, unknown: _ } = rc;
            v.record_component(&this, name, desc);
            if let Some(s) = signature {
                v.signature(Pos::Signature, s);
            }
            w_annotations(annotations, v);
            w_type_annotations(type_annotations, v);
        }
    }
    if let Some(m) = module {
        // module, package and version names are not class, field or method references; `uses` / `provides` are
        let Module { name: _, flags: _, version: _, requires: _, exports: _, opens: _, uses, provides } = m;
        for c in uses {
            v.class(Pos::ModuleClass, c);
        }
        for p in provides {
            let Provides { service, with } = p;
            v.class(Pos::ModuleClass, service);
            for c in with {
                v.class(Pos::ModuleClass, c);
            }
        }
    }
    if let Some(c) = module_main_class {
        v.class(Pos::ModuleClass, c);
    }
}

// ------------------------------------------------------------------------------------------------
// the reference remapper

#[derive(Clone, Debug, Default)]
pub struct RhoClass {
    pub to: JStr,
    /// (name, descriptor) in the source namespace -> new name
    pub fields: BTreeMap<(JStr, JStr), JStr>,
    pub methods: BTreeMap<(JStr, JStr), JStr>,
}

#[derive(Clone, Debug, Default)]
pub struct Rho {
    /// classes that have a name in both namespaces
    pub classes: BTreeMap<JStr, RhoClass>,
    /// direct super types (super class first, then interfaces, duplicates removed) of the classes IN THE JAR
    pub supers: BTreeMap<JStr, Vec<JStr>>,
    /// sensitivity self-test only (`VERIF_C07_PERTURB=<probe name>`): the reference does NOT rename this position
    pub skip: Option<Pos>,
    /// answers of a caller-written remapper laid over the mapping-based one: (is field, owner, name, descriptor) ->
    /// new name, for exactly that owner (no inheritance); consulted first
    pub overlay: BTreeMap<(bool, JStr, JStr, JStr), JStr>,
}

/// where a member lookup found its answer
#[derive(Clone, Copy, Debug, PartialEq, Eq)]
pub struct Hit {
    pub depth: usize,
    pub declaring_in_jar: bool,
}

impl Rho {
    /// `m` has exactly two namespaces; renaming goes from the first to the second.
    pub fn new(m: &MapSet, supers: BTreeMap<JStr, Vec<JStr>>) -> Rho {
        let mut classes = BTreeMap::new();
        for (k, c) in &m.classes {
            let Some(Some(to)) = c.names.first() else { continue };
            let mut rc = RhoClass { to: JStr::from_str(to), ..Default::default() };
            for (fk, f) in &c.fields {
                if let Some(Some(to)) = f.names.first() {
                    let (n, d) = split_mkey(fk);
                    rc.fields.insert((JStr::from_str(n), JStr::from_str(d)), JStr::from_str(to));
                }
            }
            for (mk, me) in &c.methods {
                if let Some(Some(to)) = me.names.first() {
                    let (n, d) = split_mkey(mk);
                    rc.methods.insert((JStr::from_str(n), JStr::from_str(d)), JStr::from_str(to));
                }
            }
            classes.insert(JStr::from_str(k), rc);
        }
        Rho { classes, supers, skip: None, overlay: BTreeMap::new() }
    }

    /// class: table lookup, else unchanged
    pub fn map_class(&self, c: &JStr) -> JStr {
        match self.classes.get(c) {
            Some(rc) => rc.to.clone(),
            None => c.clone(),
        }
    }
    /// descriptor (field, method, return): every `L<name>;` is rewritten, everything else is copied
    pub fn map_desc(&self, d: &JStr) -> JStr {
        let b = d.as_bytes();
        let mut out = Vec::with_capacity(b.len() + 8);
        let mut i = 0;
        while i < b.len() {
            if b[i] == b'L' {
                if let Some(len) = b[i + 1..].iter().position(|x| *x == b';') {
                    let name = JStr::from_bytes(&b[i + 1..i + 1 + len]);
                    out.push(b'L');
                    out.extend_from_slice(self.map_class(&name).as_bytes());
                    out.push(b';');
                    i += len + 2;
                    continue;
                }
                // no terminator: not a descriptor; copy the rest
                out.extend_from_slice(&b[i..]);
                break;
            }
            out.push(b[i]);
            i += 1;
        }
        JStr(out)
    }
    /// a CONSTANT_Class name: array descriptors are mapped as descriptors (ADOPTED: `map_class_any`)
    pub fn map_class_any(&self, c: &JStr) -> JStr {
        if c.as_bytes().first() == Some(&b'[') {
            self.map_desc(c)
        } else {
            self.map_class(c)
        }
    }

    fn find(&self, owner: &JStr, key: &(JStr, JStr), field: bool, depth: usize) -> Option<(JStr, Hit)> {
        if depth > 64 {
            return None; // a cyclic hierarchy is outside the workload; never loop
        }
        // ADOPTED: the lookup only proceeds through classes that have a mapping entry; an owner without one
        // answers "no mapping" even if one of its super types has the member mapped
        let rc = self.classes.get(owner)?;
        let table = if field { &rc.fields } else { &rc.methods };
        if let Some(n) = table.get(key) {
            return Some((n.clone(), Hit { depth, declaring_in_jar: self.supers.contains_key(owner) }));
        }
        // ADOPTED: depth first, super class before interfaces in declaration order, first hit wins
        if let Some(ss) = self.supers.get(owner) {
            for s in ss {
                if let Some(r) = self.find(s, key, field, depth + 1) {
                    return Some(r);
                }
            }
        }
        None
    }
    /// True iff the owner has no mapping entry but one of its (transitive, in-jar-known) super types would answer.
    pub fn blocked(&self, owner: &JStr, name: &JStr, desc: &JStr, field: bool) -> bool {
        if self.classes.contains_key(owner) {
            return false;
        }
        let key = (name.clone(), desc.clone());
        let mut stack: Vec<(JStr, usize)> = self.supers.get(owner).map(|v| v.iter().map(|s| (s.clone(), 1)).collect()).unwrap_or_default();
        while let Some((c, d)) = stack.pop() {
            if d > 64 {
                continue;
            }
            if let Some(rc) = self.classes.get(&c) {
                if (if field { &rc.fields } else { &rc.methods }).contains_key(&key) {
                    return true;
                }
            }
            if let Some(ss) = self.supers.get(&c) {
                stack.extend(ss.iter().map(|s| (s.clone(), d + 1)));
            }
        }
        false
    }
    /// field (owner, name, desc): owner, then its super types transitively, first hit wins, else the name is
    /// unchanged; the descriptor is always mapped
    pub fn map_field(&self, owner: &JStr, name: &JStr, desc: &JStr) -> (JStr, JStr, Option<Hit>) {
        if let Some(n) = self.overlay.get(&(true, owner.clone(), name.clone(), desc.clone())) {
            return (n.clone(), self.map_desc(desc), Some(Hit { depth: 0, declaring_in_jar: true }));
        }
        match self.find(owner, &(name.clone(), desc.clone()), true, 0) {
            Some((n, h)) => (n, self.map_desc(desc), Some(h)),
            None => (name.clone(), self.map_desc(desc), None),
        }
    }
    pub fn map_method(&self, owner: &JStr, name: &JStr, desc: &JStr) -> (JStr, JStr, Option<Hit>) {
        if let Some(n) = self.overlay.get(&(false, owner.clone(), name.clone(), desc.clone())) {
            return (n.clone(), self.map_desc(desc), Some(Hit { depth: 0, declaring_in_jar: true }));
        }
        match self.find(owner, &(name.clone(), desc.clone()), false, 0) {
            Some((n, h)) => (n, self.map_desc(desc), Some(h)),
            None => (name.clone(), self.map_desc(desc), None),
        }
    }
}

/// The visitor that applies `Rho`; counts how often a position was really changed.
pub struct Renamer<'a> {
    pub rho: &'a Rho,
    pub changed: BTreeMap<&'static str, u64>,
}
impl<'a> Renamer<'a> {
    pub fn new(rho: &'a Rho) -> Self {
        Renamer { rho, changed: BTreeMap::new() }
    }
    fn count(&mut self, k: &'static str) {
        *self.changed.entry(k).or_insert(0) += 1;
    }
    fn hit(&mut self, h: Option<Hit>) {
        if let Some(h) = h {
            if h.depth > 0 {
                self.count(if h.declaring_in_jar { "inherited.via_in_jar_super" } else { "inherited.via_out_of_jar_super" });
                if h.depth > 1 {
                    self.count("inherited.depth_ge_2");
                }
            }
        }
    }
    fn member(&mut self, pos: Pos, m: &mut MemberRef, field: bool) {
        if self.rho.skip == Some(pos) {
            return;
        }
        let before = m.clone();
        if m.owner.as_bytes().first() == Some(&b'[') {
            // ADOPTED: a member reference whose owner is an array class keeps name AND descriptor as they are;
            // only the owner is mapped (as a descriptor)
            m.owner = self.rho.map_desc(&m.owner);
            self.count("array_owner_member_ref");
        } else {
            let (n, d, h) = if field { self.rho.map_field(&m.owner, &m.name, &m.desc) } else { self.rho.map_method(&m.owner, &m.name, &m.desc) };
            if h.is_none() && self.rho.blocked(&m.owner, &m.name, &m.desc, field) {
                self.count("lookup_blocked_by_unmapped_owner");
            }
            self.hit(h);
            m.name = n;
            m.desc = d;
            m.owner = self.rho.map_class(&m.owner);
        }
        if *m != before {
            self.count(pos.probe());
        }
    }
}
impl RefVisitor for Renamer<'_> {
    fn class(&mut self, pos: Pos, c: &mut JStr) {
        if self.rho.skip == Some(pos) {
            return;
        }
        let n = self.rho.map_class_any(c);
        if n != *c {
            self.count(pos.probe());
            if pos == Pos::ThisClass {
                let pkg = |x: &JStr| x.as_bytes().iter().rposition(|b| *b == b'/').map(|i| x.as_bytes()[..i].to_vec());
                if pkg(c) != pkg(&n) {
                    self.count("package_move");
                }
                if c.as_bytes().contains(&b'$') {
                    self.count("inner_class_renamed");
                }
            }
            *c = n;
        } else if pos == Pos::ThisClass {
            self.count("unmapped_class");
        }
    }
    fn desc(&mut self, pos: Pos, d: &mut JStr) {
        if self.rho.skip == Some(pos) {
            return;
        }
        let n = self.rho.map_desc(d);
        if n != *d {
            self.count(pos.probe());
            *d = n;
        }
    }
    fn field_decl(&mut self, this: &JStr, name: &mut JStr, desc: &mut JStr) {
        if self.rho.skip == Some(Pos::FieldDecl) {
            return;
        }
        let (n, d, h) = self.rho.map_field(this, name, desc);
        self.hit(h);
        if n != *name || d != *desc {
            self.count(Pos::FieldDecl.probe());
        }
        *name = n;
        *desc = d;
    }
    fn method_decl(&mut self, this: &JStr, name: &mut JStr, desc: &mut JStr) {
        if self.rho.skip == Some(Pos::MethodDecl) {
            return;
        }
        let (n, d, h) = self.rho.map_method(this, name, desc);
        self.hit(h);
        if n != *name || d != *desc {
            self.count(Pos::MethodDecl.probe());
        }
        *name = n;
        *desc = d;
    }
    fn field_ref(&mut self, pos: Pos, m: &mut MemberRef) {
        self.member(pos, m, true)
    }
    fn method_ref(&mut self, pos: Pos, m: &mut MemberRef) {
        self.member(pos, m, false)
    }
    fn enclosing_method(&mut self, class: &mut JStr, method: &mut Option<(JStr, JStr)>) {
        if self.rho.skip == Some(Pos::EnclosingMethod) {
            return;
        }
        let before = (class.clone(), method.clone());
        match method {
            Some((n, d)) => {
                let mut m = MemberRef { owner: class.clone(), name: n.clone(), desc: d.clone(), is_interface: false };
                self.member(Pos::EnclosingMethod, &mut m, false);
                *class = m.owner;
                *n = m.name;
                *d = m.desc;
            }
            None => {
                *class = self.rho.map_class_any(class);
                if *class != before.0 {
                    self.count(Pos::EnclosingMethod.probe());
                }
            }
        }
    }
    fn enum_const(&mut self, type_desc: &mut JStr, const_name: &mut JStr) {
        // an enum constant in an annotation is a reference to the field `const_name` of descriptor `type_desc`
        // in the enum class named by `type_desc`
        let b = type_desc.as_bytes();
        let before = (type_desc.clone(), const_name.clone());
        if b.len() >= 3 && b[0] == b'L' && b[b.len() - 1] == b';' {
            let owner = JStr::from_bytes(&b[1..b.len() - 1]);
            let (n, _, h) = self.rho.map_field(&owner, const_name, type_desc);
            self.hit(h);
            *const_name = n;
        }
        *type_desc = self.rho.map_desc(type_desc);
        if before.0 != *type_desc {
            self.count(Pos::AnnoType.probe());
        }
        if before.1 != *const_name {
            self.count(Pos::EnumValue.probe());
        }
    }
    fn record_component(&mut self, _this: &JStr, _name: &mut JStr, desc: &mut JStr) {
        if self.rho.skip == Some(Pos::RecordComponent) {
            return;
        }
        // the component name is not a reference by JVMS; see `tolerate` for the alternative that is also accepted
        let d = self.rho.map_desc(desc);
        if d != *desc {
            self.count(Pos::RecordComponent.probe());
        }
        *desc = d;
    }
    fn signature(&mut self, pos: Pos, s: &mut JStr) {
        if self.rho.skip == Some(pos) {
            return;
        }
        if let Some(r) = rename_signature(s, self.rho) {
            if r.text != *s {
                self.count(if pos == Pos::LocalVarSig { Pos::LocalVarSig.probe() } else { Pos::Signature.probe() });
            }
            *s = r.text;
        }
    }
}

/// The reference renaming: every reference-carrying position answered by `rho`, nothing else touched.
pub fn rename(m: &Sem, rho: &Rho) -> (Sem, BTreeMap<&'static str, u64>) {
    let mut out = m.clone();
    let mut r = Renamer::new(rho);
    walk(&mut out, &mut r);
    (out, r.changed)
}

// ------------------------------------------------------------------------------------------------
// generic signatures (JVMS 4.7.9.1)

pub struct SigResult {
    pub text: JStr,
    /// a class type with a `.Inner` suffix occurred: the renamed form is not determined by a class table alone
    pub inner_suffix: bool,
}

struct SigP<'a> {
    b: &'a [u8],
    i: usize,
    out: Vec<u8>,
    rho: &'a Rho,
    inner_suffix: bool,
}
impl SigP<'_> {
    fn peek(&self) -> Option<u8> {
        self.b.get(self.i).copied()
    }
    fn take(&mut self) -> Option<u8> {
        let c = self.peek()?;
        self.out.push(c);
        self.i += 1;
        Some(c)
    }
    fn expect(&mut self, c: u8) -> Option<()> {
        if self.peek()? == c {
            self.take();
            Some(())
        } else {
            None
        }
    }
    fn ident_until(&mut self, stops: &[u8]) -> Option<Vec<u8>> {
        let start = self.i;
        while let Some(c) = self.peek() {
            if stops.contains(&c) {
                break;
            }
            self.i += 1;
        }
        if self.i == start {
            return None;
        }
        Some(self.b[start..self.i].to_vec())
    }
    fn type_sig(&mut self) -> Option<()> {
        match self.peek()? {
            b'B' | b'C' | b'D' | b'F' | b'I' | b'J' | b'S' | b'Z' | b'V' => {
                self.take();
                Some(())
            }
            b'[' => {
                self.take();
                self.type_sig()
            }
            b'T' => {
                self.take();
                let id = self.ident_until(b";")?;
                self.out.extend_from_slice(&id);
                self.expect(b';')
            }
            b'L' => self.class_type(),
            _ => None,
        }
    }
    fn class_type(&mut self) -> Option<()> {
        self.expect(b'L')?;
        let name = self.ident_until(b"<;.")?;
        let mapped = self.rho.map_class(&JStr(name));
        self.out.extend_from_slice(mapped.as_bytes());
        loop {
            if self.peek()? == b'<' {
                self.type_args()?;
            }
            match self.peek()? {
                b';' => {
                    self.take();
                    return Some(());
                }
                b'.' => {
                    self.inner_suffix = true;
                    self.take();
                    let id = self.ident_until(b"<;.")?;
                    self.out.extend_from_slice(&id);
                }
                _ => return None,
            }
        }
    }
    fn type_args(&mut self) -> Option<()> {
        self.expect(b'<')?;
        loop {
            match self.peek()? {
                b'>' => {
                    self.take();
                    return Some(());
                }
                b'*' => {
                    self.take();
                }
                b'+' | b'-' => {
                    self.take();
                    self.type_sig()?;
                }
                _ => self.type_sig()?,
            }
        }
    }
    fn type_params(&mut self) -> Option<()> {
        self.expect(b'<')?;
        loop {
            if self.peek()? == b'>' {
                self.take();
                return Some(());
            }
            let id = self.ident_until(b":")?;
            self.out.extend_from_slice(&id);
            self.expect(b':')?;
            // class bound may be empty
            if !matches!(self.peek()?, b':' | b'>') {
                self.type_sig()?;
            }
            while self.peek()? == b':' {
                self.take();
                self.type_sig()?;
            }
        }
    }
}

/// Renames the class names of a class, method or field signature. `None`: not a well-formed signature.
pub fn rename_signature(s: &JStr, rho: &Rho) -> Option<SigResult> {
    let mut p = SigP { b: s.as_bytes(), i: 0, out: Vec::with_capacity(s.len() + 8), rho, inner_suffix: false };
    if p.peek()? == b'<' {
        p.type_params()?;
    }
    if p.peek()? == b'(' {
        p.take();
        while p.peek()? != b')' {
            p.type_sig()?;
        }
        p.take();
        p.type_sig()?;
        while p.peek() == Some(b'^') {
            p.take();
            p.type_sig()?;
        }
    } else {
        // field signature: one type; class signature: super class then interfaces
        p.type_sig()?;
        while p.peek().is_some() {
            p.type_sig()?;
        }
    }
    if p.i != p.b.len() {
        return None;
    }
    Some(SigResult { text: JStr(p.out), inner_suffix: p.inner_suffix })
}

// ------------------------------------------------------------------------------------------------
// deliberate tolerances (each listed in assumptions)

/// Where the property does not determine one answer, the alternative answers are accepted too: `exp` is set to
/// the observed value at such a position iff the observed value is one of the accepted alternatives.
/// Returns the number of positions where an alternative was taken.
pub fn tolerate(orig: &Sem, exp: &mut Sem, act: &Sem, rho: &Rho) -> u64 {
    let mut n = 0;
    let sig = |o: &Option<JStr>, e: &mut Option<JStr>, a: &Option<JStr>, n: &mut u64| {
        if let (Some(o), Some(ev), Some(av)) = (o, e.as_mut(), a) {
            if ev != av {
                match rename_signature(o, rho) {
                    // a `.Inner` suffix or an unparseable signature: no determined answer, anything is accepted
                    Some(SigResult { inner_suffix: true, .. }) | None => {
                        *ev = av.clone();
                        *n += 1;
                    }
                    _ => {}
                }
            }
        }
    };
    sig(&orig.signature, &mut exp.signature, &act.signature, &mut n);
    if orig.fields.len() == exp.fields.len() && exp.fields.len() == act.fields.len() {
        for i in 0..orig.fields.len() {
            sig(&orig.fields[i].signature, &mut exp.fields[i].signature, &act.fields[i].signature, &mut n);
        }
    }
    if orig.methods.len() == exp.methods.len() && exp.methods.len() == act.methods.len() {
        for i in 0..orig.methods.len() {
            sig(&orig.methods[i].signature, &mut exp.methods[i].signature, &act.methods[i].signature, &mut n);
            if let (Some(oc), Some(ec), Some(ac)) = (&orig.methods[i].code, exp.methods[i].code.as_mut(), &act.methods[i].code) {
                if oc.local_var_types.len() == ec.local_var_types.len() && ec.local_var_types.len() == ac.local_var_types.len() {
                    for j in 0..oc.local_var_types.len() {
                        let (o, a) = (Some(oc.local_var_types[j].desc.clone()), Some(ac.local_var_types[j].desc.clone()));
                        let mut e = Some(ec.local_var_types[j].desc.clone());
                        sig(&o, &mut e, &a, &mut n);
                        ec.local_var_types[j].desc = e.unwrap();
                    }
                }
            }
        }
    }
    if let (Some(or), Some(er), Some(ar)) = (&orig.record, exp.record.as_mut(), &act.record) {
        if or.len() == er.len() && er.len() == ar.len() {
            for i in 0..or.len() {
                sig(&or[i].signature, &mut er[i].signature, &ar[i].signature, &mut n);
                // a record component shares its name with a field of the class: the field's new name is accepted too
                if er[i].name != ar[i].name {
                    let (alt, _, _) = rho.map_field(&orig.this_class, &or[i].name, &or[i].desc);
                    if ar[i].name == alt {
                        er[i].name = alt;
                        n += 1;
                    }
                }
            }
        }
    }
    if let (Some(oi), Some(ei), Some(ai)) = (&orig.inner_classes, exp.inner_classes.as_mut(), &act.inner_classes) {
        if oi.len() == ei.len() && ei.len() == ai.len() {
            for i in 0..oi.len() {
                // inner_name: unchanged, or the simple name of the renamed inner class
                if ei[i].inner_name != ai[i].inner_name {
                    let new_inner = rho.map_class_any(&oi[i].inner);
                    let b = new_inner.as_bytes();
                    let cut = b.iter().rposition(|c| *c == b'$' || *c == b'/').map(|p| p + 1).unwrap_or(0);
                    let simple = JStr::from_bytes(&b[cut..]);
                    if oi[i].inner_name.is_some() && ai[i].inner_name.as_ref() == Some(&simple) {
                        ei[i].inner_name = Some(simple);
                        n += 1;
                    }
                }
            }
        }
    }
    n
}

// ------------------------------------------------------------------------------------------------
// component-wise diff

macro_rules! each {
    ($out:expr, $a:expr, $b:expr, $path:expr; $($f:ident => $n:expr),* $(,)?) => {
        $( if $a.$f != $b.$f {
            if let Some(p) = $a.$f.diff_at(&$b.$f, &join($path, $n)) { $out.push((p, show(&$a.$f, &$b.$f))); }
        } )*
    };
}

fn clip(s: String) -> String {
    if s.chars().count() > 240 {
        let mut t: String = s.chars().take(240).collect();
        t.push('…');
        t
    } else {
        s
    }
}
fn show<T: std::fmt::Debug>(a: &T, b: &T) -> String {
    format!("expected {} | got {}", clip(format!("{a:?}")), clip(format!("{b:?}")))
}

fn join(path: &str, name: &str) -> String {
    if path.is_empty() {
        name.to_string()
    } else {
        format!("{path}.{name}")
    }
}

fn code_diffs(out: &mut Vec<(String, String)>, a: &Code, b: &Code, path: &str) {
    each!(out, a, b, path; max_stack => "max_stack", max_locals => "max_locals");
    if a.insns.len() != b.insns.len() {
        out.push((join(path, "insn.len"), format!("expected {} instructions | got {}", a.insns.len(), b.insns.len())));
    } else {
        for (k, (x, y)) in a.insns.iter().zip(&b.insns).enumerate() {
            if x != y {
                if let Some(p) = x.diff_at(y, &format!("{path}.insn[{k}]")) {
                    out.push((p, show(x, y)));
                }
            }
        }
    }
    if a.exceptions.len() != b.exceptions.len() {
        out.push((join(path, "exception.len"), format!("expected {} | got {}", a.exceptions.len(), b.exceptions.len())));
    } else {
        for (k, (x, y)) in a.exceptions.iter().zip(&b.exceptions).enumerate() {
            if x != y {
                if let Some(p) = x.diff_at(y, &format!("{path}.exception[{k}]")) {
                    out.push((p, show(x, y)));
                }
            }
        }
    }
    each!(out, a, b, path; line_numbers => "line_number", local_vars => "local_var", local_var_types => "local_var_type",
        frames => "frame", type_annotations => "type_annotations", unknown => "unknown");
}

/// Paths (refclass `Sem::diff` grammar) of ALL differing components, at the granularity: every top-level fact,
/// every field fact, every method fact, every Code table, every instruction.
pub fn all_diffs(a: &Sem, b: &Sem) -> Vec<(String, String)> {
    let mut out = vec![];
    if a == b {
        return out;
    }
    each!(out, a, b, ""; minor => "minor", major => "major", access => "access", this_class => "this_class",
        super_class => "super_class", interfaces => "interface");
    if a.fields.len() != b.fields.len() {
        out.push(("field.len".into(), format!("expected {} fields | got {}", a.fields.len(), b.fields.len())));
    } else {
        for (i, (x, y)) in a.fields.iter().zip(&b.fields).enumerate() {
            if x != y {
                let p = format!("field[{i}]");
                each!(out, x, y, &p; access => "access", name => "name", desc => "desc", constant_value => "constant_value",
                    signature => "signature", synthetic => "synthetic", deprecated => "deprecated", annotations => "annotations",
                    type_annotations => "type_annotations", unknown => "unknown");
            }
        }
    }
    if a.methods.len() != b.methods.len() {
        out.push(("method.len".into(), format!("expected {} methods | got {}", a.methods.len(), b.methods.len())));
    } else {
        for (i, (x, y)) in a.methods.iter().zip(&b.methods).enumerate() {
            if x != y {
                let p = format!("method[{i}]");
                each!(out, x, y, &p; access => "access", name => "name", desc => "desc");
                match (&x.code, &y.code) {
                    (Some(c), Some(d)) => {
                        if c != d {
                            code_diffs(&mut out, c, d, &join(&p, "code"));
                        }
                    }
                    (None, None) => {}
                    _ => out.push((join(&p, "code.present"), format!("expected code: {} | got code: {}", x.code.is_some(), y.code.is_some()))),
                }
                each!(out, x, y, &p; exceptions => "exception", method_parameters => "method_parameter",
                    annotation_default => "annotation_default", parameter_annotations => "parameter_annotations",
                    annotations => "annotations", type_annotations => "type_annotations", signature => "signature",
                    synthetic => "synthetic", deprecated => "deprecated", unknown => "unknown");
            }
        }
    }
    each!(out, a, b, ""; source_file => "source_file", source_debug_extension => "source_debug_extension",
        inner_classes => "inner_class", enclosing_method => "enclosing_method", signature => "signature",
        synthetic => "synthetic", deprecated => "deprecated", annotations => "annotations",
        type_annotations => "type_annotations", nest_host => "nest_host", nest_members => "nest_member",
        permitted_subclasses => "permitted_subclass", record => "record_component", module => "module",
        module_packages => "module_package", module_main_class => "module_main_class", unknown => "unknown");
    if out.is_empty() {
        // cannot happen (a != b); never lose a difference
        out.push((a.diff(b).unwrap_or_else(|| "<unlocated>".into()), String::new()));
    }
    out
}

/// direct super types of a class as the jar states them: super class first, then interfaces, duplicates removed
pub fn direct_supers(s: &Sem) -> Vec<JStr> {
    let mut v: Vec<JStr> = vec![];
    for c in s.super_class.iter().chain(s.interfaces.iter()) {
        if !v.contains(c) {
            v.push(c.clone());
        }
    }
    v
}

/// Collapses the parts of a diff path that only say HOW DEEP inside an annotation value or a bootstrap-argument
/// chain a difference sits, so that one defect has one identity:
/// `….pairs[1].value.pairs[0].value[2].const_name` -> `….element.const_name`,
/// `….annotation_default[1][0].x` -> `….annotation_default.x`, `….dynamic.arg[0].dynamic.arg[1].dynamic.desc` -> `….dynamic.arg.dynamic.desc`.
pub fn normalise_path(p: &str) -> String {
    let toks: Vec<&str> = p.split('.').collect();
    let mut out: Vec<String> = vec![];
    let mut i = 0;
    while i < toks.len() {
        let t = toks[i];
        let base = t.split('[').next().unwrap_or(t);
        if base == "pairs" && i + 1 < toks.len() && toks[i + 1].split('[').next() == Some("value") {
            if out.last().map(|s| s.as_str()) != Some("element") {
                out.push("element".into());
            }
            i += 2;
            continue;
        }
        if base == "annotation_default" {
            out.push("annotation_default".into());
            i += 1;
            continue;
        }
        if base == "arg" && i + 1 < toks.len() && toks[i + 1] == "dynamic" {
            let n = out.len();
            if !(n >= 2 && out[n - 1] == "dynamic" && out[n - 2] == "arg") {
                out.push("arg".into());
                out.push("dynamic".into());
            }
            i += 2;
            continue;
        }
        // which annotation of which list: not part of the identity
        if matches!(base, "visible" | "invisible") && out.last().is_some_and(|s| matches!(s.split('[').next(), Some("annotations" | "type_annotations" | "parameter_annotations"))) {
            i += 1;
            if i < toks.len() && toks[i] == "annotation" {
                i += 1;
            }
            continue;
        }
        out.push(t.to_string());
        i += 1;
    }
    out.join(".")
}


/// Every (is field, owner, name, descriptor) that occurs as a member declaration or member reference of `m`.
pub fn member_keys(m: &Sem) -> Vec<(bool, JStr, JStr, JStr)> {
    struct Col(Vec<(bool, JStr, JStr, JStr)>);
    impl RefVisitor for Col {
        fn class(&mut self, _pos: Pos, _c: &mut JStr) {}
        fn desc(&mut self, _pos: Pos, _d: &mut JStr) {}
        fn field_decl(&mut self, this: &JStr, name: &mut JStr, desc: &mut JStr) {
            self.0.push((true, this.clone(), name.clone(), desc.clone()));
        }
        fn method_decl(&mut self, this: &JStr, name: &mut JStr, desc: &mut JStr) {
            self.0.push((false, this.clone(), name.clone(), desc.clone()));
        }
        fn field_ref(&mut self, _pos: Pos, m: &mut MemberRef) {
            self.0.push((true, m.owner.clone(), m.name.clone(), m.desc.clone()));
        }
        fn method_ref(&mut self, _pos: Pos, m: &mut MemberRef) {
            self.0.push((false, m.owner.clone(), m.name.clone(), m.desc.clone()));
        }
        fn enclosing_method(&mut self, _class: &mut JStr, _method: &mut Option<(JStr, JStr)>) {}
        fn enum_const(&mut self, _type_desc: &mut JStr, _const_name: &mut JStr) {}
        fn record_component(&mut self, _this: &JStr, _name: &mut JStr, _desc: &mut JStr) {}
        fn signature(&mut self, _pos: Pos, _s: &mut JStr) {}
    }
    let mut c = Col(vec![]);
    let mut copy = m.clone();
    walk(&mut copy, &mut c);
    c.0
}
