//! C19 - Maven dependency resolution through a simulated network.
//!
//! SimNet implements the crate's `Downloader`; a single-task executor written here polls the one top-level
//! future, its poll counter being the only clock. SimNet's behaviour is a pure function of
//! (`NetPlan`, the sequence of requests made to it).
//!
//! Finding F1 (unchanged tree, T0, identity `semantic-mismatch / inherited-dependency.not-managed-by-child`):
//! the crate fills an inherited dependency from the dependencyManagement of the POM that *declares* it
//! (`maven_pom_done.rs`: `merge_parent` passes the parent's already-managed `DependencyDone`s on, and
//! `make_dependencies` chains them unchanged); Maven manages every dependency of the *effective* POM from the
//! effective management, in which "the current POM's declaration takes precedence over its parent's".
//! Minimal universe: parent (packaging pom) manages lib:1.0 and depends on lib without a version; child `app`
//! manages lib:2.0; roots [app] -> Maven: lib:2.0, crate: lib:1.0. Same for scopes (child manages scope
//! runtime/test for a dependency the parent declares without scope). Inside the quantifier: the child re-declares
//! no dependency, only a management entry. Replays: /verif/findings-c19-replays/{version,scope}.json.

use crate::engine::*;
use crate::refmvn::*;
use crate::rng::{mix, Digest, Rng};
use maven_dependency_resolver::coord::MavenCoord;
use maven_dependency_resolver::maven_pom::MavenPom;
use maven_dependency_resolver::resolver::Resolver;
use maven_dependency_resolver::{get_maven_dependencies, DependencyScope, Downloader, FoundDependency};
use serde::{Deserialize, Serialize};
use serde_json::json;
use std::borrow::Cow;
use std::collections::HashMap;
use std::future::Future;
use std::pin::Pin;
use std::str::FromStr;
use std::sync::atomic::{AtomicBool, Ordering};
use std::sync::{Arc, Mutex};
use std::task::{Context, Poll, Wake, Waker};

pub struct C19;

#[derive(Clone, Debug, PartialEq, Serialize, Deserialize)]
pub enum NetFault {
    /// the n-th request (0-based, counted per call) fails
    TransientErr { at_request: u64 },
    /// every request to this repository fails
    RepoDown { repo: usize },
    /// this repository serves this artifact's POM with `<modelVersion>3.0.0</modelVersion>`
    WrongModelVersion { repo: usize, artifact: usize },
    /// the top-level future is dropped when it is still pending after k polls
    CancelAtPoll { k: u64 },
}

#[derive(Clone, Debug, Default, PartialEq, Serialize, Deserialize)]
pub struct NetPlan {
    /// seeds the per-request latency stream (advances once per request)
    pub seed: u64,
    /// latency = number of `Poll::Pending` a request returns first, drawn from 0..=max_latency
    pub max_latency: u32,
    pub faults: Vec<NetFault>,
}
impl NetPlan {
    fn plain() -> NetPlan {
        NetPlan::default()
    }
    fn without_faults(&self) -> NetPlan {
        NetPlan { seed: self.seed, max_latency: self.max_latency, faults: vec![] }
    }
}

#[derive(Clone, Serialize, Deserialize)]
pub struct Plan {
    pub u: Universe,
    pub net: NetPlan,
    /// how many times the generator had to cut something to stay inside the supported subset (telemetry only)
    #[serde(default)]
    pub repairs: u32,
}

// ------------------------------------------------------------------------------------------------ SimNet

struct PomStore {
    poms: Vec<Result<MavenPom, String>>,
    urls: HashMap<String, (usize, usize)>,
}
impl PomStore {
    fn new(u: &Universe) -> PomStore {
        let poms = (0..u.arts.len()).map(|i| serde_xml_rs::from_str::<MavenPom>(&pom_xml(u, i, "4.0.0")).map_err(|e| e.to_string())).collect();
        let mut urls = HashMap::new();
        for (r, repo) in u.repos.iter().enumerate() {
            for (a, art) in u.arts.iter().enumerate() {
                urls.insert(pom_url(&repo.url, &art.group, &art.artifact, &art.version), (r, a));
            }
        }
        PomStore { poms, urls }
    }
}

#[derive(Default)]
struct NetState {
    seq: u64,
    log: Digest,
    lat_rng: Option<Rng>,
    latency_nonzero: u64,
    latency_total: u64,
    n404: u64,
    hits: u64,
    fallback_hits: u64,
    last_404: Option<usize>,
    unknown_urls: u64,
    transient_fired: u64,
    down_fired: u64,
    wrong_mv_fired: u64,
}

struct SimNet<'a> {
    u: &'a Universe,
    store: &'a PomStore,
    plan: NetPlan,
    st: Mutex<NetState>,
}

/// One in-flight request: `remaining` self-waking `Pending`s, then the answer decided when the request was made.
struct Req {
    remaining: u32,
    answer: Option<anyhow::Result<Option<MavenPom>>>,
}
impl Future for Req {
    type Output = anyhow::Result<Option<MavenPom>>;
    fn poll(mut self: Pin<&mut Self>, cx: &mut Context<'_>) -> Poll<Self::Output> {
        if self.remaining > 0 {
            self.remaining -= 1;
            cx.waker().wake_by_ref();
            Poll::Pending
        } else {
            Poll::Ready(self.answer.take().expect("request future polled after completion"))
        }
    }
}

impl<'a> SimNet<'a> {
    fn new(u: &'a Universe, store: &'a PomStore, plan: &NetPlan) -> SimNet<'a> {
        let mut st = NetState::default();
        st.lat_rng = if plan.max_latency > 0 { Some(Rng::new(mix(&[plan.seed, 0x6c61_7465]))) } else { None };
        st.log.u64(plan.seed);
        SimNet { u, store, plan: plan.clone(), st: Mutex::new(st) }
    }

    fn request(&self, url: &str) -> Req {
        let mut st = self.st.lock().unwrap();
        let seq = st.seq;
        st.seq += 1;
        let plan_max = self.plan.max_latency;
        let latency = match st.lat_rng.as_mut() {
            Some(r) => r.below(plan_max as u64 + 1) as u32,
            None => 0,
        };
        if latency > 0 {
            st.latency_nonzero += 1;
            st.latency_total += latency as u64;
        }
        let target = self.store.urls.get(url).copied();
        // answer kinds: 0 hit, 1 404, 2 transient, 3 repo down, 4 wrong model version, 5 unknown url
        let (kind, answer): (u64, anyhow::Result<Option<MavenPom>>) = if self.plan.faults.iter().any(|f| matches!(f, NetFault::TransientErr { at_request } if *at_request == seq)) {
            st.transient_fired += 1;
            (2, Err(anyhow::anyhow!("simulated transient network failure on request {seq}")))
        } else {
            match target {
                None => {
                    st.unknown_urls += 1;
                    st.n404 += 1;
                    (5, Ok(None))
                }
                Some((r, a)) => {
                    if self.plan.faults.iter().any(|f| matches!(f, NetFault::RepoDown { repo } if *repo == r)) {
                        st.down_fired += 1;
                        (3, Err(anyhow::anyhow!("simulated: repository {r} is down")))
                    } else if !self.u.repos[r].serves.contains(&a) {
                        st.n404 += 1;
                        st.last_404 = Some(a);
                        (1, Ok(None))
                    } else if self.plan.faults.iter().any(|f| matches!(f, NetFault::WrongModelVersion { repo, artifact } if *repo == r && *artifact == a)) {
                        st.wrong_mv_fired += 1;
                        match serde_xml_rs::from_str::<MavenPom>(&pom_xml(self.u, a, "3.0.0")) {
                            Ok(p) => (4, Ok(Some(p))),
                            Err(e) => (4, Err(anyhow::anyhow!("pom xml: {e}"))),
                        }
                    } else {
                        st.hits += 1;
                        if st.last_404 == Some(a) {
                            st.fallback_hits += 1;
                        }
                        st.last_404 = None;
                        match &self.store.poms[a] {
                            Ok(p) => (0, Ok(Some(p.clone()))),
                            Err(e) => (0, Err(anyhow::anyhow!("pom xml: {e}"))),
                        }
                    }
                }
            }
        };
        if kind != 1 {
            st.last_404 = None;
        }
        // the event: (seq, what was asked, latency, answer kind)
        st.log.u64(seq);
        match target {
            Some((r, a)) => st.log.u64((r as u64) << 32 | a as u64),
            None => st.log.str(url),
        }
        st.log.u64((latency as u64) << 8 | kind);
        Req { remaining: latency, answer: Some(answer) }
    }
}

impl Downloader for SimNet<'_> {
    #[allow(clippy::manual_async_fn)]
    fn get_maven_pom(&self, url: &str) -> impl Future<Output = anyhow::Result<Option<MavenPom>>> + Send {
        self.request(url)
    }
}

// ------------------------------------------------------------------------------------------------ executor

struct WakeFlag(AtomicBool);
impl Wake for WakeFlag {
    fn wake(self: Arc<Self>) {
        self.0.store(true, Ordering::SeqCst);
    }
    fn wake_by_ref(self: &Arc<Self>) {
        self.0.store(true, Ordering::SeqCst);
    }
}

enum Ran<T> {
    Done(T),
    /// dropped while pending after k polls
    Cancelled,
    OutOfBudget,
    /// returned Pending without having arranged a wake-up: a real executor would never poll it again
    Stalled,
}

/// Polls `fut` to completion on this thread. `polls` is the clock.
fn run_to_end<F: Future>(fut: F, budget: u64, cancel_at: Option<u64>, polls: &mut u64) -> Ran<F::Output> {
    let flag = Arc::new(WakeFlag(AtomicBool::new(false)));
    let waker = Waker::from(flag.clone());
    let mut cx = Context::from_waker(&waker);
    let mut fut = std::pin::pin!(fut);
    let mut n = 0u64;
    loop {
        if cancel_at == Some(n) {
            return Ran::Cancelled; // `fut` is dropped on return
        }
        if n >= budget {
            return Ran::OutOfBudget;
        }
        flag.0.store(false, Ordering::SeqCst);
        n += 1;
        *polls += 1;
        match fut.as_mut().poll(&mut cx) {
            Poll::Ready(v) => return Ran::Done(v),
            Poll::Pending => {
                if !flag.0.load(Ordering::SeqCst) {
                    return Ran::Stalled;
                }
            }
        }
    }
}

// ------------------------------------------------------------------------------------------------ calling the real code

#[derive(Clone, Debug, PartialEq)]
struct Got {
    group: String,
    artifact: String,
    version: String,
    classifier: Option<String>,
    type_: String,
    scope: Scope,
    repo_name: String,
    repo_url: String,
}
impl Got {
    fn render(&self, u: &Universe) -> String {
        let r = u.repos.iter().position(|r| r.name == self.repo_name && r.url == self.repo_url);
        format!(
            "{}:{}:{}{}{}:{}:{}@{}",
            self.group,
            self.artifact,
            self.type_,
            if self.classifier.is_some() { ":" } else { "" },
            self.classifier.as_deref().unwrap_or(""),
            self.version,
            self.scope.name(),
            r.map_or_else(|| format!("?{}|{}", self.repo_name, self.repo_url), |r| format!("r{r}"))
        )
    }
}

fn to_real_scope(s: Scope) -> DependencyScope {
    match s {
        Scope::Compile => DependencyScope::Compile,
        Scope::Runtime => DependencyScope::Runtime,
        Scope::Test => DependencyScope::Test,
        Scope::System => DependencyScope::System,
        Scope::Provided => DependencyScope::Provided,
    }
}
fn from_real_scope(s: DependencyScope) -> Scope {
    match s {
        DependencyScope::Compile => Scope::Compile,
        DependencyScope::Runtime => Scope::Runtime,
        DependencyScope::Test => Scope::Test,
        DependencyScope::System => Scope::System,
        DependencyScope::Provided => Scope::Provided,
    }
}

enum Outcome {
    Ok(Vec<Got>),
    Err(String),
    Panic(String),
    Cancelled,
    OutOfBudget,
    Stalled,
}
impl Outcome {
    fn digest(&self, d: &mut Digest, u: &Universe) {
        match self {
            Outcome::Ok(v) => {
                d.u64(1);
                for g in v {
                    d.str(&g.render(u));
                }
            }
            Outcome::Err(_) => d.u64(2),
            Outcome::Panic(_) => d.u64(3),
            Outcome::Cancelled => d.u64(4),
            Outcome::OutOfBudget => d.u64(5),
            Outcome::Stalled => d.u64(6),
        }
    }
}

/// Display -> parse round trips of everything a result carries. Returns (path, detail) per failure.
fn roundtrips(found: &[FoundDependency<'_>]) -> Vec<(String, String)> {
    let mut bad = vec![];
    for (i, f) in found.iter().enumerate() {
        let s = f.coord.to_string();
        match MavenCoord::from_str(&s) {
            Ok(c) if c == f.coord => {}
            Ok(c) => bad.push((format!("roundtrip.coord[{i}]"), format!("{:?} printed as {s:?} parses to {c:?}", f.coord))),
            Err(e) => bad.push((format!("roundtrip.coord[{i}]"), format!("{s:?} does not parse: {e:#}"))),
        }
        let s = f.scope.to_string();
        match DependencyScope::from_str(&s) {
            Ok(c) if c == f.scope => {}
            Ok(c) => bad.push((format!("roundtrip.scope[{i}]"), format!("{:?} printed as {s:?} parses to {c:?}", f.scope))),
            Err(e) => bad.push((format!("roundtrip.scope[{i}]"), format!("{s:?} does not parse: {e:#}"))),
        }
        let s = f.to_string();
        match FoundDependency::try_from(s.as_str()) {
            // the crate documents that the printed form carries the repository's url but not its name
            Ok(g) if g.coord == f.coord && g.scope == f.scope && g.resolver.maven == f.resolver.maven => {}
            Ok(g) => bad.push((format!("roundtrip.found[{i}]"), format!("{f:?} printed as {s:?} parses to {g:?}"))),
            Err(e) => bad.push((format!("roundtrip.found[{i}]"), format!("{s:?} does not parse: {e:#}"))),
        }
    }
    bad
}

fn call(u: &Universe, net: &SimNet, budget: u64, cancel_at: Option<u64>, polls: &mut u64, rt: Option<&mut Vec<(String, String)>>) -> Outcome {
    let resolvers: Vec<Resolver> = u.repos.iter().map(|r| Resolver { name: Cow::Borrowed(r.name.as_str()), maven: Cow::Borrowed(r.url.as_str()) }).collect();
    let roots: Vec<(MavenCoord, DependencyScope)> = u
        .roots
        .iter()
        .map(|r| {
            (
                MavenCoord { group: r.group.clone(), artifact: r.artifact.clone(), version: r.version.clone(), classifier: r.classifier.clone(), type_: r.type_.clone().unwrap_or_else(|| "jar".to_string()) },
                to_real_scope(r.scope),
            )
        })
        .collect();
    let res = no_panic(|| {
        let fut = get_maven_dependencies(net, &resolvers, &roots);
        match run_to_end(fut, budget, cancel_at, polls) {
            Ran::Done(Ok(found)) => {
                if let Some(rt) = rt {
                    rt.extend(roundtrips(&found));
                }
                Outcome::Ok(
                    found
                        .iter()
                        .map(|f| Got {
                            group: f.coord.group.clone(),
                            artifact: f.coord.artifact.clone(),
                            version: f.coord.version.clone(),
                            classifier: f.coord.classifier.clone(),
                            type_: f.coord.type_.clone(),
                            scope: from_real_scope(f.scope),
                            repo_name: f.resolver.name.to_string(),
                            repo_url: f.resolver.maven.to_string(),
                        })
                        .collect(),
                )
            }
            Ran::Done(Err(e)) => Outcome::Err(format!("{e:#}")),
            Ran::Cancelled => Outcome::Cancelled,
            Ran::OutOfBudget => Outcome::OutOfBudget,
            Ran::Stalled => Outcome::Stalled,
        }
    });
    match res {
        Ok(o) => o,
        Err(pm) => Outcome::Panic(pm),
    }
}

/// First difference between the model's list and the real one: (path, detail).
fn diff_model(u: &Universe, want: &[Resolved], got: &[Got]) -> Option<(String, String)> {
    let show = || format!("expected [{}] got [{}]", want.iter().map(Resolved::render).collect::<Vec<_>>().join(", "), got.iter().map(|g| g.render(u)).collect::<Vec<_>>().join(", "));
    for (i, (w, g)) in want.iter().zip(got.iter()).enumerate() {
        let repo = u.repos.get(w.repo);
        let field = if w.group != g.group {
            "group"
        } else if w.artifact != g.artifact {
            "artifact"
        } else if w.classifier != g.classifier {
            "classifier"
        } else if w.type_ != g.type_ {
            "type"
        } else if w.version != g.version {
            "version"
        } else if w.scope != g.scope {
            "scope"
        } else if repo.map_or(true, |r| r.name != g.repo_name || r.url != g.repo_url) {
            "repository"
        } else {
            continue;
        };
        return Some((format!("result[{i}].{field}"), show()));
    }
    if want.len() > got.len() {
        return Some(("result.missing".into(), show()));
    }
    if want.len() < got.len() {
        return Some(("result.extra".into(), show()));
    }
    None
}

fn diff_got(u: &Universe, a: &[Got], b: &[Got]) -> Option<String> {
    if a == b {
        None
    } else {
        Some(format!("[{}] vs [{}]", a.iter().map(|g| g.render(u)).collect::<Vec<_>>().join(", "), b.iter().map(|g| g.render(u)).collect::<Vec<_>>().join(", ")))
    }
}

const PAIR_PROBES: [[&str; 5]; 5] = [
    ["pair.compile>compile", "pair.compile>runtime", "pair.compile>test", "pair.compile>system", "pair.compile>provided"],
    ["pair.runtime>compile", "pair.runtime>runtime", "pair.runtime>test", "pair.runtime>system", "pair.runtime>provided"],
    ["pair.test>compile", "pair.test>runtime", "pair.test>test", "pair.test>system", "pair.test>provided"],
    ["pair.system>compile", "pair.system>runtime", "pair.system>test", "pair.system>system", "pair.system>provided"],
    ["pair.provided>compile", "pair.provided>runtime", "pair.provided>test", "pair.provided>system", "pair.provided>provided"],
];

const RUNAWAY_BUDGET: u64 = 400_000;
const SLACK: u64 = 16;

impl Engine for C19 {
    type Plan = Plan;
    fn id(&self) -> &'static str {
        "C19"
    }
    fn runs(&self, tier: Tier) -> u64 {
        match tier {
            Tier::Quick => 200_000,
            Tier::Thorough => 8_000_000,
        }
    }

    fn gen(&self, rng: &mut Rng, _tier: Tier, _run: u64) -> Plan {
        let mut w = rng.split("workload");
        let mut s = rng.split("schedule");
        let mut f = rng.split("faults");
        let (u, repairs) = gen_universe(&mut w);
        let mut net = NetPlan { seed: s.next(), max_latency: if s.chance(30) { 0 } else { s.range(1, 5) as u32 }, faults: vec![] };
        if f.chance(50) {
            for _ in 0..f.range(1, 2) {
                let fault = match f.below(20) {
                    0..=5 => NetFault::TransientErr { at_request: { let hi = f.below(80) + 1; f.below(hi) } },
                    6..=9 => NetFault::RepoDown { repo: f.usize(u.repos.len()) },
                    10..=14 => {
                        let a = f.usize(u.arts.len());
                        let servers: Vec<usize> = (0..u.repos.len()).filter(|r| u.repos[*r].serves.contains(&a)).collect();
                        let repo = if f.chance(70) || servers.is_empty() { servers.first().copied().unwrap_or(0) } else { *f.pick(&servers) };
                        NetFault::WrongModelVersion { repo, artifact: a }
                    }
                    _ => NetFault::CancelAtPoll { k: { let hi = f.below(120) + 1; f.below(hi) } },
                };
                if !net.faults.contains(&fault) {
                    net.faults.push(fault);
                }
            }
        }
        Plan { u, net, repairs }
    }

    fn exec(&self, p: &Plan, st: &mut RunStats) -> Vec<Violation> {
        let mut out = vec![];
        let u = &p.u;
        st.shape = u.shape();
        let mut obs = Digest::new();
        if p.repairs > 0 {
            st.probe(if p.repairs >= 999 { "gen_fallback" } else { "gen_repaired" });
        }
        if let Err(rej) = u.admissible() {
            // outside the quantifier (can only happen to a shrink candidate or a hand-written replay)
            st.probe("inadmissible_skipped");
            st.notes.push(rej.msg);
            return out;
        }
        let (model, tel) = match u.resolve(&|r, a| u.repos[r].serves.contains(&a)) {
            Ok(x) => x,
            Err(e) => panic!("harness error: reference model failed on an admissible universe: {e}"),
        };
        let store = PomStore::new(u);
        for (i, pz) in store.poms.iter().enumerate() {
            if let Err(e) = pz {
                out.push(Violation::new("T0", "refused-wellformed", format!("pom-xml[{i}]"), format!("serde-xml-rs rejects the generated POM: {e}")));
            }
        }
        if !out.is_empty() {
            return out;
        }
        telemetry_probes(st, &tel, u);

        // ---------------- T0: zero latency, no faults
        st.tier("T0");
        let net0 = SimNet::new(u, &store, &NetPlan::plain());
        let mut polls = 0u64;
        let mut rt = vec![];
        let r0 = call(u, &net0, RUNAWAY_BUDGET, None, &mut polls, Some(&mut rt));
        let s0 = net0.st.into_inner().unwrap();
        st.sched.u64(s0.log.0);
        st.sched.u64(polls);
        st.events += s0.seq;
        st.sim_polls += polls;
        let n0 = s0.seq;
        r0.digest(&mut obs, u);
        if s0.fallback_hits > 0 {
            st.probe_n("fallback_404_then_hit_later_repo", s0.fallback_hits);
            st.nontrivial = true;
        }
        st.probe_n("request_404", s0.n404);
        if s0.unknown_urls > 0 {
            st.probe_n("unknown_url_requested", s0.unknown_urls);
        }
        if n0 > model.len() as u64 * u.repos.len() as u64 * 4 {
            st.probe("fetches_beyond_4x_result");
        }
        for (path, detail) in rt {
            out.push(Violation::new("T0", "semantic-mismatch", path, detail));
        }
        let base: Vec<Got> = match r0 {
            Outcome::Ok(got) => {
                if let Some((path, detail)) = diff_model(u, &model, &got) {
                    // diagnosis only: does the answer match the (non-Maven) rule "an inherited dependency is managed
                    // by the POM that declares it, not by the effective POM"? Then say so in the path, so that this
                    // one deviation has one identity and cannot hide other mismatches behind result[*].<field>.
                    let per_level = u.resolve_with(&|r, a| u.repos[r].serves.contains(&a), true);
                    if per_level.is_ok_and(|(m, _)| diff_model(u, &m, &got).is_none()) {
                        out.push(Violation::new("T0", "semantic-mismatch", "inherited-dependency.not-managed-by-child", format!("first difference at {path}; {detail}")));
                    } else {
                        out.push(Violation::new("T0", "semantic-mismatch", path, detail));
                    }
                }
                got
            }
            Outcome::Err(e) => {
                out.push(Violation::new("T0", "refused-wellformed", "get_maven_dependencies", e));
                st.obs = obs;
                return out;
            }
            Outcome::Panic(pm) => {
                out.push(Violation::new("T0", "panic", panic_path(&pm), pm));
                st.obs = obs;
                return out;
            }
            Outcome::OutOfBudget => {
                out.push(Violation::new("T0", "runaway", "get_maven_dependencies", format!("not finished after {RUNAWAY_BUDGET} polls")));
                st.obs = obs;
                return out;
            }
            Outcome::Stalled => {
                out.push(Violation::new("T0", "runaway", "pending-without-wake", "the future returned Pending although no request was pending"));
                st.obs = obs;
                return out;
            }
            Outcome::Cancelled => unreachable!(),
        };
        let lat = p.net.max_latency as u64;
        let step_budget = n0 * (lat + 1) + SLACK;

        // ---------------- T1: latencies (legal); must be identical to T0
        if p.net.max_latency > 0 {
            st.tier("T1");
            let net1 = SimNet::new(u, &store, &p.net.without_faults());
            let mut polls = 0u64;
            let r1 = call(u, &net1, step_budget, None, &mut polls, None);
            let s1 = net1.st.into_inner().unwrap();
            st.sched.u64(s1.log.0);
            st.sched.u64(polls);
            st.events += s1.seq;
            st.sim_polls += polls;
            r1.digest(&mut obs, u);
            if s1.latency_nonzero > 0 {
                st.probe_n("latency_nonzero", s1.latency_nonzero);
                st.nontrivial = true;
            }
            match r1 {
                Outcome::Ok(got) => {
                    if let Some(d) = diff_got(u, &base, &got) {
                        out.push(Violation::new("T1", "schedule-dependence", "result", d));
                    }
                    // (how many polls the call took is bounded by the step budget only: a resolver that fetched
                    // concurrently would need fewer than the latency sum, and that would be legal)
                    if polls == s1.latency_total + 1 {
                        st.probe("polls_equal_latency_sum_plus_one");
                    }
                }
                Outcome::Err(e) => out.push(Violation::new("T1", "schedule-dependence", "result.err", e)),
                Outcome::Panic(pm) => out.push(Violation::new("T1", "panic", panic_path(&pm), pm)),
                Outcome::OutOfBudget => out.push(Violation::new("T1", "runaway", "get_maven_dependencies", format!("not finished after {step_budget} polls ({n0} fetches, max latency {lat})"))),
                Outcome::Stalled => out.push(Violation::new("T1", "runaway", "pending-without-wake", "Pending returned without a wake-up arranged")),
                Outcome::Cancelled => unreachable!(),
            }
        }

        // ---------------- T1': two resolutions of the same roots in flight on this thread at once (what `join!` of two
        // calls does), polled in a drawn interleaving: each has to give the T0 answer (missed seeded change C19-17: a
        // thread-local "in progress" set meant for cycle detection)
        if p.net.max_latency > 0 && p.net.seed % 5 == 0 {
            st.tier("T1");
            st.probe("two_resolutions_interleaved");
            let net = SimNet::new(u, &store, &p.net.without_faults());
            let resolvers: Vec<Resolver> = u.repos.iter().map(|r| Resolver { name: Cow::Borrowed(r.name.as_str()), maven: Cow::Borrowed(r.url.as_str()) }).collect();
            let roots: Vec<(MavenCoord, DependencyScope)> = u.roots.iter().map(|r| (MavenCoord { group: r.group.clone(), artifact: r.artifact.clone(), version: r.version.clone(), classifier: r.classifier.clone(), type_: r.type_.clone().unwrap_or_else(|| "jar".to_string()) }, to_real_scope(r.scope))).collect();
            let res = no_panic(|| {
                let flag = Arc::new(WakeFlag(AtomicBool::new(false)));
                let waker = Waker::from(flag.clone());
                let mut cx = Context::from_waker(&waker);
                let mut fa = std::pin::pin!(get_maven_dependencies(&net, &resolvers, &roots));
                let mut fb = std::pin::pin!(get_maven_dependencies(&net, &resolvers, &roots));
                let (mut ra, mut rb) = (None, None);
                let mut pick = crate::rng::Rng::new(p.net.seed ^ 0x7717);
                let mut n = 0u64;
                while (ra.is_none() || rb.is_none()) && n < 4 * step_budget + 64 {
                    n += 1;
                    let a_turn = if ra.is_some() { false } else if rb.is_some() { true } else { pick.chance(50) };
                    if a_turn {
                        if let Poll::Ready(v) = fa.as_mut().poll(&mut cx) {
                            ra = Some(v.map(|f| f.iter().map(|x| format!("{}|{}|{}", x.coord, x.scope, x.resolver.maven)).collect::<Vec<_>>()).map_err(|e| format!("{e:#}")));
                        }
                    } else if let Poll::Ready(v) = fb.as_mut().poll(&mut cx) {
                        rb = Some(v.map(|f| f.iter().map(|x| format!("{}|{}|{}", x.coord, x.scope, x.resolver.maven)).collect::<Vec<_>>()).map_err(|e| format!("{e:#}")));
                    }
                }
                (ra, rb, n)
            });
            match res {
                Err(pm) => out.push(Violation::new("T1", "panic", panic_path(&pm), pm)),
                Ok((ra, rb, n)) => {
                    st.sim_polls += n;
                    st.sched.u64(0x2222 ^ n);
                    // reference: one more single resolution over a fresh net of the same plan, rendered the same way
                    let net_s = SimNet::new(u, &store, &p.net.without_faults());
                    let mut polls = 0u64;
                    let single = no_panic(|| {
                        let fut = get_maven_dependencies(&net_s, &resolvers, &roots);
                        match run_to_end(fut, step_budget, None, &mut polls) {
                            Ran::Done(v) => Some(v.map(|f| f.iter().map(|x| format!("{}|{}|{}", x.coord, x.scope, x.resolver.maven)).collect::<Vec<_>>()).map_err(|e| format!("{e:#}"))),
                            _ => None,
                        }
                    });
                    if let Ok(Some(single)) = single {
                        for (which, r) in [("first", &ra), ("second", &rb)] {
                            match (r, &single) {
                                (None, _) => out.push(Violation::new("T1", "runaway", "two-resolutions", format!("the {which} of two interleaved resolutions did not finish"))),
                                (Some(Ok(a)), Ok(b)) if a == b => {}
                                (Some(Err(_)), Err(_)) => {}
                                (Some(x), y) => out.push(Violation::new("T1", "schedule-dependence", "two-resolutions.result", format!("the {which} of two resolutions interleaved on one thread gives {:?}, a single one {:?}", x.as_ref().map(|v| v.len()).map_err(|e| e.chars().take(200).collect::<String>()), y.as_ref().map(|v| v.len()).map_err(|e| e.chars().take(200).collect::<String>())))),
                            }
                        }
                    }
                }
            }
        }

        // ---------------- T2: faults
        if !p.net.faults.is_empty() {
            st.tier("T2");
            let cancel_at = p.net.faults.iter().filter_map(|f| if let NetFault::CancelAtPoll { k } = f { Some(*k) } else { None }).min();
            let net2 = SimNet::new(u, &store, &p.net);
            let mut polls = 0u64;
            let r2 = call(u, &net2, step_budget, cancel_at, &mut polls, None);
            let s2 = net2.st.into_inner().unwrap();
            st.sched.u64(s2.log.0);
            st.sched.u64(polls);
            st.events += s2.seq;
            st.sim_polls += polls;
            r2.digest(&mut obs, u);
            let mut fired: Vec<&'static str> = vec![];
            if s2.transient_fired > 0 {
                fired.push("transient_err");
                st.probe("transient_err_fired");
            }
            if s2.down_fired > 0 {
                fired.push("repo_down");
            }
            if s2.wrong_mv_fired > 0 {
                fired.push("wrong_model_version");
            }
            if matches!(r2, Outcome::Cancelled) {
                fired.push("cancel_at_poll");
            }
            st.fired(&fired);
            let data_fault = s2.transient_fired + s2.down_fired + s2.wrong_mv_fired > 0;
            let mut cancelled = false;
            match r2 {
                Outcome::Panic(pm) => out.push(Violation::new("T2", "panic", panic_path(&pm), pm)),
                Outcome::Ok(got) => {
                    if !data_fault {
                        if let Some(d) = diff_got(u, &base, &got) {
                            out.push(Violation::new("T2", "schedule-dependence", "result", d));
                        }
                    } else {
                        st.probe("ok_despite_fault");
                        // acceptable: the fault-free answer, or the answer for the universe in which the faulty
                        // repository / POM is treated as absent
                        let alt = u.resolve(&|r, a| {
                            u.repos[r].serves.contains(&a)
                                && !p.net.faults.iter().any(|f| match f {
                                    NetFault::RepoDown { repo } => *repo == r,
                                    NetFault::WrongModelVersion { repo, artifact } => *repo == r && *artifact == a,
                                    _ => false,
                                })
                        });
                        // (the fault-free answer is the real T0 result: a T0 mismatch is reported by T0, once)
                        let ok = diff_got(u, &base, &got).is_none() || alt.is_ok_and(|(m, _)| diff_model(u, &m, &got).is_none());
                        if !ok {
                            let (path, detail) = diff_model(u, &model, &got).unwrap_or_else(|| ("result".into(), diff_got(u, &base, &got).unwrap_or_default()));
                            out.push(Violation::new("T2", "reader-ok-with-wrong-data", path, format!("faults fired {fired:?}; {detail}")));
                        }
                        if s2.wrong_mv_fired > 0 && diff_got(u, &base, &got).is_none() {
                            // a POM with another modelVersion was used as if it were 4.0.0: more tolerant than the
                            // crate means to be, but no property forbids it - counted, not flagged
                            st.probe("lenient_accept_wrong_model_version");
                        }
                    }
                }
                Outcome::Err(e) => {
                    if data_fault {
                        st.probe("err_under_fault");
                    } else {
                        out.push(Violation::new("T2", "schedule-dependence", "result.err", e));
                    }
                }
                Outcome::Cancelled => {
                    cancelled = true;
                    st.probe("cancel_fired_while_pending");
                }
                Outcome::OutOfBudget => out.push(Violation::new("T2", "runaway", "get_maven_dependencies", format!("not finished after {step_budget} polls under faults {fired:?}"))),
                Outcome::Stalled => out.push(Violation::new("T2", "runaway", "pending-without-wake", "Pending returned without a wake-up arranged")),
            }
            // heal: a fresh call on the healthy network gives the fault-free answer, within the step budget
            let net3 = SimNet::new(u, &store, &p.net.without_faults());
            let mut polls = 0u64;
            let r3 = call(u, &net3, step_budget, None, &mut polls, None);
            let s3 = net3.st.into_inner().unwrap();
            st.sched.u64(s3.log.0);
            st.sched.u64(polls);
            st.events += s3.seq;
            st.sim_polls += polls;
            r3.digest(&mut obs, u);
            match r3 {
                Outcome::Ok(got) => {
                    if let Some(d) = diff_got(u, &base, &got) {
                        out.push(Violation::new("T2", "residue-after-heal", "result", d));
                    } else if cancelled {
                        st.probe("cancelled_then_retried");
                    } else if data_fault {
                        st.probe("healed_after_fault");
                    }
                }
                Outcome::Err(e) => out.push(Violation::new("T2", "residue-after-heal", "result.err", e)),
                Outcome::Panic(pm) => out.push(Violation::new("T2", "panic", format!("heal:{}", panic_path(&pm)), pm)),
                Outcome::OutOfBudget => out.push(Violation::new("T2", "no-progress-after-heal", "get_maven_dependencies", format!("not finished after {step_budget} polls ({n0} fetches, max latency {lat})"))),
                Outcome::Stalled => out.push(Violation::new("T2", "no-progress-after-heal", "pending-without-wake", "Pending returned without a wake-up arranged")),
                Outcome::Cancelled => unreachable!(),
            }
        }
        st.obs = obs;
        out
    }

    fn shrink(&self, p: &Plan) -> Vec<Plan> {
        let mut c: Vec<Plan> = vec![];
        let with_net = |net: NetPlan| Plan { u: p.u.clone(), net, repairs: 0 };
        let with_u = |u: Universe| Plan { u, net: p.net.clone(), repairs: 0 };
        // faults
        if !p.net.faults.is_empty() {
            c.push(with_net(p.net.without_faults()));
            for i in 0..p.net.faults.len() {
                let mut n = p.net.clone();
                n.faults.remove(i);
                c.push(with_net(n));
            }
        }
        if p.net.max_latency > 0 {
            c.push(with_net(NetPlan { max_latency: 0, ..p.net.clone() }));
            c.push(with_net(NetPlan { max_latency: 1, ..p.net.clone() }));
        }
        if p.net.seed != 0 {
            c.push(with_net(NetPlan { seed: 0, ..p.net.clone() }));
        }
        let u = &p.u;
        // roots
        if u.roots.len() > 1 {
            for i in 0..u.roots.len() {
                let mut q = u.clone();
                q.roots.remove(i);
                c.push(with_u(q));
            }
        }
        // artifacts, highest layer first
        for i in (0..u.arts.len()).rev() {
            if u.arts.len() > 1 {
                let mut q = Plan { u: u.without_art(i), net: p.net.clone(), repairs: 0 };
                q.net.faults.retain(|f| !matches!(f, NetFault::WrongModelVersion { artifact, .. } if *artifact == i));
                for f in &mut q.net.faults {
                    if let NetFault::WrongModelVersion { artifact, .. } = f {
                        if *artifact > i {
                            *artifact -= 1;
                        }
                    }
                }
                c.push(q);
            }
        }
        // repositories
        if u.repos.len() > 1 {
            for r in 0..u.repos.len() {
                let mut q = Plan { u: u.without_repo(r), net: p.net.clone(), repairs: 0 };
                q.net.faults.retain(|f| !matches!(f, NetFault::RepoDown { repo } | NetFault::WrongModelVersion { repo, .. } if *repo == r));
                for f in &mut q.net.faults {
                    if let NetFault::RepoDown { repo } | NetFault::WrongModelVersion { repo, .. } = f {
                        if *repo > r {
                            *repo -= 1;
                        }
                    }
                }
                c.push(q);
            }
            // everything served by the first repository only
            let mut q = u.clone();
            let all: Vec<usize> = (0..u.arts.len()).collect();
            if q.repos[0].serves != all || q.repos[1..].iter().any(|r| !r.serves.is_empty()) {
                q.repos[0].serves = all;
                for r in &mut q.repos[1..] {
                    r.serves.clear();
                }
                c.push(with_u(q));
            }
        }
        // edges and entries
        for (i, a) in u.arts.iter().enumerate() {
            for k in 0..a.deps.len() {
                let mut q = u.clone();
                q.arts[i].deps.remove(k);
                c.push(with_u(q));
            }
            for k in 0..a.managed.len() {
                let mut q = u.clone();
                q.arts[i].managed.remove(k);
                c.push(with_u(q));
            }
            for k in 0..a.imports.len() {
                let mut q = u.clone();
                q.arts[i].imports.remove(k);
                c.push(with_u(q));
            }
            if a.parent.is_some() {
                let mut q = u.clone();
                q.arts[i].parent = None;
                q.arts[i].omit_group = false;
                q.arts[i].omit_version = false;
                c.push(with_u(q));
            }
        }
        // field simplifications
        for (i, a) in u.arts.iter().enumerate() {
            if a.omit_group || a.omit_version {
                let mut q = u.clone();
                q.arts[i].omit_group = false;
                q.arts[i].omit_version = false;
                c.push(with_u(q));
            }
            if a.packaging.is_some() && !a.is_pom_packaged() {
                let mut q = u.clone();
                q.arts[i].packaging = None;
                c.push(with_u(q));
            }
            for (k, d) in a.deps.iter().enumerate() {
                if d.optional.is_some() {
                    let mut q = u.clone();
                    q.arts[i].deps[k].optional = None;
                    c.push(with_u(q));
                }
                if d.scope.is_some() {
                    let mut q = u.clone();
                    q.arts[i].deps[k].scope = None;
                    c.push(with_u(q));
                }
                if d.classifier.is_some() || d.type_.is_some() {
                    let mut q = u.clone();
                    q.arts[i].deps[k].classifier = None;
                    q.arts[i].deps[k].type_ = None;
                    c.push(with_u(q));
                }
            }
            for (k, m) in a.managed.iter().enumerate() {
                if m.scope.is_some() {
                    let mut q = u.clone();
                    q.arts[i].managed[k].scope = None;
                    c.push(with_u(q));
                }
            }
        }
        for (i, r) in u.roots.iter().enumerate() {
            if r.scope != Scope::Compile {
                let mut q = u.clone();
                q.roots[i].scope = Scope::Compile;
                c.push(with_u(q));
            }
            if r.classifier.is_some() || r.type_.is_some() {
                let mut q = u.clone();
                q.roots[i].classifier = None;
                q.roots[i].type_ = None;
                c.push(with_u(q));
            }
        }
        if u.xml_decl {
            let mut q = u.clone();
            q.xml_decl = false;
            c.push(with_u(q));
        }
        c
    }

    fn size(&self, p: &Plan) -> (u64, u64) {
        (p.u.count(), p.net.faults.len() as u64)
    }
    fn rule(&self) -> String {
        "one run = one generated POM universe (1-12 artifacts in layers; parent chains to depth 3, BOM imports incl. BOM-in-BOM, managed versions/scopes, omitted versions, classifiers/types, optional flags, all five scopes on roots and dependencies, several versions per group:artifact) x 1-4 repositories each serving a subset x 1-3 roots x one latency schedule (0-5 polls per request) x 0-2 faults (transient Err on request n, repository down, wrong modelVersion on one repository, cancellation at poll k); a run counts as non-trivial when a 404-fallback, a non-zero latency or a fault actually fired, and as distinct by (universe shape digest, request-log digest)".into()
    }
    fn assumptions(&self) -> Vec<String> {
        vec![
            "supported subset as stated by the property: literal versions only (no properties, ranges, exclusions, profiles, relativePath); in each POM plain dependencyManagement entries are written before the import entries; a child does not declare a dependency key an ancestor declares; a key is declared at most once per POM section".into(),
            "generator restriction (documentation undecided): a key managed through an import of a POM (or of an ancestor) is never also declared in the dependencyManagement of another ancestor - Maven's guide says the import entry 'is replaced' by the BOM's list and that the child's declaration beats the parent's, but not whether an ancestor's own declaration beats a descendant's import; universes where the two readings differ are not generated and are skipped on replay (probe inadmissible_skipped)".into(),
            "generator restriction: dependencyManagement entries carry no <optional> (the guide lists version, scope and exclusions as managed)".into(),
            "the scope table's missing `system` row is taken to propagate `system` like the `provided`/`test` rows propagate themselves ('system is similar to provided'); a `system` dependency of a dependency is not transitive".into(),
            "a type's default classifier (test-jar -> tests, ejb-client -> client, java-source -> sources, javadoc -> javadoc) comes from Maven's default artifact handler table; generated explicit classifiers never collide with these".into(),
            "every artifact of the universe is served by at least one repository (a resolver may fetch POMs of subtrees that mediation later discards); the unpruned dependency forest has at most 260 nodes".into(),
            "the FoundDependency round trip compares coordinate, scope and repository url; the crate documents that the printed form drops the repository's name".into(),
            "under faults: Err, or Ok equal to the fault-free answer, or Ok equal to the model's answer for the universe in which the failing repository / the wrong-modelVersion POM is absent; the order of requests is logged, never constrained".into(),
            "harness profile: opt-level 2 with overflow checks and debug assertions; serde-xml-rs is trusted (as in the crate's own tests); POMs are parsed once per run and cloned per request".into(),
        ]
    }
    fn real_and_stub(&self) -> serde_json::Value {
        json!({
            "real": ["maven_dependency_resolver::get_maven_dependencies (effective POM, management, scope table, mediation, breadth-first flattening)", "resolver::try_resolvers / try_get_pom_for", "MavenCoord / FoundDependency / DependencyScope Display + FromStr/TryFrom", "MavenPom deserialisation (serde)", "async-recursion"],
            "stub": ["network: SimNet implements Downloader (latency, 404, Err decided by the plan)", "executor: single-task poll loop with a flag waker; poll count is the clock", "serde-xml-rs (trusted XML reader)"],
            "reference": ["refmvn::{Universe::resolve, mgmt, eff_deps, scope_table, pom_url, pom_xml}"]
        })
    }
    fn expected_probes(&self) -> Vec<&'static str> {
        let mut v = vec![
            "fallback_404_then_hit_later_repo",
            "cancelled_then_retried",
            "transient_err_fired",
            "mediation_conflict_resolved",
            "mediation_tie_broken_by_declaration_order",
            "loser_subtree_discarded",
            "same_artifact_via_several_paths",
            "managed_version_filled",
            "managed_scope_filled",
            "bom_import_used",
            "bom_imports_bom",
            "parent_inherited",
            "parent_chain_depth_3",
            "inherited_dependency_managed_in_child",
            "scope_cut",
            "optional_cut",
            "latency_nonzero",
            "err_under_fault",
            "healed_after_fault",
            "repos_4",
        ];
        for row in PAIR_PROBES {
            v.extend(row);
        }
        v
    }
}

fn telemetry_probes(st: &mut RunStats, t: &Telemetry, u: &Universe) {
    st.probe_n("mediation_conflict_resolved", t.conflicts);
    st.probe_n("mediation_tie_broken_by_declaration_order", t.conflicts_same_depth);
    st.probe_n("mediation_conflict_among_roots", t.conflict_among_roots);
    st.probe_n("same_artifact_via_several_paths", t.duplicates);
    st.probe_n("loser_subtree_discarded", t.discarded_subtree_nonempty);
    st.probe_n("managed_version_filled", t.managed_version);
    st.probe_n("managed_scope_filled", t.managed_scope);
    st.probe_n("explicit_version_over_managed", t.explicit_over_managed);
    st.probe_n("bom_import_used", t.via_import);
    st.probe_n("bom_imports_bom", t.nested_import);
    st.probe_n("parent_inherited", t.inherited_dep + t.inherited_mgmt_used + t.inherited_gv);
    st.probe_n("parent_inherited.dependency", t.inherited_dep);
    st.probe_n("parent_inherited.management", t.inherited_mgmt_used);
    st.probe_n("parent_inherited.group_or_version", t.inherited_gv);
    st.probe_n("inherited_dependency_managed_in_child", t.inherited_dep_managed_by_child);
    if t.parent_chain_max >= 3 {
        st.probe("parent_chain_depth_3");
    }
    st.probe_n("scope_cut", t.scope_cut);
    st.probe_n("optional_cut", t.optional_cut);
    st.probe_n("type_default_classifier", t.handler_classifier);
    st.probe_n("timestamped_snapshot_version", t.snapshot_timestamp);
    if t.max_depth >= 3 {
        st.probe("depth_ge_3");
    }
    for (l, row) in t.pairs.iter().enumerate() {
        for (tp, n) in row.iter().enumerate() {
            st.probe_n(PAIR_PROBES[l][tp], *n);
        }
    }
    match u.repos.len() {
        1 => st.probe("repos_1"),
        2 => st.probe("repos_2"),
        3 => st.probe("repos_3"),
        _ => st.probe("repos_4"),
    }
}

// ------------------------------------------------------------------------------------------------ generator

const GROUPS: [&str; 3] = ["org.ex", "com.ex.lib", "z"];
const NAMES: [&str; 6] = ["core", "util", "api", "io", "net-x", "json_b"];
const VERSIONS: [&str; 7] = ["1", "1.0", "1.1", "2.0", "2.1.3", "0.9-SNAPSHOT", "3.0-20230713.025619-4"];
const CLASSIFIERS: [&str; 3] = ["extra", "linux", "nat"];
const TYPES: [&str; 6] = ["jar", "test-jar", "war", "pom", "ejb-client", "bundle"];
const REPOS: [(&str, &str); 4] = [("central", "sim://r0"), ("r1", "sim://r1.example/maven/"), ("mirror-2", "sim://r2/a/b"), ("r3", "sim://r3/")];

fn gen_scope(w: &mut Rng) -> Scope {
    match w.below(20) {
        0..=5 => Scope::Compile,
        6..=11 => Scope::Runtime,
        12..=14 => Scope::Test,
        15..=17 => Scope::Provided,
        _ => Scope::System,
    }
}

/// another version of group:artifact among the artifacts below layer `below`
fn other_version(u: &Universe, below: usize, g: &str, a: &str, not: &str, w: &mut Rng) -> Option<String> {
    let vs: Vec<&str> = u.arts[..below.min(u.arts.len())].iter().filter(|x| x.group == g && x.artifact == a && x.version != not).map(|x| x.version.as_str()).collect();
    if vs.is_empty() {
        None
    } else {
        Some(w.pick(&vs).to_string())
    }
}

fn push_managed(list: &mut Vec<Managed>, m: Managed) -> bool {
    if list.iter().any(|o| o.key() == m.key()) {
        false
    } else {
        list.push(m);
        true
    }
}

pub fn gen_universe(w: &mut Rng) -> (Universe, u32) {
    let n = *w.pick(&[1usize, 2, 3, 4, 4, 5, 5, 6, 6, 7, 7, 8, 8, 9, 10, 11, 12, 12]);
    let n_ga = 1 + w.usize(n.min(5));
    let mut gas: Vec<(&str, &str)> = vec![];
    while gas.len() < n_ga {
        let ga = (*w.pick(&GROUPS), *w.pick(&NAMES));
        if !gas.contains(&ga) {
            gas.push(ga);
        }
    }
    let mut u = Universe { arts: vec![], repos: vec![], roots: vec![], xml_decl: w.chance(30) };

    // pass 1: identities, packaging, parents
    for i in 0..n {
        let mut gav = None;
        for _ in 0..20 {
            let ga = *w.pick(&gas);
            let v = *w.pick(&VERSIONS);
            if u.find(ga.0, ga.1, v).is_none() {
                gav = Some((ga.0.to_string(), ga.1.to_string(), v.to_string()));
                break;
            }
        }
        let (mut group, artifact, mut version) = gav.unwrap_or_else(|| (gas[0].0.to_string(), gas[0].1.to_string(), format!("9.{i}")));
        let pom = n > 1 && w.chance(if i * 3 < n { 55 } else { 20 });
        let packaging = if pom {
            Some("pom".to_string())
        } else {
            match w.below(10) {
                0 => Some("jar".to_string()),
                1 => Some("bundle".to_string()),
                _ => None,
            }
        };
        let cands: Vec<usize> = (0..i).filter(|j| u.arts[*j].is_pom_packaged() && u.chain(*j).map_or(false, |c| c.len() <= 3)).collect();
        let mut parent = None;
        let (mut omit_group, mut omit_version) = (false, false);
        if !cands.is_empty() && w.chance(45) {
            let j = *w.pick(&cands);
            parent = Some(u.arts[j].as_ref());
            if w.chance(50) && u.find(&u.arts[j].group, &artifact, &version).is_none() {
                group = u.arts[j].group.clone();
                omit_group = true;
            }
            if w.chance(40) && u.find(&group, &artifact, &u.arts[j].version).is_none() {
                version = u.arts[j].version.clone();
                omit_version = true;
            }
        }
        u.arts.push(Art { group, artifact, version, omit_group, omit_version, packaging, parent, managed: vec![], imports: vec![], deps: vec![] });
    }

    // pass 2: imports, management, dependencies (in layer order: an artifact only points to lower ones)
    for i in 0..n {
        let chain = u.chain(i).unwrap_or_else(|_| vec![i]);
        let ancestors: Vec<usize> = chain[1..].to_vec();
        let boms: Vec<usize> = (0..i).filter(|j| u.arts[*j].is_pom_packaged() && !chain.contains(j)).collect();
        if !boms.is_empty() && w.chance(35) {
            for _ in 0..w.range(1, 2) {
                let r = u.arts[*w.pick(&boms)].as_ref();
                if !u.arts[i].imports.contains(&r) {
                    u.arts[i].imports.push(r);
                }
            }
        }
        for _ in 0..*w.pick(&[0, 0, 0, 1, 1, 2]) {
            let t = w.usize(n);
            let m = Managed { group: u.arts[t].group.clone(), artifact: u.arts[t].artifact.clone(), version: u.arts[t].version.clone(), scope: if w.chance(35) { Some(gen_scope(w)) } else { None }, classifier: None, type_: None };
            push_managed(&mut u.arts[i].managed, m);
        }
        // the child overrides an entry an ancestor manages
        if w.chance(30) {
            let inherited: Vec<Managed> = ancestors.iter().flat_map(|j| u.arts[*j].managed.iter().cloned()).collect();
            if !inherited.is_empty() {
                let e = w.pick(&inherited).clone();
                let version = other_version(&u, i, &e.group, &e.artifact, &e.version, w).unwrap_or_else(|| e.version.clone());
                let m = Managed { version, scope: if w.chance(40) { Some(gen_scope(w)) } else { e.scope }, ..e };
                push_managed(&mut u.arts[i].managed, m);
            }
        }
        if i == 0 {
            continue;
        }
        for _ in 0..*w.pick(&[0, 1, 1, 2, 2, 2, 3, 3]) {
            let mut t = w.usize(i);
            for _ in 0..3 {
                if u.arts[t].is_pom_packaged() && w.chance(80) {
                    t = w.usize(i);
                }
            }
            let classifier = if w.chance(12) { Some(w.pick(&CLASSIFIERS).to_string()) } else { None };
            let type_ = if w.chance(15) { Some(w.pick(&TYPES).to_string()) } else { None };
            let mut d = Dep { group: u.arts[t].group.clone(), artifact: u.arts[t].artifact.clone(), version: Some(u.arts[t].version.clone()), scope: None, optional: None, classifier, type_ };
            let key = d.key();
            if chain.iter().any(|j| u.arts[*j].deps.iter().any(|o| o.key() == key)) {
                continue;
            }
            if !w.chance(45) {
                d.scope = Some(gen_scope(w));
            }
            d.optional = match w.below(100) {
                0..=11 => Some(true),
                12..=19 => Some(false),
                _ => None,
            };
            let entry = |version: String, w: &mut Rng| Managed { group: d.group.clone(), artifact: d.artifact.clone(), version, scope: if w.chance(35) { Some(gen_scope(w)) } else { None }, classifier: d.classifier.clone(), type_: d.type_.clone() };
            // where a new management entry for this dependency goes: own POM, an ancestor, or an imported BOM
            let place = |u: &Universe, w: &mut Rng| -> usize {
                match w.below(10) {
                    0..=3 => i,
                    4..=6 if !ancestors.is_empty() => *w.pick(&ancestors),
                    7..=9 if !u.arts[i].imports.is_empty() => {
                        let b = u.find_ref(w.pick(&u.arts[i].imports)).unwrap_or(i);
                        // sometimes one level further down: a BOM imported by the BOM
                        if w.chance(40) && !u.arts[b].imports.is_empty() {
                            u.find_ref(&u.arts[b].imports[0]).unwrap_or(b)
                        } else {
                            b
                        }
                    }
                    _ => i,
                }
            };
            if w.chance(40) {
                // version omitted: management must supply it
                let managed = u.mgmt(i, true, 0).ok().and_then(|m| m.iter().find(|e| e.key == key).map(|e| e.version.clone()));
                match managed {
                    None => {
                        let at = place(&u, w);
                        let m = entry(u.arts[t].version.clone(), w);
                        if !push_managed(&mut u.arts[at].managed, m.clone()) {
                            push_managed(&mut u.arts[i].managed, m);
                        }
                        d.version = None;
                    }
                    // already managed: omit the version only if the managed one names a lower layer
                    Some(v) => {
                        if u.find(&d.group, &d.artifact, &v).is_some_and(|x| x < i) {
                            d.version = None;
                        }
                    }
                }
            } else if w.chance(25) {
                // explicit version next to a managed (possibly different) one: the explicit one stays
                let at = place(&u, w);
                let v = other_version(&u, n, &d.group, &d.artifact, d.version.as_deref().unwrap(), w).unwrap_or_else(|| u.arts[t].version.clone());
                let m = entry(v, w);
                push_managed(&mut u.arts[at].managed, m);
            }
            u.arts[i].deps.push(d);
        }
    }

    // roots
    for _ in 0..*w.pick(&[1, 1, 1, 2, 2, 3]) {
        let span = w.usize(n) + 1;
        let a = &u.arts[n - 1 - w.usize(span)];
        let scope = if w.chance(50) { Scope::Compile } else { *w.pick(&Scope::ALL) };
        u.roots.push(Root {
            group: a.group.clone(),
            artifact: a.artifact.clone(),
            version: a.version.clone(),
            classifier: if w.chance(8) { Some(w.pick(&CLASSIFIERS).to_string()) } else { None },
            type_: if w.chance(8) { Some(w.pick(&TYPES).to_string()) } else { None },
            scope,
        });
    }

    // repositories
    let nrep = *w.pick(&[1usize, 1, 2, 2, 2, 3, 3, 4]);
    for (name, url) in REPOS.iter().take(nrep) {
        u.repos.push(Repo { name: name.to_string(), url: url.to_string(), serves: vec![] });
    }
    for a in 0..n {
        let mut any = false;
        for r in 0..nrep {
            if w.chance(50) {
                u.repos[r].serves.push(a);
                any = true;
            }
        }
        if !any {
            let r = w.usize(nrep);
            u.repos[r].serves.push(a);
        }
    }

    let repairs = repair(&mut u);
    (u, repairs)
}

/// Cuts whatever keeps the universe outside the supported subset. Every step removes something, so it ends.
fn repair(u: &mut Universe) -> u32 {
    let mut n = 0u32;
    loop {
        let rej = match u.admissible() {
            Ok(()) => return n,
            Err(r) => r,
        };
        n += 1;
        if n > 300 {
            break;
        }
        match rej.kind {
            RejectKind::DepUnmanaged(l, di) => {
                u.arts[l].deps.remove(di);
            }
            RejectKind::DepTarget(l, di) => {
                // prefer to cut the management that redirected the dependency; cut the dependency itself last
                let key = u.arts[l].deps[di].key();
                let at = rej.art;
                let before = u.arts[at].managed.len();
                if u.arts[l].deps[di].version.is_none() {
                    u.arts[at].managed.retain(|m| m.key() != key);
                }
                if u.arts[at].managed.len() == before {
                    if u.arts[l].deps[di].version.is_none() && !u.arts[at].imports.is_empty() {
                        u.arts[at].imports.pop();
                    } else {
                        u.arts[l].deps.remove(di);
                    }
                }
            }
            RejectKind::Redeclared(l, di) => {
                u.arts[l].deps.remove(di);
            }
            RejectKind::AmbiguousImport => {
                if u.arts[rej.art].imports.pop().is_none() {
                    break;
                }
            }
            RejectKind::TooLarge => match (0..u.arts.len()).rev().find(|i| !u.arts[*i].deps.is_empty()) {
                Some(i) => {
                    u.arts[i].deps.pop();
                }
                None => {
                    u.roots.truncate(1);
                }
            },
            RejectKind::Structure => break,
        }
    }
    // should not happen: fall back to a universe without edges and say so
    for a in &mut u.arts {
        a.deps.clear();
        a.managed.clear();
        a.imports.clear();
        a.parent = None;
        a.omit_group = false;
        a.omit_version = false;
    }
    999
}
