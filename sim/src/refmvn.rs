//! refmvn - a POM universe model, its XML writer, and an independent reference resolver written from Maven's
//! documented rules ("Introduction to the Dependency Mechanism", "Introduction to the POM", the default
//! artifact handlers table, the repository layout). Shares no code with /repo.
//!
//! Rules implemented (restricted to the subset property C19 declares supported):
//! * effective POM: groupId / version / dependencies / dependencyManagement are inherited along the parent
//!   chain (the child's own declarations first, "the current POM's declaration takes precedence over its
//!   parent's declaration"); a parent must have packaging `pom`;
//! * `import`-scoped `pom`-typed entries of dependencyManagement are replaced by the effective managed list of
//!   the named BOM, recursively ("it will simply appear that all of Q's managed dependencies are defined in
//!   X"); among several imports the first declared wins; a POM's own declarations win over its imports;
//! * management is matched on {groupId, artifactId, type, classifier} and fills an omitted version and an
//!   omitted scope of every dependency of the *effective* POM (own and inherited alike);
//! * default scope `compile`, default type `jar`, default classifier from the artifact-handler table;
//! * transitive scope = the documented table; `provided`/`test`/`system` dependencies of a dependency and
//!   optional dependencies are not transitive;
//! * mediation: nearest to the roots wins, first declaration wins on ties, per (group, artifact, classifier,
//!   type); a losing occurrence is dropped together with its subtree; output is breadth-first, no duplicates;
//! * a POM is served by the first repository in list order that has it.

use crate::rng::Digest;
use serde::{Deserialize, Serialize};
use std::collections::VecDeque;

#[derive(Clone, Copy, Debug, PartialEq, Eq, PartialOrd, Ord, Serialize, Deserialize)]
pub enum Scope {
    Compile,
    Runtime,
    Test,
    System,
    Provided,
}
impl Scope {
    pub const ALL: [Scope; 5] = [Scope::Compile, Scope::Runtime, Scope::Test, Scope::System, Scope::Provided];
    pub fn name(self) -> &'static str {
        match self {
            Scope::Compile => "compile",
            Scope::Runtime => "runtime",
            Scope::Test => "test",
            Scope::System => "system",
            Scope::Provided => "provided",
        }
    }
    pub fn idx(self) -> usize {
        self as usize
    }
}

/// The dependency-scope table of the guide: `left` is the scope of the dependency we are at, `top` the scope its
/// POM declares for the next dependency; `None` is the table's `-`.
/// The guide has no row for `system`; it describes `system` as "similar to provided", and every row other than
/// `compile` propagates its own scope, so the `system` row is taken to do the same (stated in assumptions()).
pub fn scope_table(left: Scope, top: Scope) -> Option<Scope> {
    match top {
        Scope::Provided | Scope::Test | Scope::System => None,
        Scope::Compile => Some(left),
        Scope::Runtime => Some(match left {
            Scope::Compile => Scope::Runtime,
            other => other,
        }),
    }
}

/// Default classifier of a type (Maven "Default Artifact Handlers Reference").
pub fn handler_classifier(type_: &str) -> Option<&'static str> {
    match type_ {
        "test-jar" => Some("tests"),
        "ejb-client" => Some("client"),
        "java-source" => Some("sources"),
        "javadoc" => Some("javadoc"),
        _ => None,
    }
}

#[derive(Clone, Debug, PartialEq, Serialize, Deserialize)]
pub struct Ref {
    pub group: String,
    pub artifact: String,
    pub version: String,
}

#[derive(Clone, Debug, PartialEq, Serialize, Deserialize)]
pub struct Dep {
    pub group: String,
    pub artifact: String,
    pub version: Option<String>,
    pub scope: Option<Scope>,
    pub optional: Option<bool>,
    pub classifier: Option<String>,
    pub type_: Option<String>,
}

#[derive(Clone, Debug, PartialEq, Serialize, Deserialize)]
pub struct Managed {
    pub group: String,
    pub artifact: String,
    pub version: String,
    pub scope: Option<Scope>,
    pub classifier: Option<String>,
    pub type_: Option<String>,
}

#[derive(Clone, Debug, PartialEq, Serialize, Deserialize)]
pub struct Art {
    pub group: String,
    pub artifact: String,
    pub version: String,
    /// the POM omits `<groupId>` / `<version>` and inherits it (only with a parent whose value is the same)
    pub omit_group: bool,
    pub omit_version: bool,
    pub packaging: Option<String>,
    pub parent: Option<Ref>,
    /// plain dependencyManagement entries; written *before* the imports (supported subset)
    pub managed: Vec<Managed>,
    /// `<scope>import</scope><type>pom</type>` entries of dependencyManagement
    pub imports: Vec<Ref>,
    pub deps: Vec<Dep>,
}

#[derive(Clone, Debug, PartialEq, Serialize, Deserialize)]
pub struct Repo {
    pub name: String,
    pub url: String,
    /// indices into `Universe::arts`, ascending
    pub serves: Vec<usize>,
}

#[derive(Clone, Debug, PartialEq, Serialize, Deserialize)]
pub struct Root {
    pub group: String,
    pub artifact: String,
    pub version: String,
    pub classifier: Option<String>,
    pub type_: Option<String>,
    pub scope: Scope,
}

/// A POM universe. `arts` is in layer order: every edge that causes a fetch (parent, import, resolved dependency)
/// points to a lower index, which makes the universe acyclic by construction (checked by `admissible`).
#[derive(Clone, Debug, PartialEq, Serialize, Deserialize)]
pub struct Universe {
    pub arts: Vec<Art>,
    pub repos: Vec<Repo>,
    pub roots: Vec<Root>,
    /// write `<?xml ...?>` and the xmlns attributes, as real POMs have
    pub xml_decl: bool,
}

#[derive(Clone, Debug, PartialEq, Eq)]
pub struct Key {
    pub group: String,
    pub artifact: String,
    pub classifier: Option<String>,
    pub type_: String,
}

fn key_of(group: &str, artifact: &str, classifier: &Option<String>, type_: &Option<String>) -> Key {
    let type_ = type_.clone().unwrap_or_else(|| "jar".to_string());
    let classifier = classifier.clone().or_else(|| handler_classifier(&type_).map(str::to_string));
    Key { group: group.to_string(), artifact: artifact.to_string(), classifier, type_ }
}
impl Dep {
    pub fn key(&self) -> Key {
        key_of(&self.group, &self.artifact, &self.classifier, &self.type_)
    }
}
impl Managed {
    pub fn key(&self) -> Key {
        key_of(&self.group, &self.artifact, &self.classifier, &self.type_)
    }
}
impl Art {
    pub fn as_ref(&self) -> Ref {
        Ref { group: self.group.clone(), artifact: self.artifact.clone(), version: self.version.clone() }
    }
    pub fn is_pom_packaged(&self) -> bool {
        self.packaging.as_deref() == Some("pom")
    }
}

/// One entry of an effective dependencyManagement list, in priority order (first match wins).
#[derive(Clone, Debug)]
pub struct MEntry {
    pub key: Key,
    pub version: String,
    pub scope: Option<Scope>,
    pub imported: bool,
    pub inherited: bool,
}

/// One dependency of an effective POM.
#[derive(Clone, Debug)]
pub struct EDep {
    pub key: Key,
    pub version: String,
    pub scope: Scope,
    pub optional: bool,
    /// index of the artifact (group, artifact, version) names
    pub target: usize,
    /// 0 = declared by the POM itself, n = by its n-th ancestor
    pub level: usize,
    pub version_managed: bool,
    pub scope_managed: bool,
    pub via_import: bool,
    pub via_inherited_mgmt: bool,
}

#[derive(Clone, Debug, PartialEq)]
pub struct Resolved {
    pub group: String,
    pub artifact: String,
    pub version: String,
    pub classifier: Option<String>,
    pub type_: String,
    pub scope: Scope,
    /// index of the serving repository
    pub repo: usize,
}
impl Resolved {
    pub fn render(&self) -> String {
        format!(
            "{}:{}:{}{}{}:{}:{}@r{}",
            self.group,
            self.artifact,
            self.type_,
            if self.classifier.is_some() { ":" } else { "" },
            self.classifier.as_deref().unwrap_or(""),
            self.version,
            self.scope.name(),
            self.repo
        )
    }
}

/// What the model saw while resolving; turned into probes by the engine.
#[derive(Clone, Debug, Default)]
pub struct Telemetry {
    pub conflicts: u64,
    pub conflicts_same_depth: u64,
    pub conflict_among_roots: u64,
    pub duplicates: u64,
    pub discarded_subtree_nonempty: u64,
    pub managed_version: u64,
    pub managed_scope: u64,
    pub via_import: u64,
    pub nested_import: u64,
    pub inherited_dep: u64,
    pub inherited_dep_managed_by_child: u64,
    pub inherited_mgmt_used: u64,
    pub inherited_gv: u64,
    pub parent_chain_max: u64,
    pub scope_cut: u64,
    pub optional_cut: u64,
    pub explicit_over_managed: u64,
    pub handler_classifier: u64,
    pub snapshot_timestamp: u64,
    pub pairs: [[u64; 5]; 5],
    pub max_depth: u64,
}

#[derive(Clone, Debug, PartialEq)]
pub struct Reject {
    /// artifact the problem was found at (usize::MAX: universe level)
    pub art: usize,
    pub kind: RejectKind,
    pub msg: String,
}
#[derive(Clone, Debug, PartialEq)]
pub enum RejectKind {
    Structure,
    /// (level artifact index, index in its `deps`)
    DepUnmanaged(usize, usize),
    DepTarget(usize, usize),
    Redeclared(usize, usize),
    AmbiguousImport,
    TooLarge,
}

const MAX_DEPTH: usize = 24;
pub const MAX_EXPANSION: u64 = 260;

fn name_ok(s: &str) -> bool {
    !s.is_empty() && s.len() <= 40 && s.bytes().all(|b| b.is_ascii_alphanumeric() || b == b'.' || b == b'-' || b == b'_')
}
fn url_ok(s: &str) -> bool {
    !s.is_empty() && s.bytes().all(|b| b.is_ascii_alphanumeric() || b"./:-_".contains(&b))
}

impl Universe {
    pub fn find(&self, g: &str, a: &str, v: &str) -> Option<usize> {
        self.arts.iter().position(|x| x.group == g && x.artifact == a && x.version == v)
    }
    pub fn find_ref(&self, r: &Ref) -> Option<usize> {
        self.find(&r.group, &r.artifact, &r.version)
    }

    /// [i, parent(i), grandparent(i), ...]
    pub fn chain(&self, i: usize) -> Result<Vec<usize>, String> {
        let mut out = vec![i];
        let mut cur = i;
        while let Some(p) = &self.arts[cur].parent {
            let j = self.find_ref(p).ok_or_else(|| format!("parent {}:{}:{} of artifact {cur} is not in the universe", p.group, p.artifact, p.version))?;
            if !self.arts[j].is_pom_packaged() {
                return Err(format!("parent {j} of {cur} does not have packaging pom"));
            }
            if out.contains(&j) || out.len() > MAX_DEPTH {
                return Err("parent cycle".into());
            }
            out.push(j);
            cur = j;
        }
        Ok(out)
    }

    /// Effective dependencyManagement of artifact `i` as a priority list.
    /// `maven3 = true`: everything declared along the parent chain comes before everything imported (what Maven's
    /// model builder does: inheritance first, import afterwards). `maven3 = false`: the literal reading of
    /// "the import entry is replaced by the BOM's list", applied per level before inheriting. The two readings
    /// agree unless a POM's import manages a key that an ancestor declares; `admissible` rejects that case
    /// because the documentation does not decide it.
    pub fn mgmt(&self, i: usize, maven3: bool, depth: usize) -> Result<Vec<MEntry>, String> {
        if depth > MAX_DEPTH {
            return Err("import/parent nesting too deep (cycle?)".into());
        }
        let chain = self.chain(i)?;
        let mut out = vec![];
        let direct = |out: &mut Vec<MEntry>, lvl: usize, j: usize| {
            for m in &self.arts[j].managed {
                out.push(MEntry { key: m.key(), version: m.version.clone(), scope: m.scope, imported: false, inherited: lvl > 0 });
            }
        };
        let imports = |out: &mut Vec<MEntry>, lvl: usize, j: usize| -> Result<(), String> {
            for r in &self.arts[j].imports {
                let b = self.find_ref(r).ok_or_else(|| format!("imported BOM {}:{}:{} is not in the universe", r.group, r.artifact, r.version))?;
                for mut e in self.mgmt(b, maven3, depth + 1)? {
                    e.imported = true;
                    e.inherited = lvl > 0;
                    out.push(e);
                }
            }
            Ok(())
        };
        if maven3 {
            for (lvl, j) in chain.iter().enumerate() {
                direct(&mut out, lvl, *j);
            }
            for (lvl, j) in chain.iter().enumerate() {
                imports(&mut out, lvl, *j)?;
            }
        } else {
            for (lvl, j) in chain.iter().enumerate() {
                direct(&mut out, lvl, *j);
                imports(&mut out, lvl, *j)?;
            }
        }
        Ok(out)
    }

    /// Dependencies of the effective POM of `i`: own first, then each ancestor's, all filled from `i`'s
    /// effective management.
    pub fn eff_deps(&self, i: usize) -> Result<Vec<EDep>, Reject> {
        self.eff_deps_with(i, false)
    }

    /// `per_level = true` is NOT Maven's rule: it fills each inherited dependency from the management of the POM
    /// that declares it instead of the management of the effective POM. It exists only so that the engine can
    /// name one particular deviation of the code under test when it sees it (diagnosis, never acceptance).
    pub fn eff_deps_with(&self, i: usize, per_level: bool) -> Result<Vec<EDep>, Reject> {
        let structure = |msg: String| Reject { art: i, kind: RejectKind::Structure, msg };
        let chain = self.chain(i).map_err(structure)?;
        let mut mg = self.mgmt(i, true, 0).map_err(structure)?;
        let mut out: Vec<EDep> = vec![];
        for (level, j) in chain.iter().enumerate() {
            if per_level && level > 0 {
                mg = self.mgmt(*j, true, 0).map_err(structure)?;
            }
            for (di, d) in self.arts[*j].deps.iter().enumerate() {
                let key = d.key();
                if out.iter().any(|e| e.key == key) {
                    return Err(Reject { art: i, kind: RejectKind::Redeclared(*j, di), msg: format!("dependency {}:{} declared twice along the parent chain of {i}", d.group, d.artifact) });
                }
                let m = mg.iter().find(|e| e.key == key);
                let (version, version_managed) = match (&d.version, m) {
                    (Some(v), _) => (v.clone(), false),
                    (None, Some(e)) => (e.version.clone(), true),
                    (None, None) => {
                        return Err(Reject { art: i, kind: RejectKind::DepUnmanaged(*j, di), msg: format!("dependency {}:{} of {j} has no version and is not managed in {i}", d.group, d.artifact) })
                    }
                };
                let (scope, scope_managed) = match (d.scope, m.and_then(|e| e.scope)) {
                    (Some(s), _) => (s, false),
                    (None, Some(s)) => (s, true),
                    (None, None) => (Scope::Compile, false),
                };
                let target = match self.find(&d.group, &d.artifact, &version) {
                    Some(t) if t < i => t,
                    Some(t) => {
                        return Err(Reject { art: i, kind: RejectKind::DepTarget(*j, di), msg: format!("dependency {di} of {j} resolves in {i} to artifact {t}, which is not in a lower layer") })
                    }
                    None => {
                        return Err(Reject { art: i, kind: RejectKind::DepTarget(*j, di), msg: format!("dependency {}:{}:{version} of {j} (as seen from {i}) is not in the universe", d.group, d.artifact) })
                    }
                };
                let used = version_managed || scope_managed;
                out.push(EDep {
                    key,
                    version,
                    scope,
                    optional: d.optional.unwrap_or(false),
                    target,
                    level,
                    version_managed,
                    scope_managed,
                    via_import: used && m.is_some_and(|e| e.imported),
                    via_inherited_mgmt: used && m.is_some_and(|e| e.inherited),
                });
            }
        }
        Ok(out)
    }

    fn mgmt_view(list: &[MEntry]) -> Vec<(&Key, &str, Option<Scope>)> {
        let mut v: Vec<(&Key, &str, Option<Scope>)> = vec![];
        for e in list {
            if !v.iter().any(|x| x.0 == &e.key) {
                v.push((&e.key, &e.version, e.scope));
            }
        }
        v
    }

    /// Is this universe inside the subset the property quantifies over (and safe to hand to the real code)?
    pub fn admissible(&self) -> Result<(), Reject> {
        let uni = |msg: String| Reject { art: usize::MAX, kind: RejectKind::Structure, msg };
        if self.arts.is_empty() || self.arts.len() > 40 {
            return Err(uni("artifact count out of range".into()));
        }
        if self.repos.is_empty() || self.repos.len() > 4 {
            return Err(uni("1..=4 repositories".into()));
        }
        if self.roots.is_empty() {
            return Err(uni("no roots".into()));
        }
        for (i, a) in self.arts.iter().enumerate() {
            let st = |msg: String| Reject { art: i, kind: RejectKind::Structure, msg };
            if !(name_ok(&a.group) && name_ok(&a.artifact) && name_ok(&a.version)) {
                return Err(st("bad characters in coordinates".into()));
            }
            if self.arts[..i].iter().any(|b| b.group == a.group && b.artifact == a.artifact && b.version == a.version) {
                return Err(st("duplicate GAV".into()));
            }
            if let Some(p) = &a.packaging {
                if !name_ok(p) {
                    return Err(st("bad packaging".into()));
                }
            }
            match &a.parent {
                None => {
                    if a.omit_group || a.omit_version {
                        return Err(st("groupId/version omitted without a parent".into()));
                    }
                }
                Some(p) => {
                    let j = self.find_ref(p).ok_or_else(|| st("parent missing".into()))?;
                    if j >= i {
                        return Err(st("parent not in a lower layer".into()));
                    }
                    if (a.omit_group && self.arts[j].group != a.group) || (a.omit_version && self.arts[j].version != a.version) {
                        return Err(st("omitted groupId/version differs from the parent's".into()));
                    }
                }
            }
            let chain = self.chain(i).map_err(st)?;
            if chain.len() > 4 {
                return Err(st("parent chain deeper than 3".into()));
            }
            for r in &a.imports {
                let j = self.find_ref(r).ok_or_else(|| st("imported BOM missing".into()))?;
                if j >= i {
                    return Err(st("imported BOM not in a lower layer".into()));
                }
                if !self.arts[j].is_pom_packaged() {
                    return Err(st("imported BOM does not have packaging pom".into()));
                }
            }
            for (k, m) in a.managed.iter().enumerate() {
                if !(name_ok(&m.group) && name_ok(&m.artifact) && name_ok(&m.version) && m.classifier.as_deref().map_or(true, name_ok) && m.type_.as_deref().map_or(true, name_ok)) {
                    return Err(st("bad characters in a managed entry".into()));
                }
                if a.managed[..k].iter().any(|o| o.key() == m.key()) {
                    return Err(st("managed key declared twice in one POM".into()));
                }
            }
            for d in &a.deps {
                if !(name_ok(&d.group) && name_ok(&d.artifact) && d.version.as_deref().map_or(true, name_ok) && d.classifier.as_deref().map_or(true, name_ok) && d.type_.as_deref().map_or(true, name_ok)) {
                    return Err(st("bad characters in a dependency".into()));
                }
            }
            // the two readings of "import" must agree on every key
            let m1 = self.mgmt(i, true, 0).map_err(st)?;
            let m2 = self.mgmt(i, false, 0).map_err(st)?;
            let (v1, v2) = (Self::mgmt_view(&m1), Self::mgmt_view(&m2));
            for x in &v1 {
                if v2.iter().find(|y| y.0 == x.0) != Some(x) {
                    return Err(Reject { art: i, kind: RejectKind::AmbiguousImport, msg: format!("{}:{} is managed by an import of {i} or of an ancestor and declared by another ancestor; the documentation does not say which wins", x.0.group, x.0.artifact) });
                }
            }
            self.eff_deps(i)?;
        }
        for (ri, r) in self.repos.iter().enumerate() {
            if !name_ok(&r.name) || !url_ok(&r.url) {
                return Err(uni(format!("repository {ri}: bad name or url")));
            }
            if self.repos[..ri].iter().any(|o| o.url.trim_end_matches('/') == r.url.trim_end_matches('/') || o.name == r.name) {
                return Err(uni("two repositories share a url or a name".into()));
            }
            if r.serves.iter().any(|a| *a >= self.arts.len()) || r.serves.windows(2).any(|w| w[0] >= w[1]) {
                return Err(uni(format!("repository {ri}: serves list not ascending / out of range")));
            }
        }
        for i in 0..self.arts.len() {
            if !self.repos.iter().any(|r| r.serves.contains(&i)) {
                return Err(Reject { art: i, kind: RejectKind::Structure, msg: "artifact served by no repository".into() });
            }
        }
        for r in &self.roots {
            if !(name_ok(&r.group) && name_ok(&r.artifact) && name_ok(&r.version) && r.classifier.as_deref().map_or(true, name_ok) && r.type_.as_deref().map_or(true, name_ok)) {
                return Err(uni("bad characters in a root".into()));
            }
            if self.find(&r.group, &r.artifact, &r.version).is_none() {
                return Err(uni("root not in the universe".into()));
            }
        }
        if self.expansion() > MAX_EXPANSION {
            return Err(Reject { art: usize::MAX, kind: RejectKind::TooLarge, msg: "unpruned dependency tree too large".into() });
        }
        Ok(())
    }

    /// Number of nodes of the unpruned dependency forest (what a resolver that mediates after collecting visits).
    pub fn expansion(&self) -> u64 {
        let mut size: Vec<u64> = vec![0; self.arts.len()];
        for i in 0..self.arts.len() {
            let mut s = 1u64;
            if let Ok(ds) = self.eff_deps(i) {
                for d in ds {
                    if !d.optional && scope_table(Scope::Compile, d.scope).is_some() {
                        s = s.saturating_add(size[d.target]);
                    }
                }
            }
            size[i] = s;
        }
        self.roots.iter().filter_map(|r| self.find(&r.group, &r.artifact, &r.version)).map(|i| size[i]).fold(0u64, u64::saturating_add)
    }

    /// The reference answer. `serves(repo, artifact)` says which repository has which POM.
    pub fn resolve(&self, serves: &dyn Fn(usize, usize) -> bool) -> Result<(Vec<Resolved>, Telemetry), String> {
        self.resolve_with(serves, false)
    }

    pub fn resolve_with(&self, serves: &dyn Fn(usize, usize) -> bool, per_level: bool) -> Result<(Vec<Resolved>, Telemetry), String> {
        let mut tel = Telemetry::default();
        let mut memo: Vec<Option<Vec<EDep>>> = vec![None; self.arts.len()];
        struct Node {
            art: usize,
            key: Key,
            version: String,
            scope: Scope,
            depth: u64,
        }
        let mut queue: VecDeque<Node> = VecDeque::new();
        for r in &self.roots {
            let art = self.find(&r.group, &r.artifact, &r.version).ok_or("root not in the universe")?;
            let key = Key { group: r.group.clone(), artifact: r.artifact.clone(), classifier: r.classifier.clone(), type_: r.type_.clone().unwrap_or_else(|| "jar".into()) };
            queue.push_back(Node { art, key, version: r.version.clone(), scope: r.scope, depth: 0 });
        }
        // (key, winning version, depth of the winner)
        let mut selected: Vec<(Key, String, u64)> = vec![];
        let mut out = vec![];
        while let Some(n) = queue.pop_front() {
            if memo[n.art].is_none() {
                memo[n.art] = Some(self.eff_deps_with(n.art, per_level).map_err(|r| r.msg)?);
            }
            if let Some((_, v, d)) = selected.iter().find(|s| s.0 == n.key) {
                if *v != n.version {
                    tel.conflicts += 1;
                    if *d == n.depth {
                        tel.conflicts_same_depth += 1;
                    }
                    if n.depth == 0 {
                        tel.conflict_among_roots += 1;
                    }
                } else {
                    tel.duplicates += 1;
                }
                if memo[n.art].as_ref().unwrap().iter().any(|d| !d.optional && scope_table(n.scope, d.scope).is_some()) {
                    tel.discarded_subtree_nonempty += 1;
                }
                continue;
            }
            selected.push((n.key.clone(), n.version.clone(), n.depth));
            let repo = (0..self.repos.len()).find(|r| serves(*r, n.art)).ok_or_else(|| format!("artifact {} is served by no repository", n.art))?;
            tel.max_depth = tel.max_depth.max(n.depth);
            let a = &self.arts[n.art];
            let chain_len = self.chain(n.art)?.len() as u64;
            tel.parent_chain_max = tel.parent_chain_max.max(chain_len - 1);
            if a.omit_group || a.omit_version {
                tel.inherited_gv += 1;
            }
            if is_timestamped_snapshot(&n.version) {
                tel.snapshot_timestamp += 1;
            }
            out.push(Resolved { group: n.key.group.clone(), artifact: n.key.artifact.clone(), version: n.version.clone(), classifier: n.key.classifier.clone(), type_: n.key.type_.clone(), scope: n.scope, repo });
            let mg = self.mgmt(n.art, true, 0)?;
            for d in memo[n.art].as_ref().unwrap() {
                if d.version_managed {
                    tel.managed_version += 1;
                } else if mg.iter().any(|e| e.key == d.key && e.version != d.version) {
                    tel.explicit_over_managed += 1;
                }
                if d.scope_managed {
                    tel.managed_scope += 1;
                }
                if d.via_import {
                    tel.via_import += 1;
                }
                if d.via_inherited_mgmt {
                    tel.inherited_mgmt_used += 1;
                }
                if d.level > 0 {
                    tel.inherited_dep += 1;
                    if d.version_managed || d.scope_managed {
                        tel.inherited_dep_managed_by_child += 1;
                    }
                }
                if d.key.classifier.is_some() && handler_classifier(&d.key.type_).is_some() {
                    tel.handler_classifier += 1;
                }
                if d.optional {
                    tel.optional_cut += 1;
                    continue;
                }
                tel.pairs[n.scope.idx()][d.scope.idx()] += 1;
                match scope_table(n.scope, d.scope) {
                    None => tel.scope_cut += 1,
                    Some(s) => queue.push_back(Node { art: d.target, key: d.key.clone(), version: d.version.clone(), scope: s, depth: n.depth + 1 }),
                }
            }
            for r in &a.imports {
                if let Some(b) = self.find_ref(r) {
                    if !self.arts[b].imports.is_empty() {
                        tel.nested_import += 1;
                    }
                }
            }
        }
        Ok((out, tel))
    }

    /// Digest of the structure (not of the names): sizes, edges by index, scopes, flags.
    pub fn shape(&self) -> u64 {
        let mut d = Digest::new();
        d.u64(self.arts.len() as u64);
        for a in &self.arts {
            d.u64(a.parent.as_ref().and_then(|p| self.find_ref(p)).map_or(99, |x| x as u64));
            d.u64((a.omit_group as u64) | (a.omit_version as u64) << 1 | (a.is_pom_packaged() as u64) << 2);
            d.u64(a.managed.len() as u64);
            for m in &a.managed {
                d.u64(m.scope.map_or(9, |s| s.idx() as u64));
            }
            for r in &a.imports {
                d.u64(self.find_ref(r).map_or(99, |x| x as u64));
            }
            d.u64(a.deps.len() as u64);
            for x in &a.deps {
                d.u64(x.version.is_some() as u64 | (x.optional.map_or(2, |b| b as u64)) << 1 | (x.classifier.is_some() as u64) << 3 | (x.type_.is_some() as u64) << 4);
                d.u64(x.scope.map_or(9, |s| s.idx() as u64));
                d.u64(x.version.as_ref().and_then(|v| self.find(&x.group, &x.artifact, v)).map_or(99, |t| t as u64));
            }
        }
        for r in &self.repos {
            d.u64(r.serves.len() as u64);
            for s in &r.serves {
                d.u64(*s as u64);
            }
        }
        for r in &self.roots {
            d.u64(self.find(&r.group, &r.artifact, &r.version).map_or(99, |x| x as u64));
            d.u64(r.scope.idx() as u64);
        }
        d.0
    }

    pub fn count(&self) -> u64 {
        (self.arts.len() + self.repos.len() + self.roots.len() + self.arts.iter().map(|a| a.deps.len() + a.managed.len() + a.imports.len() + a.parent.is_some() as usize).sum::<usize>()) as u64
    }
}

/// `x-YYYYMMDD.HHMMSS-N` (a deployed snapshot): lives in the directory of `x-SNAPSHOT` (Maven repository layout).
pub fn is_timestamped_snapshot(v: &str) -> bool {
    base_version(v) != v
}
pub fn base_version(v: &str) -> String {
    let parts: Vec<&str> = v.split('-').collect();
    if parts.len() >= 3 {
        let n = parts[parts.len() - 1];
        let ts = parts[parts.len() - 2];
        let digits = |s: &str| !s.is_empty() && s.bytes().all(|b| b.is_ascii_digit());
        let ts_ok = ts.len() == 15 && digits(&ts[..8]) && &ts[8..9] == "." && digits(&ts[9..]);
        if digits(n) && ts_ok {
            return format!("{}-SNAPSHOT", parts[..parts.len() - 2].join("-"));
        }
    }
    v.to_string()
}

/// Where a repository keeps the POM of (group, artifact, version) (Maven 2 repository layout).
pub fn pom_url(repo_url: &str, g: &str, a: &str, v: &str) -> String {
    let mut s = String::with_capacity(repo_url.len() + g.len() + 2 * a.len() + 2 * v.len() + 12);
    s.push_str(repo_url);
    if !repo_url.ends_with('/') {
        s.push('/');
    }
    for c in g.chars() {
        s.push(if c == '.' { '/' } else { c });
    }
    s.push('/');
    s.push_str(a);
    s.push('/');
    s.push_str(&base_version(v));
    s.push('/');
    s.push_str(a);
    s.push('-');
    s.push_str(v);
    s.push_str(".pom");
    s
}

fn tag(out: &mut String, ind: &str, name: &str, val: &str) {
    out.push_str(ind);
    out.push('<');
    out.push_str(name);
    out.push('>');
    out.push_str(val);
    out.push_str("</");
    out.push_str(name);
    out.push_str(">\n");
}

/// The POM of artifact `i` as XML text.
pub fn pom_xml(u: &Universe, i: usize, model_version: &str) -> String {
    let a = &u.arts[i];
    let mut s = String::with_capacity(512);
    if u.xml_decl {
        s.push_str("<?xml version=\"1.0\" encoding=\"UTF-8\"?>\n<project xmlns=\"http://maven.apache.org/POM/4.0.0\" xmlns:xsi=\"http://www.w3.org/2001/XMLSchema-instance\" xsi:schemaLocation=\"http://maven.apache.org/POM/4.0.0 https://maven.apache.org/xsd/maven-4.0.0.xsd\">\n");
    } else {
        s.push_str("<project>\n");
    }
    tag(&mut s, "  ", "modelVersion", model_version);
    if let Some(p) = &a.parent {
        s.push_str("  <parent>\n");
        tag(&mut s, "    ", "groupId", &p.group);
        tag(&mut s, "    ", "artifactId", &p.artifact);
        tag(&mut s, "    ", "version", &p.version);
        s.push_str("  </parent>\n");
    }
    if !a.omit_group {
        tag(&mut s, "  ", "groupId", &a.group);
    }
    tag(&mut s, "  ", "artifactId", &a.artifact);
    if !a.omit_version {
        tag(&mut s, "  ", "version", &a.version);
    }
    if let Some(p) = &a.packaging {
        tag(&mut s, "  ", "packaging", p);
    }
    if !a.managed.is_empty() || !a.imports.is_empty() {
        s.push_str("  <dependencyManagement>\n    <dependencies>\n");
        for m in &a.managed {
            s.push_str("      <dependency>\n");
            tag(&mut s, "        ", "groupId", &m.group);
            tag(&mut s, "        ", "artifactId", &m.artifact);
            tag(&mut s, "        ", "version", &m.version);
            if let Some(t) = &m.type_ {
                tag(&mut s, "        ", "type", t);
            }
            if let Some(c) = &m.classifier {
                tag(&mut s, "        ", "classifier", c);
            }
            if let Some(sc) = m.scope {
                tag(&mut s, "        ", "scope", sc.name());
            }
            s.push_str("      </dependency>\n");
        }
        for r in &a.imports {
            s.push_str("      <dependency>\n");
            tag(&mut s, "        ", "groupId", &r.group);
            tag(&mut s, "        ", "artifactId", &r.artifact);
            tag(&mut s, "        ", "version", &r.version);
            tag(&mut s, "        ", "type", "pom");
            tag(&mut s, "        ", "scope", "import");
            s.push_str("      </dependency>\n");
        }
        s.push_str("    </dependencies>\n  </dependencyManagement>\n");
    }
    if !a.deps.is_empty() {
        s.push_str("  <dependencies>\n");
        for d in &a.deps {
            s.push_str("    <dependency>\n");
            tag(&mut s, "      ", "groupId", &d.group);
            tag(&mut s, "      ", "artifactId", &d.artifact);
            if let Some(v) = &d.version {
                tag(&mut s, "      ", "version", v);
            }
            if let Some(t) = &d.type_ {
                tag(&mut s, "      ", "type", t);
            }
            if let Some(c) = &d.classifier {
                tag(&mut s, "      ", "classifier", c);
            }
            if let Some(sc) = d.scope {
                tag(&mut s, "      ", "scope", sc.name());
            }
            if let Some(o) = d.optional {
                tag(&mut s, "      ", "optional", if o { "true" } else { "false" });
            }
            s.push_str("    </dependency>\n");
        }
        s.push_str("  </dependencies>\n");
    }
    s.push_str("</project>\n");
    s
}

// ---------------------------------------------------------------- shrinking helpers

impl Universe {
    /// Removes artifact `i` and everything that names it, keeping the rest well-formed.
    pub fn without_art(&self, i: usize) -> Universe {
        let mut u = self.clone();
        let gone = u.arts[i].as_ref();
        u.arts.remove(i);
        for a in &mut u.arts {
            if a.parent.as_ref() == Some(&gone) {
                // group and version are explicit fields of the model already; just stop omitting them
                a.parent = None;
                a.omit_group = false;
                a.omit_version = false;
            }
            a.imports.retain(|r| *r != gone);
            a.deps.retain(|d| !(d.group == gone.group && d.artifact == gone.artifact && d.version.as_deref() == Some(&gone.version)));
            a.managed.retain(|m| !(m.group == gone.group && m.artifact == gone.artifact && m.version == gone.version));
        }
        for r in &mut u.repos {
            r.serves.retain(|x| *x != i);
            for x in &mut r.serves {
                if *x > i {
                    *x -= 1;
                }
            }
        }
        u.roots.retain(|r| !(r.group == gone.group && r.artifact == gone.artifact && r.version == gone.version));
        u
    }

    pub fn without_repo(&self, r: usize) -> Universe {
        let mut u = self.clone();
        let gone = u.repos.remove(r);
        // keep every artifact served: what only the removed repository had moves to the first remaining one
        if let Some(first) = u.repos.first_mut() {
            for a in gone.serves {
                if !self.repos.iter().enumerate().any(|(k, o)| k != r && o.serves.contains(&a)) {
                    first.serves.push(a);
                }
            }
            first.serves.sort_unstable();
            first.serves.dedup();
        }
        u
    }
}
