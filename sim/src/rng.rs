//! The only source of randomness in the harness: SplitMix64 -> xoshiro256**.
//! Everything (workload, schedule, fault plan, buggify subset) is derived from VERIF_SEED through
//! labelled sub-streams, so that one integer is one execution.

#[derive(Clone, Debug)]
pub struct Rng {
    s: [u64; 4],
}

pub fn splitmix(x: &mut u64) -> u64 {
    *x = x.wrapping_add(0x9E37_79B9_7F4A_7C15);
    let mut z = *x;
    z = (z ^ (z >> 30)).wrapping_mul(0xBF58_476D_1CE4_E5B9);
    z = (z ^ (z >> 27)).wrapping_mul(0x94D0_49BB_1331_11EB);
    z ^ (z >> 31)
}

/// Mixes several integers into one seed (order sensitive).
pub fn mix(parts: &[u64]) -> u64 {
    let mut h: u64 = 0x243F_6A88_85A3_08D3;
    for p in parts {
        let mut x = h ^ p.wrapping_mul(0x9E37_79B9_7F4A_7C15);
        h = splitmix(&mut x);
    }
    h
}

pub fn label(s: &str) -> u64 {
    fnv(s.as_bytes())
}

pub fn fnv(b: &[u8]) -> u64 {
    let mut h: u64 = 0xcbf2_9ce4_8422_2325;
    for x in b {
        h ^= *x as u64;
        h = h.wrapping_mul(0x0000_0100_0000_01B3);
    }
    h
}

/// Incremental digest (FNV-1a over little-endian words); used for event logs and observations.
#[derive(Clone, Copy, Debug, PartialEq, Eq)]
pub struct Digest(pub u64);
impl Default for Digest {
    fn default() -> Self {
        Digest(0xcbf2_9ce4_8422_2325)
    }
}
impl Digest {
    pub fn new() -> Self {
        Self::default()
    }
    pub fn bytes(&mut self, b: &[u8]) {
        for x in b {
            self.0 ^= *x as u64;
            self.0 = self.0.wrapping_mul(0x0000_0100_0000_01B3);
        }
        // length terminator so that ("ab","c") != ("a","bc")
        self.u64(b.len() as u64 ^ 0xA5A5);
    }
    pub fn u64(&mut self, v: u64) {
        for x in v.to_le_bytes() {
            self.0 ^= x as u64;
            self.0 = self.0.wrapping_mul(0x0000_0100_0000_01B3);
        }
    }
    pub fn str(&mut self, s: &str) {
        self.bytes(s.as_bytes())
    }
}

impl Rng {
    pub fn new(seed: u64) -> Rng {
        let mut x = seed;
        let s = [splitmix(&mut x), splitmix(&mut x), splitmix(&mut x), splitmix(&mut x)];
        Rng { s }
    }
    /// An independent sub-stream; drawing from it does not advance `self`'s own stream beyond this one call.
    pub fn split(&mut self, lbl: &str) -> Rng {
        let a = self.next();
        Rng::new(mix(&[a, label(lbl)]))
    }
    pub fn next(&mut self) -> u64 {
        let r = self.s[1].wrapping_mul(5).rotate_left(7).wrapping_mul(9);
        let t = self.s[1] << 17;
        self.s[2] ^= self.s[0];
        self.s[3] ^= self.s[1];
        self.s[1] ^= self.s[2];
        self.s[0] ^= self.s[3];
        self.s[2] ^= t;
        self.s[3] = self.s[3].rotate_left(45);
        r
    }
    /// uniform in 0..n (n >= 1)
    pub fn below(&mut self, n: u64) -> u64 {
        if n <= 1 {
            return 0;
        }
        // multiply-shift; bias negligible for our n
        ((self.next() as u128 * n as u128) >> 64) as u64
    }
    pub fn usize(&mut self, n: usize) -> usize {
        self.below(n as u64) as usize
    }
    /// inclusive range
    pub fn range(&mut self, lo: u64, hi: u64) -> u64 {
        if hi <= lo {
            return lo;
        }
        lo + self.below(hi - lo + 1)
    }
    pub fn chance(&mut self, pct: u32) -> bool {
        self.below(100) < pct as u64
    }
    pub fn pick<'a, T>(&mut self, xs: &'a [T]) -> &'a T {
        &xs[self.usize(xs.len())]
    }
    pub fn shuffle<T>(&mut self, xs: &mut [T]) {
        for i in (1..xs.len()).rev() {
            let j = self.usize(i + 1);
            xs.swap(i, j);
        }
    }
}
