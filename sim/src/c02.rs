//! C02 - the class writer emits a well-formed file denoting exactly the given class.
//!
//! The tree under test is what duke's reader produced from a generated / corpus / stress class (trees
//! "reachable by reading"). It is written through a simulated sink; the accepted bytes are judged by the
//! independent parser: they must parse (structurally valid) and denote the projection of the tree, with
//! jump trampolines (`if<!c> +2; goto_w L` for `if<c> L`) folded on both sides. T1: short / interrupted writes
//! give byte-identical output. T2: a failing sink gives `Err` and a prefix, never `Ok` with an incomplete sink;
//! writing again to a healthy sink gives the plain bytes.

use crate::engine::*;
use crate::proj::project;
use crate::rng::{Digest, Rng};
use crate::simio::*;
use refclass::gen::gen_big_jump_method;
use refclass::sem::*;
use refclass::{JStr, Sem};
use serde::{Deserialize, Serialize};
use serde_json::json;
use std::io::Cursor;

pub struct C02;

#[derive(Clone, Debug, Serialize, Deserialize, PartialEq)]
#[serde(rename_all = "snake_case")]
pub enum Src {
    Gen { seed: u64, size: u8, features: u32, layout_seed: u64 },
    Corpus { idx: usize },
    /// refclass::gen::gen_big_jump_method, kind = index into BigJumpKind::ALL
    Big { seed: u64, kind: u8 },
    /// a conditional branch whose distance fits 16 bits in the input only because its `ldc`s are narrow there; the
    /// writer's own pool order makes them wide, so the branch no longer fits and needs a trampoline
    GrowLdc { m: u16, slack: i32, backward: bool, op: u8 },
    /// a method whose code is `65535 - slack` bytes in the input and GROWS when duke writes it (m strings that are
    /// narrow `ldc`s in the input's pool order and `ldc_w`s in the writer's first-use order): the written method ends
    /// just below, at or just above the 65535-byte limit - the writer has to refuse cleanly what no longer fits
    /// (missed seeded change C02-15: only where an instruction STARTS was still checked)
    GrowOverLimit { m: u16, slack: u16 },
    /// a generated class with ONE oddity the reader tolerates although the file is not well-formed: kind 0 = a
    /// LocalVariableTable range that starts one byte later (inside an instruction, if that one is longer than a byte),
    /// kind 1 = an exception handler whose range is empty (end_pc = start_pc). "Every class description the reader can
    /// produce" includes these trees. The writer may refuse them; if it writes, the output may be invalid only in the
    /// ways the input already was (missed seeded changes C02-16: a table the writer cannot express dropped but still
    /// counted; C02-17: an empty-range handler dropped, which shifts the handler indices type annotations carry)
    Odd { seed: u64, kind: u8 },
}

#[derive(Clone, Debug, Serialize, Deserialize)]
pub struct Plan {
    pub src: Src,
    pub write_io: IoPlan,
}

fn invert(op: u8) -> Option<u8> {
    Some(match op {
        153 => 154,
        154 => 153,
        155 => 156,
        156 => 155,
        157 => 158,
        158 => 157,
        159 => 160,
        160 => 159,
        161 => 162,
        162 => 161,
        163 => 164,
        164 => 163,
        165 => 166,
        166 => 165,
        198 => 199,
        199 => 198,
        _ => return None,
    })
}

/// every instruction index stored anywhere in a `Code`, visited mutably
pub fn for_each_index(c: &mut Code, f: &mut dyn FnMut(&mut usize)) {
    for i in c.insns.iter_mut() {
        match i {
            Insn::Branch(_, t) | Insn::Goto(t) | Insn::Jsr(t) => f(t),
            Insn::TableSwitch { default, targets, .. } => {
                f(default);
                targets.iter_mut().for_each(|t| f(t));
            }
            Insn::LookupSwitch { default, pairs } => {
                f(default);
                pairs.iter_mut().for_each(|p| f(&mut p.1));
            }
            _ => {}
        }
    }
    for e in c.exceptions.iter_mut() {
        f(&mut e.start);
        f(&mut e.end);
        f(&mut e.handler);
    }
    for l in c.line_numbers.iter_mut() {
        f(&mut l.at);
    }
    for l in c.local_vars.iter_mut().chain(c.local_var_types.iter_mut()) {
        f(&mut l.start);
        f(&mut l.end);
    }
    for fr in c.frames.iter_mut() {
        f(&mut fr.at);
        for v in fr.locals.iter_mut().chain(fr.stack.iter_mut()) {
            if let VType::Uninitialized(i) = v {
                f(i);
            }
        }
    }
    for ta in c.type_annotations.visible.iter_mut().chain(c.type_annotations.invisible.iter_mut()) {
        match &mut ta.target {
            Target::Offset { at, .. } | Target::TypeArgument { at, .. } => f(at),
            Target::LocalVar { table, .. } => {
                for r in table.iter_mut() {
                    f(&mut r.start);
                    f(&mut r.end);
                }
            }
            _ => {}
        }
    }
}

/// Folds `if<!c> (k+2); goto L` at (k, k+1) into `if<c> L` when nothing refers to instruction k+1. Returns the
/// number of folds. Applied to both sides of a comparison, so a class that natively contains the pattern is
/// treated alike on both sides.
pub fn fold_trampolines(c: &mut Code) -> u64 {
    let mut folds = 0;
    loop {
        // all referenced indices
        let mut refd = std::collections::BTreeSet::new();
        for_each_index(c, &mut |i| {
            refd.insert(*i);
        });
        let mut hit = None;
        for k in 0..c.insns.len().saturating_sub(1) {
            if let (Insn::Branch(op, t), Insn::Goto(l)) = (&c.insns[k], &c.insns[k + 1]) {
                if *t == k + 2 && !refd.contains(&(k + 1)) {
                    if let Some(inv) = invert(*op) {
                        hit = Some((k, inv, *l));
                        break;
                    }
                }
            }
        }
        let Some((k, inv, l)) = hit else { break };
        c.insns[k] = Insn::Branch(inv, l);
        c.insns.remove(k + 1);
        for_each_index(c, &mut |i| {
            if *i > k + 1 {
                *i -= 1;
            }
        });
        folds += 1;
    }
    folds
}

pub fn fold_all(s: &mut Sem) -> u64 {
    let mut n = 0;
    for m in s.methods.iter_mut() {
        if let Some(c) = &mut m.code {
            n += fold_trampolines(c);
        }
    }
    n
}

/// A class write that fails inside an attribute body, made on the calling thread (C07 / C13 / C14 make one before their
/// own class writes in some runs: what a failed write leaves behind on the thread must not show in the next one).
/// Returns true when the write failed as intended.
pub(crate) fn poison_write() -> bool {
    match poison_tree() {
        Some(t) => {
            let mut junk = Vec::new();
            matches!(no_panic(|| duke::write_class(&mut junk, t)), Ok(Err(_)))
        }
        None => false,
    }
}

/// A class the reader accepts and the writer refuses inside `Code`: `iconst_0; lookupswitch {5: L, 1: L, default: L}; L: return`
/// with the keys out of order. `None` when the reader refuses it.
pub(crate) fn poison_tree() -> Option<&'static duke::tree::class::ClassFile> {
    static POISON: std::sync::OnceLock<Option<duke::tree::class::ClassFile>> = std::sync::OnceLock::new();
    POISON
        .get_or_init(|| {
            fn u16b(v: &mut Vec<u8>, x: u16) {
                v.extend_from_slice(&x.to_be_bytes());
            }
            fn u32b(v: &mut Vec<u8>, x: u32) {
                v.extend_from_slice(&x.to_be_bytes());
            }
            fn utf8(v: &mut Vec<u8>, s: &str) {
                v.push(1);
                u16b(v, s.len() as u16);
                v.extend_from_slice(s.as_bytes());
            }
            let mut b = vec![0xCA, 0xFE, 0xBA, 0xBE, 0, 0, 0, 52];
            u16b(&mut b, 8); // constant_pool_count
            utf8(&mut b, "Poison"); // 1
            b.extend_from_slice(&[7, 0, 1]); // 2 Class #1
            utf8(&mut b, "java/lang/Object"); // 3
            b.extend_from_slice(&[7, 0, 3]); // 4 Class #3
            utf8(&mut b, "m"); // 5
            utf8(&mut b, "()V"); // 6
            utf8(&mut b, "Code"); // 7
            u16b(&mut b, 0x0021);
            u16b(&mut b, 2);
            u16b(&mut b, 4);
            u16b(&mut b, 0); // interfaces
            u16b(&mut b, 0); // fields
            u16b(&mut b, 1); // methods
            u16b(&mut b, 0x0009);
            u16b(&mut b, 5);
            u16b(&mut b, 6);
            u16b(&mut b, 1);
            let mut code = vec![0x03, 0xab, 0, 0];
            u32b(&mut code, 27); // default -> offset 28
            u32b(&mut code, 2);
            u32b(&mut code, 5);
            u32b(&mut code, 27);
            u32b(&mut code, 1);
            u32b(&mut code, 27);
            code.push(0xb1);
            let mut body = vec![];
            u16b(&mut body, 1);
            u16b(&mut body, 1);
            u32b(&mut body, code.len() as u32);
            body.extend_from_slice(&code);
            u16b(&mut body, 0);
            u16b(&mut body, 0);
            u16b(&mut b, 7);
            u32b(&mut b, body.len() as u32);
            b.extend_from_slice(&body);
            u16b(&mut b, 0); // class attributes
            no_panic(|| duke::read_class(&mut std::io::Cursor::new(b))).ok().and_then(|r| r.ok())
        })
        .as_ref()
}

fn cfg_of(size: u8, features: u32) -> refclass::GenCfg {
    let base = match size {
        0 => refclass::GenCfg::small(),
        1 => refclass::GenCfg::default(),
        _ => refclass::GenCfg::large(),
    };
    refclass::GenCfg { features, ..base }
}

fn grow_ldc(m: u16, slack: i32, backward: bool, op: u8) -> Option<Vec<u8>> {
    // K-phase: 140 distinct strings loaded first (in the writer's first-use pool order they take the low indices);
    // C-phase: m distinct strings loaded between the branch and its target. The input is encoded with the
    // reversed pool order, so there the C strings are narrow (`ldc`) and the K strings wide.
    let pop = Insn::Simple(refclass::op::POP);
    let mut v: Vec<Insn> = vec![];
    for i in 0..140 {
        v.push(Insn::Ldc(Const::String(JStr::from_str(&format!("k{i}")))));
        v.push(pop.clone());
    }
    let c_region = |v: &mut Vec<Insn>| {
        for i in 0..m {
            v.push(Insn::Ldc(Const::String(JStr::from_str(&format!("c{i}")))));
            v.push(Insn::Simple(refclass::op::POP));
        }
    };
    // distance in the input: each C pair is 3 bytes (ldc + pop) if narrow. filler makes the input distance
    // 32767 - slack (forward) / -(32768 - slack) (backward), so that growing by up to m bytes crosses the limit
    let c_bytes = 3 * m as i32;
    let iconst = Insn::Simple(3); // iconst_0 feeds the one-operand conditions; two for the two-operand ones
    let two = matches!(op, 159..=166);
    let push_operands = |v: &mut Vec<Insn>| {
        v.push(iconst.clone());
        if two {
            v.push(iconst.clone());
        }
    };
    if !backward {
        push_operands(&mut v);
        let br = v.len();
        v.push(Insn::Branch(op, 0));
        c_region(&mut v);
        let filler = 32767 - slack - 3 - c_bytes;
        if filler < 0 {
            return None;
        }
        for _ in 0..filler {
            v.push(Insn::Simple(0));
        }
        let tgt = v.len();
        v.push(Insn::Simple(refclass::op::RETURN));
        v[br] = Insn::Branch(op, tgt);
    } else {
        let tgt = v.len();
        c_region(&mut v);
        let operands = if two { 2 } else { 1 };
        let filler = 32768 - slack - c_bytes - operands;
        if filler < 0 {
            return None;
        }
        for _ in 0..filler {
            v.push(Insn::Simple(0));
        }
        push_operands(&mut v);
        v.push(Insn::Branch(op, tgt));
        v.push(Insn::Simple(refclass::op::RETURN));
    }
    let code = Code { max_stack: 4, max_locals: 1, insns: v, ..Code::default() };
    let sem = Sem {
        major: 50,
        minor: 0,
        access: 0x0021,
        this_class: JStr::from_str("GrowLdc"),
        super_class: Some(JStr::from_str("java/lang/Object")),
        methods: vec![Method { access: 0x0009, name: JStr::from_str("m"), desc: JStr::from_str("()V"), code: Some(code), ..Method::default() }],
        ..Sem::default()
    };
    let layout = refclass::Layout { cp_order: refclass::enc::CpOrder::Reversed, ..refclass::Layout::default() };
    match refclass::encode(&sem, &layout) {
        Ok(e) => Some(e.bytes),
        Err(e) => {
            if std::env::var("C02_DEBUG").is_ok() {
                eprintln!("debug grow_ldc: encode: {e}");
            }
            None
        }
    }
}

fn grow_over_limit(m: u16, slack: u16) -> Option<Vec<u8>> {
    let build = |filler: usize| -> Option<refclass::Encoded> {
        let pop = Insn::Simple(refclass::op::POP);
        let mut v: Vec<Insn> = vec![];
        for i in 0..140 {
            v.push(Insn::Ldc(Const::String(JStr::from_str(&format!("k{i}")))));
            v.push(pop.clone());
        }
        for i in 0..m {
            v.push(Insn::Ldc(Const::String(JStr::from_str(&format!("c{i}")))));
            v.push(pop.clone());
        }
        for _ in 0..filler {
            v.push(Insn::Simple(0));
        }
        v.push(Insn::Simple(refclass::op::RETURN));
        let code = Code { max_stack: 4, max_locals: 1, insns: v, ..Code::default() };
        let sem = Sem {
            major: 50,
            minor: 0,
            access: 0x0021,
            this_class: JStr::from_str("GrowOverLimit"),
            super_class: Some(JStr::from_str("java/lang/Object")),
            methods: vec![Method { access: 0x0009, name: JStr::from_str("m"), desc: JStr::from_str("()V"), code: Some(code), ..Method::default() }],
            ..Sem::default()
        };
        let layout = refclass::Layout { cp_order: refclass::enc::CpOrder::Reversed, ..refclass::Layout::default() };
        refclass::encode(&sem, &layout).ok()
    };
    // the code length without filler, read off the offset map; every filler nop adds one byte
    let e0 = build(0)?;
    let span = e0.map.iter().find(|s| s.path.ends_with("code_length"))?;
    let l0 = u32::from_be_bytes(e0.bytes[span.start..span.start + 4].try_into().ok()?) as usize;
    let want = 65_535usize.checked_sub(slack as usize)?;
    let filler = want.checked_sub(l0)?;
    build(filler).map(|e| e.bytes)
}

fn odd_class(seed: u64, kind: u8) -> Option<Vec<u8>> {
    use refclass::gen::feat;
    let cfg = refclass::GenCfg { features: feat::CODE | feat::DEBUG_TABLES | feat::EXCEPTION_TABLE | feat::TYPE_ANNOTATIONS | feat::ANNOTATIONS | feat::SWITCHES, max_members: 3, max_insns: 30, ..refclass::GenCfg::default() };
    let sem = refclass::gen_class(&mut Rng::new(seed), &cfg);
    let enc = refclass::encode(&sem, &refclass::Layout::default()).ok()?;
    let mut b = enc.bytes.clone();
    let mut r = Rng::new(seed ^ 0x0DD);
    let rd = |b: &[u8], at: usize| u16::from_be_bytes([b[at], b[at + 1]]);
    let wr = |b: &mut [u8], at: usize, v: u16| b[at..at + 2].copy_from_slice(&v.to_be_bytes());
    if kind % 2 == 0 {
        // (start_pc, length) pairs of LocalVariableTable entries with length >= 1
        let c: Vec<(usize, usize)> = enc.map.windows(2).filter(|w| w[0].path.contains("LocalVariableTable") && w[0].path.ends_with("start_pc") && w[1].path.ends_with("length") && rd(&b, w[1].start) >= 1).map(|w| (w[0].start, w[1].start)).collect();
        if c.is_empty() {
            return None;
        }
        let (s_at, l_at) = *r.pick(&c);
        let (sv, lv) = (rd(&b, s_at), rd(&b, l_at));
        wr(&mut b, s_at, sv + 1);
        wr(&mut b, l_at, lv - 1);
    } else {
        let c: Vec<(usize, usize)> = enc.map.windows(2).filter(|w| w[0].path.contains("exception_table") && w[0].path.ends_with("start_pc") && w[1].path.ends_with("end_pc")).map(|w| (w[0].start, w[1].start)).collect();
        if c.is_empty() {
            return None;
        }
        let (s_at, e_at) = *r.pick(&c);
        let sv = rd(&b, s_at);
        wr(&mut b, e_at, sv);
    }
    Some(b)
}

fn validity_prefixes(bytes: &[u8]) -> std::collections::BTreeSet<String> {
    match refclass::validate(bytes) {
        Ok(()) => Default::default(),
        Err(v) => v.iter().map(|m| refclass::validate::prefix(m).to_string()).collect(),
    }
}

fn input_bytes(src: &Src) -> Option<Vec<u8>> {
    match src {
        Src::Corpus { idx } => {
            let c = crate::corpus::corpus();
            Some(c[*idx % c.len()].1.clone())
        }
        Src::Gen { seed, size, features, layout_seed } => {
            let mut r = Rng::new(*seed);
            let cfg = cfg_of(*size, *features);
            for _ in 0..6 {
                let sem = refclass::gen_class(&mut r, &cfg);
                let layout = if *layout_seed == 0 { refclass::Layout::default() } else { refclass::gen_layout(&mut Rng::new(*layout_seed)) };
                if let Ok(e) = refclass::encode(&sem, &layout) {
                    return Some(e.bytes);
                }
            }
            None
        }
        Src::Big { seed, kind } => {
            let mut r = Rng::new(*seed);
            let k = refclass::gen::BigJumpKind::ALL[*kind as usize % refclass::gen::BigJumpKind::ALL.len()];
            let bj = gen_big_jump_method(&mut r, k);
            refclass::encode(&bj.sem, &refclass::Layout::default()).ok().map(|e| e.bytes)
        }
        Src::GrowLdc { m, slack, backward, op } => grow_ldc(*m, *slack, *backward, *op),
        Src::GrowOverLimit { m, slack } => grow_over_limit(*m, *slack),
        Src::Odd { seed, kind } => odd_class(*seed, *kind),
    }
}

fn is_prefix(a: &[u8], b: &[u8]) -> bool {
    a.len() <= b.len() && &b[..a.len()] == a
}

impl Engine for C02 {
    type Plan = Plan;
    fn id(&self) -> &'static str {
        "C02"
    }
    fn runs(&self, tier: Tier) -> u64 {
        match tier {
            Tier::Quick => 50_000,
            Tier::Thorough => 400_000,
        }
    }
    fn gen(&self, rng: &mut Rng, tier: Tier, _run: u64) -> Plan {
        let mut w = rng.split("workload");
        let mut s = rng.split("schedule");
        let mut f = rng.split("faults");
        let ncorpus = crate::corpus::corpus().len();
        let src = match w.below(100) {
            0..=24 => Src::Corpus { idx: w.usize(ncorpus) },
            25..=27 => Src::Big { seed: w.next(), kind: w.below(10) as u8 },
            28..=29 => {
                let m = w.range(1, 50) as u16;
                // slack in -2..=m+2: on both sides of "the grown distance just fits / just does not fit"
                Src::GrowLdc { m, slack: w.range(0, m as u64 + 4) as i32 - 2, backward: w.chance(40), op: *w.pick(&[153u8, 154, 155, 158, 159, 160, 162, 165, 166, 198, 199]) }
            }
            31..=35 => Src::Odd { seed: w.next(), kind: w.below(2) as u8 },
            30 => Src::GrowOverLimit { m: w.range(100, 200) as u16, slack: w.below(14) as u16 },
            _ => {
                let size = match w.below(20) {
                    0 if tier == Tier::Thorough => 2,
                    0..=5 => 1,
                    _ => 0,
                };
                let features = match w.below(4) {
                    0 => refclass::gen::feat::ALL,
                    1 => refclass::gen::feat::ALL & !refclass::gen::feat::UNICODE,
                    _ => (w.next() as u32 | refclass::gen::feat::CODE) & refclass::gen::feat::ALL & !refclass::gen::feat::UNICODE,
                };
                Src::Gen { seed: w.next(), size, features, layout_seed: if w.chance(30) { 0 } else { w.next() | 1 } }
            }
        };
        let mut io = IoPlan::plain();
        if s.below(10) >= 4 {
            io = IoPlan::gen_legal(&mut s);
        }
        if f.chance(35) {
            // positions are per mille of the plain output (known only at run time)
            let pm = f.below(1001);
            let fault = match f.below(6) {
                0..=2 => Fault::Enospc { after_bytes: if f.chance(15) { f.below(12) } else { 1_000_000 + pm } },
                3 => Fault::WriteEio { at_call: f.below(400) as u32, sticky: f.chance(70) },
                4 => Fault::WriteZero { at_call: f.below(300) as u32 },
                _ => Fault::FlushErr,
            };
            io.faults.push(fault);
        }
        Plan { src, write_io: io }
    }

    fn exec(&self, p: &Plan, st: &mut RunStats) -> Vec<Violation> {
        let mut out = vec![];
        let mut obs = Digest::new();
        let Some(bytes) = input_bytes(&p.src) else {
            st.probe("input_not_encodable");
            if std::env::var("C02_DEBUG").is_ok() {
                eprintln!("debug {:?}: not encodable", p.src);
            }
            return out;
        };
        st.shape = crate::rng::mix(&[crate::rng::fnv(&bytes), bytes.len() as u64]);
        let tree = match no_panic(|| duke::read_class(&mut Cursor::new(&bytes))) {
            Ok(Ok(t)) => t,
            Ok(Err(e)) => {
                st.probe("input_refused_by_reader");
                if std::env::var("C02_DEBUG").is_ok() {
                    eprintln!("debug {:?}: reader refused: {e:#}", p.src);
                }
                return out;
            }
            Err(pm) => {
                out.push(Violation::new("T0", "panic", format!("read:{}", panic_path(&pm)), pm));
                return out;
            }
        };
        if let Src::Odd { kind, .. } = &p.src {
            // a tree from a file that is not well-formed in one tolerated way: refuse cleanly, or write something that is
            // invalid only in the ways the input already was
            st.probe("odd_input");
            st.tier("T0");
            let before = validity_prefixes(&bytes);
            let mut w = Vec::new();
            match no_panic(|| duke::write_class(&mut w, &tree)) {
                Err(pm) => out.push(Violation::new("T0", "panic", format!("write:{}", panic_path(&pm)), pm)),
                Ok(Err(_)) => st.probe("odd_input.write_refused"),
                Ok(Ok(())) => {
                    st.probe("odd_input.written");
                    let after = validity_prefixes(&w);
                    let new: Vec<&String> = after.iter().filter(|x| !before.contains(*x)).collect();
                    if !new.is_empty() {
                        out.push(Violation::new("T0", "invalid-output", format!("written-odd-input.{}", new[0]), format!("input (oddity {}) is invalid in {:?}; the written class additionally in {:?}", kind % 2, before, new)));
                    }
                }
            }
            st.obs = obs;
            return out;
        }
        let mut want = match project(&tree) {
            Ok(s) => s,
            Err(_) => {
                st.probe("tree_not_projectable");
                return out;
            }
        };
        match &p.src {
            Src::Big { kind, .. } => st.probe(match kind % 10 {
                0 => "big.forward_goto",
                1 => "big.forward_cond",
                2 => "big.backward_goto",
                3 => "big.backward_cond",
                4 => "big.chain_goto",
                5 => "big.chain_cond",
                6 => "big.switch_far",
                7 => "big.many_constants",
                8 => "big.big_locals",
                _ => "big.near_limit",
            }),
            Src::GrowLdc { .. } => st.probe("grow_ldc"),
            Src::GrowOverLimit { .. } => st.probe("grow_over_limit"),
            Src::Odd { .. } => st.probe("odd_input"),
            Src::Corpus { .. } => st.probe("corpus"),
            Src::Gen { .. } => st.probe("generated"),
        }
        // ---------------- T0
        st.tier("T0");
        let mut t0 = Vec::new();
        match no_panic(|| duke::write_class(&mut t0, &tree)) {
            Err(pm) => {
                out.push(Violation::new("T0", "panic", format!("write:{}", panic_path(&pm)), pm));
                return out;
            }
            Ok(Err(e)) => {
                // the property allows a clean failure; it is counted, and shown, never flagged
                st.probe("write_err_clean");
                if std::env::var("C02_DEBUG").is_ok() {
                    eprintln!("debug {:?}: write_class Err: {e:#}", p.src);
                }
                obs.str(&format!("{e:#}").chars().take(60).collect::<String>());
                st.obs = obs;
                return out;
            }
            Ok(Ok(())) => {}
        }
        obs.bytes(&t0);
        st.probe("write_ok");
        if std::env::var("C02_DEBUG").is_ok() {
            let count = |b: &[u8], op: u8| b.iter().filter(|x| **x == op).count();
            eprintln!("debug {:?}: input {} bytes (0x12 x{}, 0x13 x{}), output {} bytes (0x12 x{}, 0x13 x{}, 0xc8 x{})", p.src, bytes.len(), count(&bytes, 0x12), count(&bytes, 0x13), t0.len(), count(&t0, 0x12), count(&t0, 0x13), count(&t0, 0xc8));
        }
        match refclass::parse(&t0) {
            Err(e) => out.push(Violation::new("T0", "invalid-output", format!("written.{}", refclass::validate::prefix(&e.what)), format!("the written class does not parse: {} at byte {}", e.what, e.offset))),
            Ok(mut got) => {
                let f_got = fold_all(&mut got);
                let f_want = fold_all(&mut want);
                if f_got > f_want {
                    st.probe("trampoline_written");
                }
                if let Some(path) = want.diff(&got) {
                    out.push(Violation::new("T0", "semantic-mismatch", format!("written.{path}"), format!("tree and written class differ at {path} (trampolines folded: tree {f_want}, written {f_got})")));
                }
                // widened jumps: the written code is longer than the input's
                if got.methods.iter().zip(want.methods.iter()).any(|(a, b)| a.code.as_ref().map(|c| c.insns.len()) != b.code.as_ref().map(|c| c.insns.len())) {
                    st.probe("instruction_count_changed");
                }
            }
        }
        // determinism in-process
        let mut again = Vec::new();
        if let Ok(Ok(())) = no_panic(|| duke::write_class(&mut again, &tree)) {
            if again != t0 {
                out.push(Violation::new("T0", "nondeterministic-output", "second-write", "two writes of one tree differ"));
            }
        }
        // history independence on one thread: a write that FAILS inside an attribute body (the reader accepts a
        // lookupswitch whose keys are not sorted, the writer refuses it) must leave nothing behind that changes the next
        // write (missed seeded change C02-7: a pooled attribute buffer that is only cleared on success)
        match poison_tree() {
            Some(poison) => {
                let mut junk = Vec::new();
                match no_panic(|| duke::write_class(&mut junk, poison)) {
                    Ok(Err(_)) => {
                        st.probe("poison_write_failed_in_attribute_body");
                        let mut after = Vec::new();
                        match no_panic(|| duke::write_class(&mut after, &tree)) {
                            Ok(Ok(())) if after == t0 => {}
                            Ok(Ok(())) => out.push(Violation::new("T0", "residue-after-heal", "write-after-failed-write", format!("the same tree written after a write that failed inside an attribute body differs ({} vs {} bytes)", after.len(), t0.len()))),
                            Ok(Err(e)) => out.push(Violation::new("T0", "residue-after-heal", "write-after-failed-write.result", format!("{e:#}"))),
                            Err(pm) => out.push(Violation::new("T0", "panic", format!("write-after-failed-write:{}", panic_path(&pm)), pm)),
                        }
                    }
                    Ok(Ok(())) => st.probe("poison_write_succeeded"),
                    Err(pm) => out.push(Violation::new("T0", "panic", format!("poison-write:{}", panic_path(&pm)), pm)),
                }
            }
            None => st.probe("poison_unavailable"),
        }
        if t0.len() > bytes.len() {
            st.probe("output_longer_than_input");
        }
        // ---------------- the simulated sink
        if !p.write_io.is_plain() {
            let mut io = p.write_io.clone();
            for f in io.faults.iter_mut() {
                if let Fault::Enospc { after_bytes } = f {
                    if *after_bytes >= 1_000_000 {
                        *after_bytes = (*after_bytes - 1_000_000).min(1000) * t0.len() as u64 / 1000;
                    }
                }
            }
            let legal = io.legal_only();
            let tier = if legal { "T1" } else { "T2" };
            st.tier(if legal { "T1" } else { "T2" });
            let mut sink = SimWriter::new(&io);
            let res = no_panic(|| duke::write_class(&mut sink, &tree));
            st.io(&sink.stats, sink.log);
            let acc = sink.accepted();
            obs.u64(acc.len() as u64);
            match res {
                Err(pm) => out.push(Violation::new(tier, "panic", format!("write:{}", panic_path(&pm)), pm)),
                Ok(Ok(())) => {
                    if acc != &t0[..] {
                        if legal {
                            out.push(Violation::new("T1", "schedule-dependence", "write.sink", format!("sink holds {} bytes, plain write gives {}", acc.len(), t0.len())));
                        } else {
                            out.push(Violation::new("T2", "writer-ok-with-incomplete-sink", "sink.len", format!("write_class returned Ok(()) but the sink holds {} of {} bytes (faults fired: {:?})", acc.len(), t0.len(), sink.stats.fired)));
                        }
                    }
                    if !legal {
                        st.probe("write_ok_despite_fault_plan");
                    }
                }
                Ok(Err(e)) => {
                    if legal {
                        out.push(Violation::new("T1", "schedule-dependence", "write.result", format!("legal short/interrupted writes made write_class fail: {e:#}")));
                    } else {
                        st.probe("write_err_under_fault");
                        if !is_prefix(acc, &t0) {
                            out.push(Violation::new("T2", "writer-err-with-nonprefix-sink", "sink", format!("{} bytes accepted, not a prefix of the plain output", acc.len())));
                        }
                    }
                }
            }
            if !legal {
                let mut healed = Vec::new();
                if let Ok(Ok(())) = no_panic(|| duke::write_class(&mut healed, &tree)) {
                    if healed != t0 {
                        out.push(Violation::new("T2", "residue-after-heal", "write", "a write after the failed one differs from the plain output"));
                    }
                }
            }
        }
        st.obs = obs;
        out
    }

    fn shrink(&self, p: &Plan) -> Vec<Plan> {
        let mut c = vec![];
        for io in shrink_io(&p.write_io) {
            c.push(Plan { src: p.src.clone(), write_io: io });
        }
        if let Src::Gen { seed, size, features, layout_seed } = &p.src {
            if *layout_seed != 0 {
                c.push(Plan { src: Src::Gen { seed: *seed, size: *size, features: *features, layout_seed: 0 }, write_io: p.write_io.clone() });
            }
            if *size > 0 {
                c.push(Plan { src: Src::Gen { seed: *seed, size: size - 1, features: *features, layout_seed: *layout_seed }, write_io: p.write_io.clone() });
            }
            for bit in 0..20 {
                if features & (1 << bit) != 0 {
                    c.push(Plan { src: Src::Gen { seed: *seed, size: *size, features: features & !(1 << bit), layout_seed: *layout_seed }, write_io: p.write_io.clone() });
                }
            }
        }
        if let Src::GrowLdc { m, slack, backward, op } = &p.src {
            if *m > 1 {
                c.push(Plan { src: Src::GrowLdc { m: m / 2, slack: (*slack).min(*m as i32 / 2), backward: *backward, op: *op }, write_io: p.write_io.clone() });
                c.push(Plan { src: Src::GrowLdc { m: m - 1, slack: *slack, backward: *backward, op: *op }, write_io: p.write_io.clone() });
            }
            if *op != 153 {
                c.push(Plan { src: Src::GrowLdc { m: *m, slack: *slack, backward: *backward, op: 153 }, write_io: p.write_io.clone() });
            }
        }
        c
    }
    fn size(&self, p: &Plan) -> (u64, u64) {
        (1, p.write_io.faults.len() as u64)
    }
    fn rule(&self) -> String {
        "one run = one class tree obtained by reading a generated class (drawn features, size and encoder layout), a corpus class, a big-jump stress class (forward/backward goto and conditional jumps at +-32766..32770, chains, far switches at every padding, > 255 constants, locals 255/256/65535, code_length 65533..65535) or a grow-ldc class (a conditional jump that fits 16 bits only while its ldc's are narrow) x one writer schedule (chunk ceiling, short %, EINTR %) x 0-1 sink fault (ENOSPC at a drawn fraction of the output or in the first bytes, EIO at call n, Ok(0), flush error); non-trivial = a short transfer, EINTR or fault fired; distinct by (input digest, I/O event-log digest)".into()
    }
    fn assumptions(&self) -> Vec<String> {
        vec![
            "the class description is duke's own tree of a readable class; it is compared through proj.rs with the independent parse of what the writer produced".into(),
            "a clean Err from write_class is allowed by the property and is counted (write_err_clean), not flagged".into(),
            "an inverted-condition trampoline (if<!c> over a goto to L) is folded into if<c> L on both sides before comparing, when nothing refers to the goto".into(),
            "classes the reader refuses or the projection cannot express are skipped (counted)".into(),
            "harness profile: opt-level 2 with overflow checks and debug assertions".into(),
        ]
    }
    fn real_and_stub(&self) -> serde_json::Value {
        json!({"real": ["duke::write_class (simple_class_writer, pool, labels)", "duke::read_class (to obtain the tree)", "std write_all"], "stub": ["byte sink (SimWriter)"], "reference": ["refclass::parse / validate prefixes (independent parser)", "proj::project", "refclass encoder + generators for inputs"]})
    }
    fn expected_probes(&self) -> Vec<&'static str> {
        vec!["write_ok", "poison_write_failed_in_attribute_body", "corpus", "generated", "grow_ldc", "big.forward_goto", "big.forward_cond", "big.backward_goto", "big.backward_cond", "big.chain_goto", "big.switch_far", "big.many_constants", "big.big_locals", "big.near_limit", "trampoline_written", "write_err_under_fault", "io.short_transfers", "io.eintr"]
    }
}
