//! C14 workload generator: a jar of small classes, a nests table over it, a matching two-namespace mapping set,
//! I/O schedules and faults. Everything drawn here ends up explicit in the plan.

use crate::c14_jar::*;
use crate::engine::Tier;
use crate::refmap::{mkey, ClassM, MapSet, MemberM, ParamM};
use crate::refnest::*;
use crate::rng::Rng;
use crate::simio::{Fault, IoPlan};
use crate::simjar::EntryData;
use refclass::gen::feat;
use serde::{Deserialize, Serialize};
use std::collections::{BTreeMap, BTreeSet};

#[derive(Clone, Serialize, Deserialize)]
pub struct Plan {
    pub classes: Vec<ClassPlan>,
    pub others: Vec<(String, EntryData)>,
    /// 0 = classes then others, else shuffle seed
    pub entry_order: u64,
    pub deflate: bool,
    pub nests: Vec<NestM>,
    /// Some: the table reaches the code as text through `Nests::read`; None: built in memory
    pub via_text: Option<TextStyle>,
    /// Eof / Flip on the table text (T2 of the table reader)
    #[serde(default)]
    pub text_faults: Vec<Fault>,
    pub m: MapSet,
    /// insertion order of the mapping set (0 = model order)
    pub map_order: u64,
    pub jar_io: IoPlan,
    /// Some: the same jar is also offered as a `LazyJar` (entry-level seam: an entry operation fails once, or from
    /// some point on)
    #[serde(default)]
    pub lazy: Option<crate::simjar::LazyPlan>,
}

const PKGS: [&str; 6] = ["", "a/", "net/x/", "p/q/r/", "ü/", "a/"];
const SIMPLE: [&str; 16] = ["Foo", "Bar", "Baz", "C_12", "C_7", "A", "b", "Outer", "Thing", "Qux", "Выход", "名", "Foo__Bar", "Outer$Pre", "x1", "Z9"];
const CUSTOM: [&str; 6] = ["Builder", "Entry", "Itr", "Node", "In__ner", "Kind$X"];
const ACCESS: [u16; 8] = [0, 0x0008, 0x0009, 0x000A, 0x0608, 0x4018, 0x1000, 0x2609];

fn fresh_name(r: &mut Rng, used: &mut BTreeSet<String>) -> String {
    loop {
        let mut n = format!("{}{}", r.pick(&PKGS), r.pick(&SIMPLE));
        if r.chance(30) || used.contains(&n) {
            n.push_str(&r.below(100).to_string());
        }
        // now and then a character that modified UTF-8 (class files) and UTF-8 (tables, mappings) spell differently
        // (missed seeded change C14-15: old names searched in the class bytes in their UTF-8 spelling)
        if r.chance(6) && !simple_of(&n).starts_with("C_") {
            n.push_str(*r.pick(&["\u{e9}", "\u{20ac}", "\u{1d538}", "\u{1f600}"]));
        }
        if used.insert(n.clone()) {
            return n;
        }
    }
}

pub fn simple_of(c: &str) -> &str {
    c.rsplit_once('/').map_or(c, |x| x.1)
}

/// declared methods (name, desc) of a class plan that can be named in a table
fn methods_of(p: &ClassPlan) -> Vec<(String, String)> {
    build_class(p).methods.iter().filter_map(|m| Some((m.name.to_str()?, m.desc.to_str()?))).filter(|(n, d)| crate::refmap::valid_method_name(n) && !n.contains(['\t', '\n', '\r']) && !d.contains(['\t', '\n', '\r']) && !n.is_empty()).collect()
}

pub fn gen_plan(rng: &mut Rng, tier: Tier) -> Plan {
    let mut w = rng.split("workload");
    let mut s = rng.split("schedule");
    let mut f = rng.split("faults");
    let big = tier == Tier::Thorough && w.chance(20);

    // ---- swarm switches
    let clean = w.chance(60); // no feature whose content duke is known to lose
    let all_apply = w.chance(50);
    let corner_created_listed = !all_apply && w.chance(8);
    let missing_dst = w.chance(3);
    let tame_run = w.chance(88);

    // ---- class names
    let mut used = BTreeSet::new();
    let n_classes = if w.chance(10) { 1 } else { w.range(2, if big { 14 } else { 8 }) as usize };
    let names: Vec<String> = (0..n_classes).map(|_| fresh_name(&mut w, &mut used)).collect();
    let absent: Vec<String> = (0..w.below(4)).map(|_| fresh_name(&mut w, &mut used)).collect();

    let base_feat = if clean {
        feat::ALL & !(feat::FRAMES | feat::DEBUG_TABLES | feat::UNKNOWN_ATTRS | feat::RECORD | feat::MODULE | feat::SIGNATURES)
    } else {
        feat::ALL & !feat::MODULE & if w.chance(70) { !feat::SIGNATURES } else { !0 }
    };
    let mut classes: Vec<ClassPlan> = names
        .iter()
        .map(|n| {
            let mut features = base_feat;
            // swarm: every class switches some families off
            for bit in 0..20 {
                if w.chance(25) {
                    features &= !(1u32 << bit);
                }
            }
            ClassPlan {
                name: n.clone(),
                seed: w.next(),
                features,
                max_members: w.below(4) as u8,
                max_insns: *w.pick(&[4u16, 8, 16, 40]),
                layout: if w.chance(50) { 0 } else { w.next() | 1 },
                drop_fields: vec![],
                drop_methods: vec![],
                bare: false,
                no_param_annotations: clean,
                tame: tame_run,
                decl_methods: vec![],
                edits: vec![],
            }
        })
        .collect();

    // ---- the nests table: chains over the jar's classes
    let mut nests: Vec<NestM> = vec![];
    let mut nested: BTreeSet<usize> = BTreeSet::new();
    let mut direct_only = false;
    let n_chains = if n_classes == 1 { 1 } else { w.range(1, 3) };
    let mut decl_counter = 0;
    for _ in 0..n_chains {
        let len = w.range(1, 4) as usize;
        let free: Vec<usize> = (0..n_classes).filter(|i| !nested.contains(i)).collect();
        if free.is_empty() {
            break;
        }
        // the root enclosing class: in the jar, or missing from it
        let missing_root = !absent.is_empty() && w.chance(25);
        let mut encl: String;
        let mut encl_idx: Option<usize>;
        let mut pool: Vec<usize> = free.clone();
        w.shuffle(&mut pool);
        if missing_root || pool.len() == 1 {
            if absent.is_empty() {
                encl = fresh_name(&mut w, &mut used);
            } else {
                encl = w.pick(&absent).clone();
            }
            encl_idx = None;
        } else {
            let e = pool.pop().unwrap();
            encl = names[e].clone();
            encl_idx = Some(e);
        }
        for _ in 0..len {
            let Some(c) = pool.pop() else { break };
            nested.insert(c);
            let class = names[c].clone();
            let violate = !all_apply && w.chance(25);
            let mut kind = *w.pick(&[Kind::Inner, Kind::Inner, Kind::Anonymous, Kind::Local]);
            if encl_idx.is_none() && kind == Kind::Local && (all_apply || !violate) {
                kind = Kind::Inner; // a local class needs a method of a class that is in the jar
            }
            let derived = w.chance(50);
            let base = if derived { simple_of(&class).to_string() } else { w.pick(&CUSTOM).to_string() };
            let mut inner = match kind {
                Kind::Inner => {
                    if base.chars().next().is_some_and(|c| c.is_ascii_digit()) {
                        format!("I{base}")
                    } else {
                        base
                    }
                }
                Kind::Anonymous => {
                    if w.chance(10) {
                        format!("00{}", w.range(1, 9))
                    } else {
                        w.range(1, 40).to_string()
                    }
                }
                Kind::Local => format!("{}{}", w.range(1, 12), if base.chars().next().is_some_and(|c| c.is_ascii_digit()) { format!("L{base}") } else { base }),
            };
            // enclosing method
            let existing = |classes: &mut Vec<ClassPlan>, w: &mut Rng, decl_counter: &mut u32, class: &str| -> Option<(String, String)> {
                let e = encl_idx?;
                let have = methods_of(&classes[e]);
                if !have.is_empty() && w.chance(40) {
                    return Some(w.pick(&have).clone());
                }
                *decl_counter += 1;
                let d = match w.below(3) {
                    0 => "()V".to_string(),
                    1 => format!("(L{class};I)V"),
                    _ => format!("([L{class};)L{};", names[w.usize(names.len())]),
                };
                let m = (format!("m{decl_counter}"), d);
                classes[e].decl_methods.push(m.clone());
                Some(m)
            };
            // a method the enclosing class does not declare: an unknown name, or (half of the time, when possible) the name
            // of a declared method with another descriptor - an overload that is not there
            let phantom = |classes: &Vec<ClassPlan>, w: &mut Rng| -> Option<(String, String)> {
                if let Some(e) = encl_idx {
                    let have = methods_of(&classes[e]);
                    if !have.is_empty() && w.chance(50) {
                        let (n, d) = w.pick(&have).clone();
                        let other = if d == "(J)V" { "(JJ)V" } else { "(J)V" };
                        if !have.iter().any(|(hn, hd)| hn == &n && hd == other) {
                            return Some((n, other.to_string()));
                        }
                    }
                }
                Some((format!("nope{}", w.below(10)), "()V".to_string()))
            };
            let mut method = match kind {
                Kind::Inner => {
                    if w.chance(12) {
                        phantom(&classes, &mut w) // named, but the enclosing class does not declare it
                    } else {
                        None
                    }
                }
                Kind::Local => existing(&mut classes, &mut w, &mut decl_counter, &class),
                Kind::Anonymous => match w.below(10) {
                    0..=4 => None,
                    5..=7 => existing(&mut classes, &mut w, &mut decl_counter, &class),
                    _ => phantom(&classes, &mut w),
                },
            };
            if violate {
                match kind {
                    Kind::Anonymous => {
                        if w.chance(50) {
                            inner = if w.chance(50) { "0".into() } else { "000".into() };
                        } else {
                            inner = w.pick(&["x1", "Anon", "1a"]).to_string();
                            direct_only = true;
                        }
                    }
                    Kind::Inner => {
                        method = existing(&mut classes, &mut w, &mut decl_counter, &class);
                    }
                    Kind::Local => {
                        method = if w.chance(50) { None } else { phantom(&classes, &mut w) };
                    }
                }
            }
            nests.push(NestM { kind, class: class.clone(), encl: encl.clone(), method, inner, access: *w.pick(&ACCESS) });
            encl = class;
            encl_idx = Some(c);
        }
    }
    // nests for classes that are not in the jar
    if !all_apply || w.chance(20) {
        for a in &absent {
            if w.chance(50) {
                let used_as_encl = nests.iter().any(|n| &n.encl == a);
                if used_as_encl && !corner_created_listed {
                    continue;
                }
                let encl = if w.chance(70) { names[w.usize(n_classes)].clone() } else { format!("gone/E{}", w.below(5)) };
                let kind = *w.pick(&[Kind::Inner, Kind::Anonymous]);
                let inner = if kind == Kind::Inner { "Gone".to_string() } else { w.range(1, 9).to_string() };
                nests.push(NestM { kind, class: a.clone(), encl, method: None, inner, access: *w.pick(&ACCESS) });
            }
        }
    }
    if w.chance(60) {
        w.shuffle(&mut nests);
    }
    // no cycles (the code recurses without bound on them; not quantified by the property)
    while let Some(k) = cyclic_class(&table_map(&nests)) {
        nests.retain(|n| n.class != k);
    }
    // no two classes may end up with the same name (jar side: applied nests; mappings side: all nests), and no
    // new name may hit an existing class
    loop {
        let tm = table_map(&nests);
        let all = translation(&tm);
        let mut seen: BTreeSet<String> = used.clone();
        let mut bad: Option<String> = None;
        for (k, v) in &all {
            if k != v && !seen.insert(v.clone()) {
                bad = Some(k.clone());
                break;
            }
        }
        match bad {
            Some(k) => nests.retain(|n| n.class != k),
            None => break,
        }
    }
    // partial chains (a rejected nest in the middle) give other names on the jar side; check those as well
    {
        let sems: Vec<refclass::Sem> = classes.iter().map(build_class).collect();
        let facts = JarFacts::of(&sems.iter().collect::<Vec<_>>());
        loop {
            let applied: BTreeMap<String, NestM> = table_map(&nests).into_iter().filter(|(_, n)| rejection(n, &facts).is_none()).collect();
            let tr = translation(&applied);
            let mut seen: BTreeSet<String> = used.clone();
            let mut bad = None;
            for (k, v) in &tr {
                if k != v && !seen.insert(v.clone()) {
                    bad = Some(k.clone());
                    break;
                }
            }
            match bad {
                Some(k) => nests.retain(|n| n.class != k),
                None => break,
            }
        }
    }

    // ---- references between the classes
    let nested_names: Vec<String> = nests.iter().map(|n| n.class.clone()).collect();
    let encl_names: Vec<String> = nests.iter().map(|n| n.encl.clone()).collect();
    for ci in 0..classes.len() {
        let n_edits = if w.chance(15) { 0 } else { w.range(1, if big { 12 } else { 6 }) };
        for _ in 0..n_edits {
            let target = match w.below(20) {
                0..=11 if !nested_names.is_empty() => w.pick(&nested_names).clone(),
                12..=15 => names[w.usize(n_classes)].clone(),
                16..=17 if !encl_names.is_empty() => w.pick(&encl_names).clone(),
                18 => classes[ci].name.clone(),
                _ => names[w.usize(n_classes)].clone(),
            };
            let pos = if clean {
                *w.pick(CLEAN_POS)
            } else {
                match w.below(10) {
                    0 => *w.pick(LOSSY_POS),
                    1 => *w.pick(SIGNATURE_POS),
                    _ => *w.pick(CLEAN_POS),
                }
            };
            classes[ci].edits.push(Edit { pos, target });
        }
    }

    // ---- other entries
    let mut others: Vec<(String, EntryData)> = vec![];
    if w.chance(50) {
        others.push(("META-INF/MANIFEST.MF".into(), EntryData::File(b"Manifest-Version: 1.0\r\n\r\n".to_vec())));
    }
    if w.chance(40) {
        let n = w.below(300) as usize;
        others.push(("a/data.bin".into(), EntryData::File((0..n).map(|_| w.below(256) as u8).collect())));
    }
    if w.chance(30) {
        others.push(("a/".into(), EntryData::Dir));
    }
    if w.chance(15) {
        // looks like a class by content, not by name
        others.push(("notes/Foo.class.txt".into(), EntryData::File(vec![0xCA, 0xFE, 0xBA, 0xBE])));
    }

    // ---- mappings: the source namespace names the jar's classes
    let mut m = MapSet { ns: vec!["src".into(), "dst".into()], doc: None, classes: Default::default() };
    let tm = table_map(&nests);
    let mut dst_used: BTreeSet<String> = BTreeSet::new();
    let mut order: Vec<String> = names.iter().chain(absent.iter()).cloned().collect();
    // enclosing classes first so that `X__Y` can follow the target name of the enclosing class
    order.sort_by_key(|c| chain_depth(&tm, c));
    let mut dst_of: BTreeMap<String, String> = BTreeMap::new();
    let mut cnum = 100;
    for c in &order {
        let in_jar = names.contains(c);
        if !w.chance(if in_jar { 85 } else { 50 }) {
            continue;
        }
        cnum += 1 + w.below(5);
        let nest = tm.get(c);
        let style = w.below(10);
        let mut dst = match (style, nest) {
            (0..=2, Some(n)) => {
                let e = dst_of.get(&n.encl).cloned().unwrap_or_else(|| n.encl.clone());
                let tail = if n.kind == Kind::Anonymous { w.range(1, 30).to_string() } else { format!("N{cnum}") };
                format!("{e}__{tail}")
            }
            (0..=6, _) => format!("net/m/C_{cnum}"),
            (7, _) => format!("named/{}{cnum}", simple_of(c).replace("__", "_")),
            _ => format!("dst/C_{cnum}"),
        };
        while !dst_used.insert(dst.clone()) {
            dst.push('x');
        }
        dst_of.insert(c.clone(), dst.clone());
        let mut cm = ClassM { names: vec![Some(dst)], doc: if w.chance(15) { Some(format!("doc of {c}")) } else { None }, ..Default::default() };
        let pick_class = |w: &mut Rng| -> String {
            if !nested_names.is_empty() && w.chance(70) {
                w.pick(&nested_names).clone()
            } else {
                names[w.usize(n_classes)].clone()
            }
        };
        for k in 0..w.below(3) {
            let d = match w.below(3) {
                0 => "I".to_string(),
                1 => format!("L{};", pick_class(&mut w)),
                _ => format!("[[L{};", pick_class(&mut w)),
            };
            cm.fields.insert(mkey(&format!("f{k}"), &d), MemberM { names: vec![Some(format!("field_{k}"))], doc: None, params: Default::default() });
        }
        if let Some(cp) = classes.iter().find(|p| &p.name == c) {
            for (n, d) in &cp.decl_methods {
                if w.chance(75) {
                    cm.methods.insert(mkey(n, d), MemberM { names: vec![if w.chance(85) { Some(format!("named_{n}")) } else { None }], doc: None, params: Default::default() });
                }
            }
        }
        for k in 0..w.below(3) {
            let d = format!("(L{};I)L{};", pick_class(&mut w), pick_class(&mut w));
            let mut mm = MemberM { names: vec![Some(format!("method_{k}"))], doc: if w.chance(10) { Some("m doc".into()) } else { None }, params: Default::default() };
            if w.chance(30) {
                mm.params.insert(1, ParamM { names: vec![None, Some("arg".into())], doc: None });
            }
            cm.methods.insert(mkey(&format!("g{k}"), &d), mm);
        }
        m.classes.insert(c.clone(), cm);
    }
    if missing_dst {
        if let Some(c) = m.classes.values_mut().next() {
            c.names = vec![None];
        }
    }

    // ---- how the table reaches the code
    let text_ok = !direct_only && nests.iter().all(|n| n.kind == kind_of_inner_name(&n.inner));
    let via_text = if text_ok && w.chance(75) { Some(TextStyle { radix: w.below(4) as u8, crlf: w.chance(20), final_newline: w.chance(80) }) } else { None };

    let mut p = Plan { classes, others, entry_order: if w.chance(50) { 0 } else { w.next() | 1 }, deflate: w.chance(50), nests, via_text, text_faults: vec![], m, map_order: if w.chance(50) { 0 } else { w.next() | 1 }, jar_io: IoPlan::plain(), lazy: None };

    // ---- schedules and faults
    let mode = s.below(10);
    if mode >= 2 {
        p.jar_io = IoPlan::gen_legal(&mut s);
    }
    if mode >= 6 {
        let jar = crate::c14::jar_bytes(&p).map(|x| x.0.len() as u64).unwrap_or(1000);
        let cd = (p.classes.iter().map(|c| 50 + c.name.len() as u64).sum::<u64>() + p.others.len() as u64 * 60 + 22).min(jar);
        for _ in 0..f.range(1, 2) {
            let aimed_cd = f.chance(35);
            let off = if aimed_cd { jar - 1 - f.below(cd.max(1)) } else { f.below(jar.max(1)) };
            p.jar_io.faults.push(match f.below(8) {
                0 | 1 => Fault::Eio { at_call: f.below(80) as u32, sticky: f.chance(50) },
                2 => Fault::EioAtOffset { off },
                3 | 4 => Fault::Eof { at: if f.chance(30) { jar - 1 - f.below(30.min(jar)) } else { off } },
                5 | 6 => Fault::Flip { off, bit: f.below(8) as u8 },
                _ => Fault::SeekFail { at_call: f.below(30) as u32 },
            });
        }
    }
    // ---- the entry-level seam
    let mut z = rng.split("lazy-jar");
    if z.chance(30) {
        let nent = (p.classes.len() + p.others.len()) as u64;
        // nest_jar walks the entries twice (index pass, copy pass): about 3 operations per entry and pass
        let span = 8 * nent + 6;
        let mut lp = crate::simjar::LazyPlan::draw(&mut z, span, 2 * nent);
        // a jar that classifies its entries by content and hands classes out under other names than `*.class`
        // (missed seeded change C14-14: the index pass picked entries by the look of their names)
        lp.odd_names = z.chance(25);
        lp.renumber = z.chance(25);
        p.lazy = Some(lp);
    }
    if let Some(st) = &p.via_text {
        if f.chance(45) {
            let text = write_nests_text(&p.nests, st);
            let len = text.len() as u64;
            let bounds: Vec<u64> = text.bytes().enumerate().filter(|(_, b)| *b == b'\n').map(|(i, _)| i as u64 + 1).collect();
            for _ in 0..f.range(1, 2) {
                let at = if !bounds.is_empty() && f.chance(70) { (*f.pick(&bounds) + f.below(3)).saturating_sub(1) } else { f.below(len.max(1)) };
                p.text_faults.push(if f.chance(50) { Fault::Eof { at } } else { Fault::Flip { off: f.below(len.max(1)), bit: f.below(8) as u8 } });
            }
        }
    }
    p
}
