//! refbridge: independent reference for property C15 ("bridge targets inherit the bridge's mapped name,
//! nothing else changes"). Written from the property statement over `refclass::Sem` facts and `refmap::MapSet`
//! values; shares no code with /repo. Where the statement is silent the choice of the code under test is adopted
//! and recorded in `Notes` (so that the engine can count how often a verdict rests on such a choice).
//!
//! Three steps:
//!  * `project`  - the facts of one class the property talks about (header, methods, flags, invoked methods);
//!  * `detect`   - the bridge predicate over the main jar: (bridge, delegate) pairs;
//!  * `apply`    - the naming step: for every pair, the delegate receives in the bridge's class the target name the
//!                 mappings give to the bridge through inheritance; everything else is returned unchanged.

use crate::refmap::*;
use refclass::desc::{parse_method_desc, Base, FieldTy};
use refclass::sem::{Insn, Sem};
use std::collections::{BTreeMap, BTreeSet};

pub const ACC_PRIVATE: u16 = 0x0002;
pub const ACC_STATIC: u16 = 0x0008;
pub const ACC_FINAL: u16 = 0x0010;
pub const ACC_BRIDGE: u16 = 0x0040;
pub const ACC_SYNTHETIC: u16 = 0x1000;
pub const OBJECT: &str = "java/lang/Object";

/// (class, name, descriptor)
pub type MRef = (String, String, String);

#[derive(Clone, Debug, PartialEq, Eq)]
pub struct RMethod {
    pub access: u16,
    pub name: String,
    pub desc: String,
    pub has_code: bool,
    /// distinct methods named by invokevirtual/-special/-static/-interface instructions, in order of first use
    pub callees: Vec<MRef>,
    /// how many of `callees` have an array class as owner (e.g. `[I.clone()`)
    pub array_callees: usize,
    pub indy: usize,
    pub synthetic_attr: bool,
}

#[derive(Clone, Debug, PartialEq, Eq)]
pub struct RClass {
    pub name: String,
    pub sup: Option<String>,
    pub ifs: Vec<String>,
    pub methods: Vec<RMethod>,
}

fn s(j: &refclass::JStr, what: &str) -> Result<String, String> {
    j.to_str().ok_or_else(|| format!("{what} is not a well-formed string: {j:?}"))
}

pub fn project(sem: &Sem) -> Result<RClass, String> {
    let mut c = RClass { name: s(&sem.this_class, "class name")?, sup: None, ifs: vec![], methods: vec![] };
    if let Some(x) = &sem.super_class {
        c.sup = Some(s(x, "super class")?);
    }
    for i in &sem.interfaces {
        c.ifs.push(s(i, "interface")?);
    }
    for m in &sem.methods {
        let mut rm = RMethod {
            access: m.access,
            name: s(&m.name, "method name")?,
            desc: s(&m.desc, "method descriptor")?,
            has_code: m.code.is_some(),
            callees: vec![],
            array_callees: 0,
            indy: 0,
            synthetic_attr: m.synthetic,
        };
        if let Some(code) = &m.code {
            for i in &code.insns {
                match i {
                    Insn::Invoke(_, r) => {
                        let k = (s(&r.owner, "callee owner")?, s(&r.name, "callee name")?, s(&r.desc, "callee descriptor")?);
                        if !rm.callees.contains(&k) {
                            if k.0.starts_with('[') {
                                rm.array_callees += 1;
                            }
                            rm.callees.push(k);
                        }
                    }
                    Insn::InvokeDynamic(_) => rm.indy += 1,
                    _ => {}
                }
            }
        }
        c.methods.push(rm);
    }
    Ok(c)
}

#[derive(Clone, Debug, PartialEq, Eq)]
pub struct Pair {
    pub bridge: MRef,
    pub delegate: MRef,
    pub flagged: bool,
    /// the verdict "compatible" rests on a choice adopted from the code (a class the main jar does not define)
    pub adopted_unknown: bool,
}

#[derive(Clone, Debug, Default)]
pub struct Notes {
    /// compatibility was answered "yes" because the bridge-side type is not defined by the main jar
    pub unknown_bridge_type: u64,
    /// ... because an ancestor of the specialized type is not defined by the main jar
    pub unknown_ancestor: u64,
    /// ... "no" because the specialized type itself is not defined by the main jar
    pub unknown_specialized: u64,
    /// sub-case of `unknown_bridge_type`: every ancestor of the specialized type is defined in the main jar and none is
    /// the bridge type, i.e. a strict reading of "super type" would have said no
    pub unknown_bridge_but_closed: u64,
    /// synthetic methods that were not candidates only because the Synthetic *attribute* (not the flag) marks them
    pub synthetic_attr_only: u64,
}

fn parents(c: &RClass) -> Vec<&str> {
    let mut v: Vec<&str> = vec![];
    if let Some(x) = &c.sup {
        if x != OBJECT {
            v.push(x);
        }
    }
    for i in &c.ifs {
        if !v.contains(&i.as_str()) {
            v.push(i);
        }
    }
    v
}

/// `b` (type at some position of the bridge) vs `sp` (same position of the invoked method).
fn compatible(main: &BTreeMap<&str, &RClass>, b: &FieldTy, sp: &FieldTy, notes: &mut Notes, adopted: &mut bool) -> bool {
    if b == sp {
        return true;
    }
    let (Base::Object(bn), Base::Object(sn)) = (&b.base, &sp.base) else { return false };
    if b.dims != 0 || sp.dims != 0 {
        // arrays are compatible with themselves only (statement silent; the code's choice)
        return false;
    }
    let (Ok(bn), Ok(sn)) = (std::str::from_utf8(bn), std::str::from_utf8(sn)) else { return false };
    if bn == OBJECT {
        return true;
    }
    // closed-world walk over the super types of `sn`
    let mut seen: BTreeSet<&str> = BTreeSet::new();
    let mut todo: Vec<&str> = vec![sn];
    let mut found = false;
    let mut open = false;
    let mut first = true;
    while let Some(c) = todo.pop() {
        let Some(rc) = main.get(c) else {
            if first {
                // the specialized type itself is not defined here: nothing can be walked
                if main.contains_key(bn) {
                    notes.unknown_specialized += 1;
                    return false;
                }
            }
            open = true;
            first = false;
            continue;
        };
        first = false;
        for p in parents(rc) {
            if p == bn {
                found = true;
            }
            if seen.insert(p) {
                todo.push(p);
            }
        }
    }
    if found {
        return true;
    }
    if !main.contains_key(bn) {
        notes.unknown_bridge_type += 1;
        if !open {
            notes.unknown_bridge_but_closed += 1;
        }
        *adopted = true;
        return true;
    }
    if open {
        notes.unknown_ancestor += 1;
        *adopted = true;
        return true;
    }
    false
}

/// The bridge predicate of the property over the classes of the main jar.
pub fn detect(main: &[RClass], notes: &mut Notes) -> Result<Vec<Pair>, String> {
    let mut idx: BTreeMap<&str, &RClass> = BTreeMap::new();
    for c in main {
        if idx.insert(&c.name, c).is_some() {
            return Err(format!("class {:?} defined twice in the main jar", c.name));
        }
    }
    let mut out = vec![];
    for c in main {
        let mut seen: BTreeSet<(&str, &str)> = BTreeSet::new();
        for m in &c.methods {
            if !seen.insert((&m.name, &m.desc)) {
                return Err(format!("method {:?}{:?} declared twice in {:?}", m.name, m.desc, c.name));
            }
            if m.access & ACC_SYNTHETIC == 0 {
                if m.synthetic_attr {
                    notes.synthetic_attr_only += 1;
                }
                continue;
            }
            if m.callees.len() != 1 {
                continue;
            }
            let d = &m.callees[0];
            let flagged = m.access & ACC_BRIDGE != 0;
            let mut adopted = false;
            let ok = flagged || {
                let inheritable = m.access & (ACC_PRIVATE | ACC_STATIC | ACC_FINAL) == 0;
                inheritable
                    && match (parse_method_desc(m.desc.as_bytes()), parse_method_desc(d.2.as_bytes())) {
                        (Some((bp, br)), Some((sp, sr))) => {
                            bp.len() == sp.len()
                                && bp.iter().zip(sp.iter()).all(|(b, x)| compatible(&idx, b, x, notes, &mut adopted))
                                && match (&br, &sr) {
                                    (Some(b), Some(x)) => compatible(&idx, b, x, notes, &mut adopted),
                                    (None, None) => true,
                                    _ => false,
                                }
                        }
                        _ => false,
                    }
            };
            if ok {
                out.push(Pair { bridge: (c.name.clone(), m.name.clone(), m.desc.clone()), delegate: d.clone(), flagged, adopted_unknown: adopted && !flagged });
            }
        }
    }
    Ok(out)
}

// ------------------------------------------------------------------------------------------------
// naming

/// class -> direct super types (super class first, then interfaces in declaration order), one table per jar
pub type Prov = BTreeMap<String, Vec<String>>;

pub fn provider(classes: &[RClass]) -> Prov {
    let mut p = Prov::new();
    for c in classes {
        let mut v: Vec<String> = vec![];
        if let Some(x) = &c.sup {
            v.push(x.clone());
        }
        for i in &c.ifs {
            if !v.contains(i) {
                v.push(i.clone());
            }
        }
        p.insert(c.name.clone(), v);
    }
    p
}

fn supers<'a>(provs: &'a [Prov], class: &str) -> Option<&'a Vec<String>> {
    provs.iter().find_map(|p| p.get(class))
}

/// name of `class` in the second namespace of a two-namespace set (unchanged if the set does not name it)
pub fn map_class(ms: &MapSet, class: &str) -> String {
    ms.classes.get(class).and_then(|c| c.names.first().cloned().flatten()).unwrap_or_else(|| class.to_string())
}

/// rewrites every class name of a field/method/return descriptor
pub fn map_desc(ms: &MapSet, desc: &str) -> String {
    let b: Vec<char> = desc.chars().collect();
    let mut out = String::new();
    let mut i = 0;
    while i < b.len() {
        let c = b[i];
        out.push(c);
        i += 1;
        if c == 'L' {
            let mut name = String::new();
            while i < b.len() && b[i] != ';' {
                name.push(b[i]);
                i += 1;
            }
            out.push_str(&map_class(ms, &name));
        }
    }
    out
}

#[derive(Clone, Debug, Default)]
pub struct Found {
    pub name: String,
    /// classes visited on the successful path, starting with the class asked
    pub path: Vec<String>,
}

/// "the name the set gives to method `key` of `class`, through inheritance": the entry of the class itself, else the
/// first super type (depth first: super class, then interfaces in order) for which the same question has an answer.
/// A class the set does not name (absent, or without a target name) ends the search along that branch
/// (statement silent; the code's choice).
pub fn lookup(ms: &MapSet, provs: &[Prov], class: &str, key: &str, depth: usize, cut: &mut bool) -> Option<Found> {
    if depth > 64 {
        return None;
    }
    let Some(cm) = ms.classes.get(class) else {
        if depth > 0 && class != OBJECT {
            *cut = true;
        }
        return None;
    };
    if cm.names.first().cloned().flatten().is_none() {
        *cut = true;
        return None;
    }
    if let Some(m) = cm.methods.get(key) {
        if let Some(Some(n)) = m.names.first() {
            return Some(Found { name: n.clone(), path: vec![class.to_string()] });
        }
    }
    for sup in supers(provs, class)? {
        if let Some(mut f) = lookup(ms, provs, sup, key, depth + 1, cut) {
            f.path.insert(0, class.to_string());
            return Some(f);
        }
    }
    None
}

#[derive(Clone, Debug)]
pub struct Change {
    /// class key (first namespace of the set that is extended) in which the entry is written
    pub class: String,
    /// member key of the delegate in that namespace
    pub key: String,
    /// the target name it receives
    pub name: String,
    pub pair: Pair,
    /// own | inherited1 | inherited2+ | unnamed
    pub how: &'static str,
    /// classes (first namespace of the extended set) on the successful lookup path
    pub path: Vec<String>,
    /// a class that the set does not name ended a branch of the search
    pub cut: bool,
    /// the class of the bridge has no entry in the set: nothing can be written
    pub class_absent: bool,
    /// the delegate had an entry already
    pub delegate_present: bool,
}

pub struct Applied {
    pub out: MapSet,
    pub changes: Vec<Change>,
}

/// `calamus`: jar namespace -> key namespace of `mappings`. `mappings`: the set to extend (2 namespaces).
pub fn apply(main: &[RClass], libs: &[Vec<RClass>], calamus: &MapSet, mappings: &MapSet, pairs: &[Pair]) -> Applied {
    let mut provs: Vec<Prov> = vec![provider(main)];
    for l in libs {
        provs.push(provider(l));
    }
    // the same hierarchy, spoken in the key namespace of `mappings`
    let provs_i: Vec<Prov> = provs.iter().map(|p| p.iter().map(|(k, v)| (map_class(calamus, k), v.iter().map(|x| map_class(calamus, x)).collect())).collect()).collect();
    let through = |r: &MRef| -> (String, String) {
        let mut cut = false;
        let name = lookup(calamus, &provs, &r.0, &mkey(&r.1, &r.2), 0, &mut cut).map(|f| f.name).unwrap_or_else(|| r.1.clone());
        (name, map_desc(calamus, &r.2))
    };
    let mut out = mappings.clone();
    let mut changes = vec![];
    for p in pairs {
        let class = map_class(calamus, &p.bridge.0);
        let (bn, bd) = through(&p.bridge);
        let (dn, dd) = through(&p.delegate);
        let mut cut = false;
        let found = lookup(mappings, &provs_i, &class, &mkey(&bn, &bd), 0, &mut cut);
        let (name, how, path) = match found {
            Some(f) => {
                let how = match f.path.len() {
                    1 => "own",
                    2 => "inherited1",
                    _ => "inherited2+",
                };
                (f.name, how, f.path)
            }
            None => (bn.clone(), "unnamed", vec![]),
        };
        let key = mkey(&dn, &dd);
        let mut ch = Change { class: class.clone(), key: key.clone(), name: name.clone(), pair: p.clone(), how, path, cut, class_absent: false, delegate_present: false };
        match out.classes.get_mut(&class) {
            None => ch.class_absent = true,
            Some(cm) => match cm.methods.get_mut(&key) {
                Some(m) => {
                    ch.delegate_present = true;
                    m.names = vec![Some(name)];
                }
                None => {
                    cm.methods.insert(key, MemberM { names: vec![Some(name)], doc: None, params: BTreeMap::new() });
                }
            },
        }
        changes.push(ch);
    }
    Applied { out, changes }
}
