//! C03 - Tiny v2 round trip and canonical form, through simulated media.

use crate::bridge::{from_quill, to_quill};
use crate::engine::*;
use crate::refmap::*;
use crate::rng::{Digest, Rng};
use crate::simio::*;
use serde::{Deserialize, Serialize};
use serde_json::json;

pub struct C03;

#[derive(Clone, Serialize, Deserialize)]
pub struct Plan {
    pub m: MapSet,
    /// insertion orders of the same content (0 = model order)
    pub order_a: u64,
    pub order_b: u64,
    /// Some: additionally read a reference-written text whose sections are in this drawn order
    pub text_order: Option<u64>,
    pub write_io: IoPlan,
    pub read_io: IoPlan,
    /// Some((file kind, directory style)): the written text is also stored on the simulated disk - as a regular file,
    /// a symbolic link or a pipe (SimDir::create_kind), in a directory named / reached per SimDir::styled_dir - and
    /// read through the path-taking `tiny_v2::read_file`
    #[serde(default)]
    pub file_route: Option<(u8, u8)>,
}

macro_rules! with_n {
    ($n:expr, $f:ident ( $($a:expr),* )) => {
        match $n {
            2 => $f::<2>($($a),*),
            3 => $f::<3>($($a),*),
            4 => $f::<4>($($a),*),
            n => panic!("unsupported namespace count {n}"),
        }
    };
}
pub(crate) use with_n;

fn order(seed: u64) -> Option<Rng> {
    if seed == 0 {
        None
    } else {
        Some(Rng::new(seed))
    }
}

fn write_real<const N: usize>(m: &MapSet, ord: u64, w: &mut impl std::io::Write) -> anyhow::Result<()> {
    let q = to_quill::<N>(m, order(ord).as_mut()).expect("model value admissible for quill");
    quill::tiny_v2::write(&q, w)
}
fn read_real<const N: usize>(r: impl std::io::Read) -> anyhow::Result<MapSet> {
    let q: quill::tree::mappings::Mappings<N, crate::bridge::Ns> = quill::tiny_v2::read(r)?;
    Ok(from_quill(&q).expect("quill value projects"))
}
fn read_file_real<const N: usize>(path: &std::path::Path) -> anyhow::Result<MapSet> {
    let q: quill::tree::mappings::Mappings<N, crate::bridge::Ns> = quill::tiny_v2::read_file(path)?;
    Ok(from_quill(&q).expect("quill value projects"))
}
fn rewrite_real<const N: usize>(text: &[u8]) -> anyhow::Result<Vec<u8>> {
    let q: quill::tree::mappings::Mappings<N, crate::bridge::Ns> = quill::tiny_v2::read(text)?;
    quill::tiny_v2::write_vec(&q)
}

fn is_prefix(a: &[u8], b: &[u8]) -> bool {
    a.len() <= b.len() && &b[..a.len()] == a
}

impl Engine for C03 {
    type Plan = Plan;
    fn id(&self) -> &'static str {
        "C03"
    }
    fn runs(&self, tier: Tier) -> u64 {
        match tier {
            Tier::Quick => 60_000,
            Tier::Thorough => 3_000_000,
        }
    }
    fn gen(&self, rng: &mut Rng, _tier: Tier, _run: u64) -> Plan {
        let mut w = rng.split("workload");
        let mut s = rng.split("schedule");
        let mut f = rng.split("faults");
        let size = w.below(10);
        let cfg = GenCfg {
            nns: w.range(2, 4) as usize,
            max_classes: match size {
                0 => 0,
                1..=5 => 3,
                6..=8 => 8,
                _ => 30,
            },
            max_members: if size >= 9 { 6 } else { 3 },
            unicode: w.chance(50),
            comments: w.chance(70),
            missing: w.chance(70),
            inner: w.chance(60),
            enigma: false,
            big: size >= 8 && w.chance(60),
        };
        let m = gen_mapset(&mut w, &cfg);
        let len = write_tiny(&m, None).len() as u64;
        let mut p = Plan {
            m,
            order_a: if w.chance(30) { 0 } else { w.next() | 1 },
            order_b: w.next() | 1,
            text_order: if w.chance(50) { Some(w.next() | 1) } else { None },
            write_io: IoPlan::plain(),
            read_io: IoPlan::plain(),
            file_route: None,
        };
        {
            let mut fr = rng.split("file-route");
            if fr.chance(8) {
                p.file_route = Some((fr.below(3) as u8, if fr.chance(50) { 0 } else { 1 + fr.below(7) as u8 }));
            }
        }
        // swarm: which sides get legal noise, which get faults
        let mode = s.below(10);
        if mode >= 2 {
            p.write_io = IoPlan::gen_legal(&mut s);
        }
        if mode >= 1 && mode != 2 {
            p.read_io = IoPlan::gen_legal(&mut s);
        }
        if f.chance(60) {
            let nf = f.range(1, 2);
            for _ in 0..nf {
                if f.chance(50) {
                    // writer side; aimed at the final buffer (everything after the last multiple of 8192) half of the time
                    let aimed = f.chance(50);
                    // the final buffer: everything after the last multiple of 8192 that is strictly below len
                    let tail_start = len.saturating_sub(1) / 8192 * 8192;
                    let at = if aimed { f.range(tail_start, len.saturating_sub(1)) } else { f.below(len + 1) };
                    let fault = match f.below(5) {
                        0 | 1 => Fault::Enospc { after_bytes: if f.chance(15) { 0 } else { at } },
                        2 => Fault::WriteEio { at_call: f.below(6) as u32, sticky: f.chance(70) },
                        3 => Fault::WriteZero { at_call: f.below(4) as u32 },
                        _ => Fault::FlushErr,
                    };
                    p.write_io.faults.push(fault);
                } else {
                    let fault = match f.below(6) {
                        0 | 1 => Fault::Eof { at: f.below(len + 1) },
                        2 | 3 => Fault::Flip { off: f.below(len.max(1)), bit: f.below(8) as u8 },
                        4 => Fault::Eio { at_call: f.below(6) as u32, sticky: f.chance(50) },
                        _ => Fault::EioAtOffset { off: f.below(len + 1) },
                    };
                    p.read_io.faults.push(fault);
                }
            }
        }
        p
    }

    fn exec(&self, p: &Plan, st: &mut RunStats) -> Vec<Violation> {
        let mut out = vec![];
        let n = p.m.ns.len();
        st.shape = p.m.shape();
        let mut obs = Digest::new();

        // ---------------- T0: plain media
        st.tier("T0");
        let mut t0 = Vec::new();
        match no_panic(|| with_n!(n, write_real(&p.m, p.order_a, &mut t0))) {
            Ok(Ok(())) => {}
            Ok(Err(e)) => {
                out.push(Violation::new("T0", "refused-wellformed", "write", format!("{e:#}")));
                return out;
            }
            Err(pm) => {
                out.push(Violation::new("T0", "panic", format!("write:{}", panic_path(&pm)), pm));
                return out;
            }
        }
        obs.bytes(&t0);
        if t0.len() > 8192 {
            st.probe("text_over_8k");
        } else {
            st.probe("text_under_8k");
        }
        // the written text, read by the independent reader, is the model
        match read_tiny(&t0, n) {
            Ok(r) => {
                if let Some((path, d)) = p.m.diff_path(&r) {
                    out.push(Violation::new("T0", "semantic-mismatch", format!("written-text.{path}"), d));
                }
            }
            Err(e) => out.push(Violation::new("T0", "invalid-output", "written-text", e)),
        }
        // round trip through the real reader
        match no_panic(|| with_n!(n, read_real(&t0[..]))) {
            Ok(Ok(r)) => {
                if let Some((path, d)) = p.m.diff_path(&r) {
                    out.push(Violation::new("T0", "semantic-mismatch", format!("roundtrip.{path}"), d));
                }
            }
            Ok(Err(e)) => out.push(Violation::new("T0", "refused-wellformed", "read(write(M))", format!("{e:#}"))),
            Err(pm) => out.push(Violation::new("T0", "panic", format!("read:{}", panic_path(&pm)), pm)),
        }
        // an entry line that occurs twice (same key under the same parent): reading it would merge two entries or
        // re-parent the children of the second block, so the reader has to refuse it (keyed insertion rejects duplicate
        // source keys) - missed seeded change C03-9. Comment lines are not entries and are left alone.
        {
            let lines: Vec<&[u8]> = t0.split_inclusive(|b| *b == b'\n').collect();
            let cands: Vec<usize> = lines
                .iter()
                .enumerate()
                .skip(1)
                .filter(|(_, l)| {
                    let depth = l.iter().take_while(|b| **b == b'\t').count();
                    let rest = &l[depth..];
                    l.ends_with(b"\n") && ((depth == 0 && rest.starts_with(b"c\t")) || (depth == 1 && (rest.starts_with(b"f\t") || rest.starts_with(b"m\t"))) || (depth == 2 && rest.starts_with(b"p\t")))
                })
                .map(|(i, _)| i)
                .collect();
            if !cands.is_empty() {
                let at = cands[((p.order_a ^ p.order_b.rotate_left(17) ^ crate::rng::fnv(&t0)) % cands.len() as u64) as usize];
                let mut dup = Vec::with_capacity(t0.len() + lines[at].len());
                for (i, l) in lines.iter().enumerate() {
                    dup.extend_from_slice(l);
                    if i == at {
                        dup.extend_from_slice(l);
                    }
                }
                st.probe("duplicate_entry_line");
                match no_panic(|| with_n!(n, read_real(&dup[..]))) {
                    Ok(Ok(_)) => out.push(Violation::new("T0", "accepted-malformed-text", "duplicate-entry", format!("line {} of the written text occurs twice and read returned Ok: {:?}", at + 1, String::from_utf8_lossy(lines[at]).trim_end()))),
                    Ok(Err(_)) => {}
                    Err(pm) => out.push(Violation::new("T0", "panic", format!("read-duplicate:{}", panic_path(&pm)), pm)),
                }
            }
        }
        // the same text on the simulated disk, read through the path-taking entry point: what kind of directory entry
        // the file is (regular, symbolic link, pipe whose metadata reports size 0) and how its directory is named or
        // reached change nothing (missed seeded change C03-12: a buffer sized by metadata().len())
        if let Some((kind, style)) = p.file_route {
            st.tier("T1");
            st.probe("read_file_route");
            st.nontrivial = true;
            let mut dir = crate::simdir::SimDir::new("c03");
            let (real, given) = dir.styled_dir("maps", style, ".tiny");
            dir.create_kind(&format!("{real}/m.tiny"), &t0, kind);
            if kind % 3 == 2 {
                st.probe("read_file_route.pipe");
            }
            st.events += 6;
            st.sched.u64(0x7069_7065 ^ ((kind as u64) << 8) ^ style as u64);
            let path = given.join("m.tiny");
            match no_panic(|| with_n!(n, read_file_real(&path))) {
                Ok(Ok(r)) => {
                    if let Some((path, d)) = p.m.diff_path(&r) {
                        out.push(Violation::new("T1", "schedule-dependence", format!("read_file.{path}"), d));
                    }
                }
                Ok(Err(e)) => out.push(Violation::new("T1", "schedule-dependence", "read_file.result", format!("file kind {kind}, directory style {style}: {e:#}"))),
                Err(pm) => out.push(Violation::new("T1", "panic", format!("read_file:{}", panic_path(&pm)), pm)),
            }
            // the file is replaced by another text of the same length with its modification time put back (cp -p,
            // rsync -t, two writes within one clock tick), and read again under the same path: the answer is the one for
            // the bytes that are there NOW, i.e. what the in-memory reader says about them (missed seeded change C03-14:
            // a process-wide cache of file contents validated by length and mtime)
            if kind % 3 == 0 {
                if let Some(at) = t0.iter().enumerate().skip(t0.iter().position(|b| *b == b'\n').unwrap_or(0)).find(|(_, b)| b.is_ascii_lowercase()).map(|x| x.0) {
                    let mut t0b = t0.clone();
                    t0b[at] = if t0b[at] == b'z' { b'a' } else { t0b[at] + 1 };
                    dir.overwrite_keep_mtime(&format!("{real}/m.tiny"), &t0b);
                    st.probe("read_file_route.replaced_same_len_same_mtime");
                    let want = no_panic(|| with_n!(n, read_real(&t0b[..])));
                    let got = no_panic(|| with_n!(n, read_file_real(&path)));
                    match (&want, &got) {
                        (_, Err(pm)) => out.push(Violation::new("T1", "panic", format!("read_file:{}", panic_path(pm)), pm.clone())),
                        (Ok(Ok(w)), Ok(Ok(g))) => {
                            if let Some((path, d)) = w.diff_path(g) {
                                out.push(Violation::new("T1", "residue-after-heal", format!("read_file.replaced.{path}"), format!("the file was replaced (same length, same mtime) and read again: {d}")));
                            }
                        }
                        (Ok(Ok(_)), Ok(Err(e))) => out.push(Violation::new("T1", "residue-after-heal", "read_file.replaced.result", format!("the in-memory reader accepts the bytes now in the file, read_file says {e:#}"))),
                        (Ok(Err(_)), Ok(Ok(_))) => out.push(Violation::new("T1", "residue-after-heal", "read_file.replaced.result", "the in-memory reader refuses the bytes now in the file, read_file returned Ok")),
                        _ => {}
                    }
                }
            }
        }
        // one line of the written text one tab too deep (a first child, or the first line after the header): not a
        // well-formed text, so a refusal is fine; but an Ok has to carry everything the OTHER lines say - never a
        // silently shortened set (missed seeded change C03-18: too deeply indented lines skipped without a word)
        if (p.order_a ^ p.order_b) % 8 == 3 {
            let lines: Vec<&[u8]> = t0.split_inclusive(|b| *b == b'\n').collect();
            let depth = |l: &[u8]| l.iter().take_while(|b| **b == b'\t').count();
            if lines.len() >= 2 {
                let start = 1 + ((p.order_b >> 7) % (lines.len() as u64 - 1)) as usize;
                let at = (start..lines.len()).chain(1..start).find(|&i| i == 1 || depth(lines[i - 1]) < depth(lines[i])).unwrap_or(1);
                let d_at = depth(lines[at]);
                let (mut damaged, mut rest, mut skipping) = (vec![], vec![], false);
                for (i, l) in lines.iter().enumerate() {
                    if i == at {
                        damaged.push(b'\t');
                        damaged.extend_from_slice(l);
                        skipping = true;
                        continue;
                    }
                    damaged.extend_from_slice(l);
                    if skipping && depth(l) > d_at {
                        continue;
                    }
                    skipping = false;
                    rest.extend_from_slice(l);
                }
                st.probe("over_indented_line");
                st.tier("T2");
                match no_panic(|| with_n!(n, read_real(&damaged[..]))) {
                    Err(pm) => out.push(Violation::new("T2", "panic", format!("read:{}", panic_path(&pm)), pm)),
                    Ok(Err(_)) => st.probe("over_indented_line.refused"),
                    Ok(Ok(got)) => {
                        // C03: "reading never merges, loses or re-parents an entry" - a reader that tolerates the extra tab
                        // has to keep the entry on that line too; what it cannot keep it has to refuse
                        let _ = &rest;
                        if let Some(m) = p.m.missing_in(&got) {
                            out.push(Violation::new("T2", "reader-ok-with-lost-entries", "read.over-indented-line", format!("line {} is one tab too deep; read returned Ok and lost: {m}", at + 1)));
                        }
                    }
                }
            }
        }
        // fixed point
        match no_panic(|| with_n!(n, rewrite_real(&t0))) {
            Ok(Ok(t1)) => {
                if t1 != t0 {
                    out.push(Violation::new("T0", "nondeterministic-output", "fixpoint", first_text_diff(&t0, &t1)));
                }
            }
            Ok(Err(_)) => {} // already reported above
            Err(pm) => out.push(Violation::new("T0", "panic", format!("rewrite:{}", panic_path(&pm)), pm)),
        }
        // insertion-order independence
        let mut tb = Vec::new();
        if let Ok(Ok(())) = no_panic(|| with_n!(n, write_real(&p.m, p.order_b, &mut tb))) {
            if tb != t0 {
                out.push(Violation::new("T0", "nondeterministic-output", "insertion-order", first_text_diff(&t0, &tb)));
            }
        }
        // a legal text in another section order reads to the same set and rewrites to the canonical text
        let mut read_input = t0.clone();
        if let Some(seed) = p.text_order {
            let text = write_tiny(&p.m, Some(&mut Rng::new(seed))).into_bytes();
            st.probe("noncanonical_text_read");
            match no_panic(|| with_n!(n, read_real(&text[..]))) {
                Ok(Ok(r)) => {
                    if let Some((path, d)) = p.m.diff_path(&r) {
                        out.push(Violation::new("T0", "semantic-mismatch", format!("read-noncanonical.{path}"), d));
                    }
                }
                Ok(Err(e)) => out.push(Violation::new("T0", "refused-wellformed", "read(noncanonical)", format!("{e:#}"))),
                Err(pm) => out.push(Violation::new("T0", "panic", format!("read:{}", panic_path(&pm)), pm)),
            }
            if let Ok(Ok(t2)) = no_panic(|| with_n!(n, rewrite_real(&text))) {
                if t2 != t0 {
                    out.push(Violation::new("T0", "nondeterministic-output", "canonical-form", first_text_diff(&t0, &t2)));
                }
            }
            read_input = text;
        }

        // ---------------- writer through the simulated sink
        if !p.write_io.is_plain() {
            let legal = p.write_io.legal_only();
            let tier = if legal { "T1" } else { "T2" };
            st.tier(if legal { "T1" } else { "T2" });
            let mut sink = SimWriter::new(&p.write_io);
            let res = no_panic(|| with_n!(n, write_real(&p.m, p.order_a, &mut sink)));
            st.io(&sink.stats, sink.log);
            let acc = sink.accepted();
            obs.bytes(acc);
            match res {
                Err(pm) => out.push(Violation::new(tier, "panic", format!("write:{}", panic_path(&pm)), pm)),
                Ok(Ok(())) => {
                    obs.u64(1);
                    if acc != &t0[..] {
                        if legal {
                            out.push(Violation::new("T1", "schedule-dependence", "write.sink", format!("sink holds {} bytes, plain write gives {}", acc.len(), t0.len())));
                        } else {
                            out.push(Violation::new(
                                "T2",
                                "writer-ok-with-incomplete-sink",
                                "sink.len",
                                format!("write returned Ok(()) but the sink holds {} of {} bytes (faults fired: {:?})", acc.len(), t0.len(), sink.stats.fired),
                            ));
                        }
                    }
                    if !legal && !sink.stats.fired.is_empty() {
                        st.probe("write_ok_despite_fault");
                    }
                }
                Ok(Err(e)) => {
                    obs.u64(2);
                    if legal {
                        out.push(Violation::new("T1", "schedule-dependence", "write.result", format!("legal short/interrupted writes made write fail: {e:#}")));
                    } else {
                        st.probe("write_err_under_fault");
                        if !is_prefix(acc, &t0) {
                            out.push(Violation::new("T2", "writer-err-with-nonprefix-sink", "sink", format!("{} bytes accepted, not a prefix of the plain output", acc.len())));
                        }
                        if acc.len() as u64 > (t0.len() as u64 / 8192) * 8192 && acc.len() < t0.len() {
                            st.probe("error_in_final_bufwriter_flush");
                        }
                    }
                }
            }
            if !legal {
                // no residue: the same value written again to a healthy sink gives the plain bytes
                let mut again = Vec::new();
                if let Ok(Ok(())) = no_panic(|| with_n!(n, write_real(&p.m, p.order_a, &mut again))) {
                    if again != t0 {
                        out.push(Violation::new("T2", "residue-after-heal", "write", "second write differs"));
                    }
                }
            }
        }

        // ---------------- reader through the simulated source
        if !p.read_io.is_plain() {
            let legal = p.read_io.legal_only();
            let tier = if legal { "T1" } else { "T2" };
            st.tier(if legal { "T1" } else { "T2" });
            let mut src = SimReader::new(&read_input, &p.read_io);
            let res = no_panic(|| with_n!(n, read_real(&mut src)));
            st.io(&src.stats, src.log);
            if src.fuel_exhausted {
                out.push(Violation::new(tier, "runaway", "read", "fuel exhausted"));
            }
            match res {
                Err(pm) => out.push(Violation::new(tier, "panic", format!("read:{}", panic_path(&pm)), pm)),
                Ok(Ok(v)) => {
                    obs.u64(3);
                    if legal {
                        if let Some((path, d)) = p.m.diff_path(&v) {
                            out.push(Violation::new("T1", "schedule-dependence", format!("read.{path}"), d));
                        }
                    } else {
                        match read_tiny(src.delivered(), n) {
                            Ok(r) => {
                                st.probe("read_ok_on_damaged_medium_agrees");
                                if let Some((path, d)) = r.diff_path(&v) {
                                    out.push(Violation::new("T2", "reader-ok-with-wrong-data", format!("read.{path}"), d));
                                }
                            }
                            Err(e) if e.starts_with(UNDECODABLE) => out.push(Violation::new("T2", "reader-ok-on-undecodable-input", "read", format!("the delivered bytes are not UTF-8 text ({e}) but read returned Ok"))),
                            Err(_) if src.delivered().is_empty() => out.push(Violation::new("T2", "reader-ok-on-empty-input", "read", "the medium delivered no byte (a Tiny v2 text starts with its header line), read returned Ok".to_string())),
                            Err(_) => st.probe("lenient_accept"),
                        }
                        let io_err = src.stats.fired.iter().any(|k| k.starts_with("eio"));
                        if io_err {
                            // an I/O error was returned to the reader and it still said Ok: acceptable only if complete
                            // (already judged above against the full stored data)
                            st.probe("read_ok_after_io_error");
                        }
                    }
                }
                Ok(Err(e)) => {
                    obs.u64(4);
                    obs.u64(0);
                    let _ = e;
                    if legal {
                        out.push(Violation::new("T1", "schedule-dependence", "read.result", format!("legal short/interrupted reads made read fail: {e:#}")));
                    } else {
                        st.probe("read_err_under_fault");
                    }
                }
            }
            if !legal {
                // heal: the undamaged text reads to the model again
                if let Ok(Ok(v)) = no_panic(|| with_n!(n, read_real(&read_input[..]))) {
                    if p.m.diff_path(&v).is_some() && out.is_empty() {
                        out.push(Violation::new("T2", "residue-after-heal", "read", "read after heal differs"));
                    }
                }
            }
        }
        st.obs = obs;
        out
    }

    fn shrink(&self, p: &Plan) -> Vec<Plan> {
        let mut c = vec![];
        for io in shrink_io(&p.write_io) {
            let mut q = p.clone();
            q.write_io = io;
            c.push(q);
        }
        for io in shrink_io(&p.read_io) {
            let mut q = p.clone();
            q.read_io = io;
            c.push(q);
        }
        if let Some((k, st)) = p.file_route {
            let mut q = p.clone();
            q.file_route = None;
            c.push(q);
            if st != 0 {
                let mut q = p.clone();
                q.file_route = Some((k, 0));
                c.push(q);
            }
            if k != 0 {
                let mut q = p.clone();
                q.file_route = Some((0, st));
                c.push(q);
            }
        }
        if p.text_order.is_some() {
            let mut q = p.clone();
            q.text_order = None;
            c.push(q);
        }
        if p.order_a != 0 {
            let mut q = p.clone();
            q.order_a = 0;
            c.push(q);
        }
        for m in shrink_mapset(&p.m) {
            let mut q = p.clone();
            q.m = m;
            c.push(q);
        }
        c
    }
    fn size(&self, p: &Plan) -> (u64, u64) {
        (p.m.count() as u64, (p.write_io.faults.len() + p.read_io.faults.len()) as u64)
    }
    fn rule(&self) -> String {
        "one run = one generated mapping set (2-4 namespaces, missing names, inner names, unicode, multi-line comments, sizes on both sides of BufWriter's 8 KiB) x two insertion orders x optional non-canonical section order x one writer schedule x one reader schedule (chunk ceiling, short %, EINTR %) x 0-2 faults; a run counts as non-trivial when a short transfer, EINTR or fault actually fired, and as distinct by (workload shape digest, I/O event-log digest)".into()
    }
    fn assumptions(&self) -> Vec<String> {
        vec![
            "values are restricted to what Tiny v2 can carry (DESIGN appendix C): no TAB/CR/LF in names, no CR or TAB in comments, comments do not contain the two characters backslash-n, no mapping-level comment".into(),
            "harness profile: opt-level 2 with overflow checks and debug assertions (arithmetic semantics of the repository's test profile)".into(),
            "under faults a reader result Ok is compared with the reference reading of the delivered bytes; reference Err + real Ok is counted (lenient_accept), not flagged".into(),
        ]
    }
    fn real_and_stub(&self) -> serde_json::Value {
        json!({"real": ["quill::tiny_v2::{read, write, write_vec}", "quill::lines", "quill::tree::{mappings, names}", "std BufReader/BufWriter/lines/write_all"], "stub": ["byte source (SimReader)", "byte sink (SimWriter)"], "reference": ["refmap::{read_tiny, write_tiny, MapSet}"]})
    }
    fn expected_probes(&self) -> Vec<&'static str> {
        vec!["text_over_8k", "text_under_8k", "error_in_final_bufwriter_flush", "io.eintr", "io.short_transfers", "lenient_accept", "read_ok_on_damaged_medium_agrees", "write_err_under_fault", "read_err_under_fault"]
    }
}

pub fn first_text_diff(a: &[u8], b: &[u8]) -> String {
    let la: Vec<&[u8]> = a.split(|x| *x == b'\n').collect();
    let lb: Vec<&[u8]> = b.split(|x| *x == b'\n').collect();
    for i in 0..la.len().max(lb.len()) {
        let x = la.get(i).copied().unwrap_or(b"<eof>");
        let y = lb.get(i).copied().unwrap_or(b"<eof>");
        if x != y {
            return format!("line {}: {:?} vs {:?}", i + 1, String::from_utf8_lossy(x), String::from_utf8_lossy(y));
        }
    }
    "equal".into()
}

/// Workload shrinking shared by the mapping engines: drop classes, members, parameters, comments.
pub fn shrink_mapset(m: &MapSet) -> Vec<MapSet> {
    let mut c = vec![];
    // halves first
    if m.classes.len() > 3 {
        let keys: Vec<_> = m.classes.keys().cloned().collect();
        for half in [&keys[..keys.len() / 2], &keys[keys.len() / 2..]] {
            let mut q = m.clone();
            for k in half {
                q.classes.remove(k);
            }
            c.push(q);
        }
    }
    for k in m.classes.keys() {
        let mut q = m.clone();
        q.classes.remove(k);
        c.push(q);
    }
    for (k, cl) in &m.classes {
        if cl.doc.is_some() {
            let mut q = m.clone();
            q.classes.get_mut(k).unwrap().doc = None;
            c.push(q);
        }
        for fk in cl.fields.keys() {
            let mut q = m.clone();
            q.classes.get_mut(k).unwrap().fields.remove(fk);
            c.push(q);
        }
        for (mk, me) in &cl.methods {
            let mut q = m.clone();
            q.classes.get_mut(k).unwrap().methods.remove(mk);
            c.push(q);
            for pi in me.params.keys() {
                let mut q = m.clone();
                q.classes.get_mut(k).unwrap().methods.get_mut(mk).unwrap().params.remove(pi);
                c.push(q);
            }
            if me.doc.is_some() {
                let mut q = m.clone();
                q.classes.get_mut(k).unwrap().methods.get_mut(mk).unwrap().doc = None;
                c.push(q);
            }
        }
        for (fk, f) in &cl.fields {
            if f.doc.is_some() {
                let mut q = m.clone();
                q.classes.get_mut(k).unwrap().fields.get_mut(fk).unwrap().doc = None;
                c.push(q);
            }
        }
    }
    c
}
